"""Generators of annotation files for the database-level checks."""
import itertools


def gff_line(seqid, ftype, start, end, strand, attrs, source="src", score=".", frame="."):
    """attrs: list of (key, [values]) written GFF3-style (values must be plain)"""
    a = ";".join("%s=%s" % (k, ",".join(v)) if v else k for k, v in attrs)
    return "\t".join([seqid, source, ftype, str(start), str(end), score, strand, frame, a])


def gtf_line(seqid, ftype, start, end, strand, attrs, source="src", score=".", frame=".", sep="; "):
    a = sep.join('%s "%s"' % (k, ",".join(v)) for k, v in attrs) + sep.rstrip()
    return "\t".join([seqid, source, ftype, str(start), str(end), score, strand, frame, a])


def rand_gff3_graph(r, n=None, depth=4, dangling=True):
    """a DAG of features with unique IDs: returns (lines, nodes) where nodes = list of dict(id, parents, ftype...)
    in *definition* order (parents before children); callers shuffle."""
    n = n if n is not None else r.randrange(1, 12)
    types_by_level = ["gene", "mRNA", "exon", "CDS", "site"]
    nodes = []
    for i in range(n):
        level = r.randrange(0, depth + 1) if nodes else 0
        cands = [x for x in nodes if x["level"] == level - 1] if level > 0 else []
        if level > 0 and not cands:
            level = 0
        k = 0 if level == 0 else r.choice([1, 1, 1, 2, 3])
        parents = r.sample(cands, min(k, len(cands))) if cands else []
        pids = [p["id"] for p in parents]
        if parents and r.random() < 0.3:
            # also name a parent of one of the parents (so a pair is related at level 1 AND level 2),
            # or any other earlier feature of a shallower level
            up = [q for q in parents[0]["parents"] if not q.startswith("ghost")] or \
                 [x["id"] for x in nodes if x["level"] < level - 1]
            if up:
                pids.append(r.choice(up))
        if dangling and r.random() < 0.15:
            pids.append("ghost%d" % r.randrange(3))
        if r.random() < 0.08 and pids:
            pids.append(pids[0])                      # a repeated Parent value
        start = r.randrange(1, 5000)
        node = {"id": "n%d" % i, "level": level, "parents": pids, "ftype": types_by_level[min(level, 4)],
                "seqid": r.choice(["chr1", "chr1", "chr2"]), "start": start, "end": start + r.randrange(0, 800),
                "strand": r.choice("+-")}
        nodes.append(node)
    return nodes


def graph_lines(nodes):
    out = []
    for x in nodes:
        attrs = [("ID", [x["id"]])]
        if x["parents"]:
            attrs.append(("Parent", x["parents"]))
        out.append(gff_line(x["seqid"], x["ftype"], x["start"], x["end"], x["strand"], attrs))
    return out


def rand_gtf_forest(r, explicit=False, ngenes=None):
    """returns list of dict lines: each dict(ftype, gene, transcript, start, end, seqid, strand) in file order"""
    ngenes = ngenes or r.randrange(1, 4)
    recs = []
    for g in range(ngenes):
        gid = "G%d" % g
        seqid = r.choice(["chr1", "chr2"])
        strand = r.choice("+-")
        for t in range(r.randrange(1, 4)):
            tid = "%sT%d" % (gid, t)
            if explicit and r.random() < 0.15:
                # an id of the shape '<other transcript or gene id>_<n>' (what a uniquified duplicate would be called)
                others = sorted({x["transcript"] for x in recs if x["transcript"]} | {x["gene"] for x in recs})
                if others:
                    tid = "%s_%d" % (r.choice(others), r.choice([1, 1, 2]))
                    if any(x["transcript"] == tid for x in recs):
                        tid = "%sT%d" % (gid, t)
            pos = r.randrange(1, 3000)
            nex = r.randrange(0, 5)
            exons = []
            for e in range(nex):
                ln = r.randrange(1, 300)
                exons.append((pos, pos + ln))
                pos += ln + r.randrange(1, 400)
            for (a, b) in exons:
                recs.append(dict(ftype="exon", gene=gid, transcript=tid, start=a, end=b, seqid=seqid, strand=strand))
                if r.random() < 0.5:
                    recs.append(dict(ftype="CDS", gene=gid, transcript=tid, start=a, end=b, seqid=seqid, strand=strand))
            if exons and r.random() < 0.3:
                recs.append(dict(ftype="start_codon", gene=gid, transcript=tid, start=exons[0][0],
                                 end=exons[0][0] + 2, seqid=seqid, strand=strand))
            if not exons and r.random() < 0.7:
                # a transcript without exons: only a CDS-less line of another type
                recs.append(dict(ftype="UTR", gene=gid, transcript=tid, start=pos, end=pos + 10, seqid=seqid,
                                 strand=strand))
            if explicit and r.random() < 0.6:
                ex = [x for x in recs if x["transcript"] == tid and x["ftype"] == "exon"]
                if ex:
                    recs.append(explicit_line(r, dict(ftype="transcript", gene=gid, transcript=tid,
                                                      start=min(x["start"] for x in ex), end=max(x["end"] for x in ex),
                                                      seqid=seqid, strand=strand)))
        if explicit and r.random() < 0.3:
            # a transcript known only from its own line (no exon, no other feature)
            recs.append(dict(ftype="transcript", gene=gid, transcript="%sLONE" % gid, start=r.randrange(1, 500),
                             end=r.randrange(500, 900), seqid=seqid, strand=strand))
        if explicit and r.random() < 0.6:
            ex = [x for x in recs if x["gene"] == gid and x["ftype"] == "exon"]
            if ex:
                recs.append(explicit_line(r, dict(ftype="gene", gene=gid, transcript=None, start=min(x["start"] for x in ex),
                                                  end=max(x["end"] for x in ex), seqid=seqid, strand=strand)))
    return recs


def explicit_line(r, rec):
    """a gene / transcript line of the file itself: now and then with an extent other than the envelope of its exons,
    with an attribute of its own, and with 'gffutils_derived' in the source column (a gffutils export that was edited
    and imported again) - it stays the single feature under its id, exactly as written"""
    if r.random() < 0.3:
        rec["start"] = max(1, rec["start"] - r.randrange(0, 40))
        rec["end"] = rec["end"] + r.randrange(1, 40)
    if r.random() < 0.4:
        rec["note"] = r.choice(["curated", "x y", "n1"])
    if r.random() < 0.3:
        rec["source"] = "gffutils_derived"
    return rec


def gtf_lines(recs, gkey="gene_id", tkey="transcript_id"):
    out = []
    for x in recs:
        attrs = [(gkey, [x["gene"]])]
        if x["transcript"] is not None:
            attrs.append((tkey, [x["transcript"]]))
        if "note" in x:
            attrs.append(("note", [x["note"]]))
        out.append(gtf_line(x["seqid"], x["ftype"], x["start"], x["end"], x["strand"], attrs, source=x.get("source", "src"),
                            sep=x.get("sep", "; ")))
    return out


def permutations_or_sample(r, items, limit=720, nsample=8):
    items = list(items)
    if len(items) <= 6:
        perms = list(itertools.permutations(items))
        if len(perms) > limit:
            perms = r.sample(perms, limit)
        return [list(p) for p in perms]
    out = []
    for _ in range(nsample):
        p = items[:]
        r.shuffle(p)
        out.append(p)
    out.append(list(reversed(items)))
    return out
