"""Generators for the attribute-column grammar (LineSpec of GffModel/Grammar.lean) and for malformed text."""
import itertools

from common import enc
from pyside import enc_list, enc_attrs, enc_bool

SEPS = [";", "; ", " ; "]
KEYS = ["ID", "Name", "Parent", "gene_id", "transcript_id", "Note", "Dbxref", "k1", "a_b", "x.y", "exon_number",
        "é1", "Ωmega", "Alias", "tag", "_x", "9lives", "gene-name", "k:1"]
SAFE = "abcXYZ019_.:-+|/()[]{}<>?!*@#$^~'`\\"
NASTY = [";", "=", ",", "&", "%", "\t", "\n", "\r", "\x00", "\x1f", "\x7f", '"', " ", " ", "\u0085", "　",
         " ", "é", "中", "\U0001F600", "%41", "%2C", "%zz", "\x1c", "ß"]


class Spec:
    __slots__ = ("cols", "sep", "trailing", "style", "quoted", "repeated", "attrs", "extra", "mode")

    def cmd(self):
        return "spec %s %s %s %s %s %s %s %s" % (
            enc_list(self.cols), enc(self.sep), enc_bool(self.trailing), self.style, enc_bool(self.quoted),
            enc_bool(self.repeated), enc_attrs(dict_noclobber(self.attrs)), enc_list(self.extra))

    def as_dict(self):
        return {"cols": self.cols, "sep": self.sep, "trailing": self.trailing, "style": self.style,
                "quoted": self.quoted, "repeated": self.repeated, "attrs": self.attrs, "extra": self.extra}

    @staticmethod
    def from_dict(d):
        """inverse of as_dict (also after a JSON round trip, which turns the (key, values) pairs into lists)"""
        s = Spec()
        s.mode = d.get("mode", "file")
        s.cols, s.sep, s.trailing, s.style = list(d["cols"]), d["sep"], d["trailing"], d["style"]
        s.quoted, s.repeated, s.extra = d["quoted"], d["repeated"], list(d["extra"])
        s.attrs = [(k, list(v)) for k, v in d["attrs"]]
        return s


class _Items:
    """ordered list of (key, vals) rendered like a dict by enc_attrs but allowing duplicate keys"""

    def __init__(self, items):
        self._items = items

    def items(self):
        return list(self._items)

    def __bool__(self):
        return bool(self._items)


def dict_noclobber(items):
    return _Items(items)


# texts of trailing extra columns: ordinary text, empty, and texts that are valid JSON documents on their own (a bare
# number such as an overlap count, a quoted word, true/false/null, an array, an object) - a column is text whatever it
# looks like, alone or among several
JSON_EXTRA = ["12", "0.50", "true", "null", '"foo"', "[1,2]", "-3", "1e5", "false", "[]", "{}", '{"a":1}', '["x"]',
              '""', "0", "NaN"]
EXTRA_POOL = ["", "x", "extra col", "1"] + JSON_EXTRA


def rand_value(r, fmt, clean):
    n = r.choice([1, 1, 2, 3, 5, 8])
    out = []
    for _ in range(n):
        if clean or r.random() < 0.6:
            out.append(r.choice(SAFE))
        else:
            c = r.choice(NASTY)
            if fmt == "gtf" and clean:
                continue
            out.append(c)
    v = "".join(out) or "v"
    if r.random() < 0.25:
        v = v[: len(v) // 2] + " " + v[len(v) // 2:]
    return v


def rand_key(r):
    if r.random() < 0.8:
        return r.choice(KEYS)
    return "".join(r.choice("abcdefgXYZ_019") for _ in range(r.randrange(1, 6)))


def rand_cols(r, wild=False):
    def coord():
        x = r.random()
        if x < 0.15:
            return "."
        if wild and x < 0.3:
            return r.choice(["", "007", "+5", " 5", "1_0", "x", "-0", "1e3", "1__0", "_5", "5_", "1_0_0"])
        return str(r.choice([1, 5, 100, 131072, 2 ** 29, 2 ** 29 - 1, r.randrange(1, 10 ** 7), -3, 0,
                             2 ** 53 + 1, 2 ** 63 - 1, 9007199254740993]))
    seqid = r.choice(["chr1", "2L", "scaffold_1", "chré", "X", ".", "a b" if wild else "Y", ""if wild else "I"])
    return [seqid, r.choice(["src", ".", "FlyBase", "a_b"]), r.choice(["gene", "mRNA", "exon", "CDS", "."]),
            coord(), coord(), r.choice([".", "0.5", "12", "1e-5"]), r.choice(["+", "-", ".", "?"]),
            r.choice([".", "0", "1", "2"])]


def rand_spec(r, valid=True):
    s = Spec()
    s.mode = "valid" if valid else "perturbed"
    s.style = r.choice(["eq", "eq", "space"])
    s.quoted = r.random() < (0.7 if s.style == "space" else 0.2)
    fmt = "gtf" if (s.style == "space" and s.quoted) else "gff3"
    s.sep = r.choice(SEPS)
    s.trailing = r.random() < 0.4
    n = r.choice([0, 1, 1, 2, 2, 3, 3, 4, 5, 6])
    keys = []
    while len(keys) < n:
        k = rand_key(r)
        if k not in keys or not valid:
            keys.append(k)
    s.attrs = []
    for i, k in enumerate(keys):
        nv = r.choice([0, 1, 1, 1, 2, 3])
        if valid and i == 0 and s.style == "eq" and nv == 0:
            nv = 1
        vals = []
        for _ in range(nv):
            v = rand_value(r, fmt, clean=(valid and fmt == "gtf") or r.random() < 0.5)
            if valid:
                v = v.strip(" ") or "v"
                if s.style == "space" and not s.quoted:
                    v = v.rstrip() or "v"
            vals.append(v)
        s.attrs.append((k, vals))
    s.repeated = r.random() < 0.3
    if valid:
        if s.style == "eq" and s.attrs:
            k0 = s.attrs[0][0]
            if not all(ch.isalnum() or ch == "_" for ch in k0):
                s.attrs[0] = ("ID" if "ID" not in keys else "first_1", s.attrs[0][1])
        if s.repeated and not any(len(v) > 1 for _, v in s.attrs):
            s.repeated = False
        if s.quoted and s.style == "eq" and not any(v for _, v in s.attrs):
            s.quoted = False
        nparts = sum((len(v) if (s.repeated and len(v) > 1) else 1) for _, v in s.attrs)
        if nparts < 2:
            s.sep = ";"
        if not s.attrs:
            s.sep, s.trailing, s.style, s.quoted, s.repeated = ";", False, "eq", False, False
    s.cols = rand_cols(r, wild=not valid and r.random() < 0.5)
    s.extra = [r.choice(EXTRA_POOL if r.random() < 0.5 else EXTRA_POOL[:4]) for _ in range(r.choice([0, 0, 0, 1, 1, 2, 3]))]
    if not valid:
        # perturb one thing
        p = r.randrange(8)
        if p == 0 and s.attrs:
            i = r.randrange(len(s.attrs))
            s.attrs[i] = (r.choice([" lead", "tr ", "a=b", "a b", "", ";k", '"q"', "k,1"]), s.attrs[i][1])
        elif p == 1 and s.attrs:
            i = r.randrange(len(s.attrs))
            s.attrs[i] = (s.attrs[i][0], s.attrs[i][1] + [r.choice([" lead", "trail ", '"q"', '"', "", "a;b", "a,b",
                                                                    "x ", "\t"])])
        elif p == 2:
            s.extra.append(r.choice(["a\tb", "x\n", ""]))
        elif p == 3:
            s.cols[r.randrange(8)] = r.choice(["", " ", "a\tb", "x\r"])
        elif p == 4:
            s.repeated = not s.repeated
        elif p == 5:
            s.quoted = not s.quoted
        elif p == 6:
            s.sep = r.choice(SEPS + [",", " "])
    return s


def exhaustive_strings(alphabet, maxlen):
    for n in range(0, maxlen + 1):
        for t in itertools.product(alphabet, repeat=n):
            yield "".join(t)
