"""The implementation side of the protocol: call the real gffutils and render the observable in the
same canonical text the Lean driver prints (GffModel/Proto.lean)."""
from common import enc

DKEYS = ["leading semicolon", "trailing semicolon", "quoted GFF2 values", "field separator", "keyval separator",
         "multival separator", "fmt", "repeated keys", "order"]

ERRMAP = {
    "ValueError": "ValueError", "IndexError": "IndexError", "KeyError": "KeyError", "TypeError": "TypeError",
    "AttributeError": "AttributeError", "AssertionError": "AssertionError",
    "AttributeStringError": "AttributeStringError", "FeatureNotFoundError": "FeatureNotFoundError",
    "IntegrityError": "IntegrityError", "OperationalError": "OperationalError",
    "EmptyInputError": "EmptyInputError", "UnboundLocalError": "UnboundLocalError",
}


def err_name(ex):
    return ERRMAP.get(type(ex).__name__, "Exception")


def enc_bool(b):
    return "1" if b else "0"


def enc_list(l):
    l = list(l)
    if not l:
        return "_"
    return ",".join(enc(x) for x in l)


def enc_attrs(a):
    """a: Attributes or dict of lists"""
    d = a._d if hasattr(a, "_d") else a
    if not d:
        return "_"
    return ";".join(enc(k) + "=" + enc_list(v) for k, v in d.items())


def enc_dialect(d):
    if d is None:
        return "none"
    return "|".join([enc_bool(d["leading semicolon"]), enc_bool(d["trailing semicolon"]),
                     enc_bool(d["quoted GFF2 values"]), enc(d["field separator"]), enc(d["keyval separator"]),
                     enc(d["multival separator"]), enc(d["fmt"]), enc_bool(d["repeated keys"]),
                     enc_list(d["order"])])


def mk_dialect(ls=False, ts=False, q=False, fs=";", kv="=", ms=",", fmt="gff3", rk=False, order=()):
    return {"leading semicolon": ls, "trailing semicolon": ts, "quoted GFF2 values": q, "field separator": fs,
            "keyval separator": kv, "multival separator": ms, "fmt": fmt, "repeated keys": rk,
            "order": list(order)}


def enc_optint(x):
    return "~" if x is None else str(x)


def enc_bin(b):
    if b is None:
        return "~"
    if isinstance(b, int):
        return str(b)
    return "set"


def enc_feature(f):
    try:
        printed = enc(str(f))
    except Exception as ex:
        printed = "!" + err_name(ex)
    return " ".join([enc(f.seqid), enc(f.source), enc(f.featuretype), enc_optint(f.start), enc_optint(f.end),
                     enc(f.score), enc(f.strand), enc(f.frame), enc_attrs(f.attributes), enc_list(f.extra),
                     enc_bin(f.bin), enc_dialect(f.dialect), printed])


def impl_split(s, dialect=None):
    from gffutils import parser
    import copy
    try:
        a, d = parser._split_keyvals(s, dialect=copy.deepcopy(dialect) if dialect is not None else None)
        return "ok %s %s" % (enc_attrs(a), enc_dialect(d))
    except Exception as ex:
        return "err " + err_name(ex)


def impl_recon(attrs, dialect, keep=False, sort=False):
    from gffutils import parser
    try:
        return "ok " + enc(parser._reconstruct(attrs, dialect, keep_order=keep, sort_attribute_values=sort))
    except Exception as ex:
        return "err " + err_name(ex)


def impl_line(line, dialect=None, strict=True, keep=False):
    from gffutils.feature import feature_from_line
    import copy
    try:
        f = feature_from_line(line, dialect=copy.deepcopy(dialect) if dialect is not None else None, strict=strict,
                              keep_order=keep)
    except Exception as ex:
        return "err " + err_name(ex)
    return "ok " + enc_feature(f)


def cmd_split(s, dialect=None, ie=False):
    return "split %s %s %s" % (enc_dialect(dialect), enc(s), enc_bool(ie))


def cmd_recon(attrs, dialect, keep=False, sort=False, ie=False):
    return "recon %s %s %s %s %s" % (enc_dialect(dialect), enc_attrs(attrs), enc_bool(keep), enc_bool(sort),
                                     enc_bool(ie))


def cmd_line(line, dialect=None, strict=True, keep=False, ie=False):
    return "line %s %s %s %s %s" % (enc_dialect(dialect), enc_bool(strict), enc_bool(keep), enc_bool(ie), enc(line))
