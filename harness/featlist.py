"""Feature lists for the `merge` / `interf` protocol commands (lean/GffModel/ProtoMerge.lean), shared by
props/C15.py and props/C16.py: builders of real `Feature` objects, the command encoders, the criteria
zoo (names <-> callables of gffutils.merge_criteria), and the canonical rendering of what the real code
returns."""
import collections

import pyside
from common import enc


class Item:
    """one input feature: its GFF line plus what the harness sets on the object after parsing"""
    __slots__ = ("line", "id", "file_order")

    def __init__(self, line, id=None, file_order=None):
        self.line, self.id, self.file_order = line, id, file_order

    def build(self):
        from gffutils.feature import feature_from_line
        f = feature_from_line(self.line)
        f.id = self.id
        f.file_order = self.file_order
        return f

    def as_json(self):
        return {"line": self.line, "id": self.id, "file_order": self.file_order}

    @staticmethod
    def from_json(d):
        return Item(d["line"], d.get("id"), d.get("file_order"))


def gff_line(seqid, start, end, strand="+", ftype="exon", source="s", score=".", frame=".", attrs="", extra=()):
    cols = [seqid, source, ftype, "." if start is None else str(start), "." if end is None else str(end), score,
            strand, frame, attrs]
    return "\t".join(cols + list(extra))


def enc_item(item, obj=None):
    """obj: the live Feature (to tell whether it carries a `children` attribute)"""
    ch = "~"
    if obj is not None and "children" in vars(obj):
        ch = "0"
    return "%s/%s/%s/%s" % (enc(item.line), enc(item.id), "~" if item.file_order is None else str(item.file_order), ch)


def enc_items(items, objs=None):
    if not items:
        return "_"
    return ",".join(enc_item(it, objs[i] if objs else None) for i, it in enumerate(items))


def enc_feat(f):
    return "%s %s %s" % (pyside.enc_feature(f), enc(f.id), "~" if f.file_order is None else str(f.file_order))


def new_db():
    import gffutils
    return gffutils.create_db("chr1\t.\tgene\t1\t2\t.\t+\t.\tID=g", ":memory:", from_string=True)


def db_cfg(db):
    return "%s %s %s" % (pyside.enc_dialect(db.dialect), pyside.enc_bool(db.keep_order),
                         pyside.enc_bool(db.sort_attribute_values))


# ---------------------------------------------------------------------------------------------------
# criteria

def criteria_zoo():
    from gffutils import merge_criteria as mc
    zoo = {
        "seqid": mc.seqid, "strand": mc.strand, "ftype": mc.feature_type, "exact": mc.exact_coordinates_only,
        "endinc": mc.overlap_end_inclusive, "startinc": mc.overlap_start_inclusive,
        "anyinc": mc.overlap_any_inclusive,
        "max3": lambda acc, cur, components: len(components) < 3,
        "samescore": lambda acc, cur, components: acc.score == cur.score,
        "always": lambda acc, cur, components: True,
        "never": lambda acc, cur, components: False,
    }
    return zoo


def crit_of(name, zoo=None):
    from gffutils import merge_criteria as mc
    zoo = zoo or criteria_zoo()
    if ":" in name:
        kind, t = name.split(":")
        t = int(t)
        return {"endthr": mc.overlap_end_threshold, "startthr": mc.overlap_start_threshold,
                "anythr": mc.overlap_any_threshold}[kind](t)
    return zoo[name]


DEFAULT_CRITERIA = ["seqid", "endinc", "strand", "ftype"]


def enc_crits(names):
    return ",".join(names) if names else "_"


def enc_autoinc(d):
    d = {k: v for k, v in d.items()}
    if not d:
        return "_"
    return ";".join("%s=%d" % (enc(k), v) for k, v in d.items())


# ---------------------------------------------------------------------------------------------------
# merge

def cmd_merge(db, crit_names, autoinc, items, objs, d9fixed=False):
    return "merge %s %s %s %s %s" % (pyside.enc_bool(d9fixed), db_cfg(db), enc_crits(crit_names),
                                     enc_autoinc(autoinc), enc_items(items, objs))


def run_merge(db, objs, crit_names, zoo=None):
    """list(db.merge(objs, criteria)) -> (outs | None, error name | None)"""
    crits = [crit_of(n, zoo) for n in crit_names]
    # the accepted container forms of merge_criteria (interface.py L1610-1614): list, any iterable, a bare callable
    form = len(objs) % 3
    if form == 1:
        crits = tuple(crits)
    elif form == 2:
        crits = crits[0] if len(crits) == 1 else (c for c in crits)
    try:
        return list(db.merge(objs, merge_criteria=crits)), None
    except Exception as ex:
        return None, pyside.err_name(ex)


def enc_out(o):
    kids = list(getattr(o, "children", ()))
    return "%d %s %s" % (len(kids), pyside.enc_list(str(k) for k in kids), enc_feat(o))


def enc_merge_reply(db, outs, err):
    if err:
        return "err " + err
    return "ok %s %d %s" % (enc_autoinc(db._autoincrements), len(outs),
                            " / ".join(enc_out(o) for o in outs) if outs else "_")


def canon_merge_reply(reply):
    """The `source` of a merged output is ",".join(set(...)): hash order.  Make both sides' text canonical:
    sort the comma-separated parts of the source column and of the printed line's second field (for
    outputs with children), and sort the autoincrement entries."""
    if not reply.startswith("ok "):
        return reply
    from common import dec
    head, _, rest = reply.partition(" ")
    ai, n, body = rest.split(" ", 2)
    ai = ";".join(sorted(ai.split(";")))
    outs = []
    if body != "_":
        for o in body.split(" / "):
            t = o.split(" ")
            if t[0] != "0":
                # t: nkids kids seqid source ftype ... ; printed line is token 2+12
                src = dec(t[3])
                t[3] = enc(",".join(sorted(src.split(","))))
                if not t[14].startswith("!"):
                    cols = dec(t[14]).split("\t")
                    cols[1] = ",".join(sorted(cols[1].split(",")))
                    t[14] = enc("\t".join(cols))
            outs.append(" ".join(t))
    return "ok %s %s %s" % (ai, n, " / ".join(outs) if outs else "_")


# ---------------------------------------------------------------------------------------------------
# interfeatures

def cmd_interf(db, items, new_featuretype=None, merge_attributes=True, numeric_sort=False, update_attributes=None):
    return "interf %s %s %s %s %s %s" % (db_cfg(db), enc(new_featuretype), pyside.enc_bool(merge_attributes),
                                         pyside.enc_bool(numeric_sort), pyside.enc_attrs(update_attributes or {}),
                                         enc_items(items))


def run_interf(db, objs, **kw):
    try:
        return list(db.interfeatures(objs, **kw)), None
    except Exception as ex:
        return None, pyside.err_name(ex)


def enc_interf_reply(outs, err):
    if err:
        return "err " + err
    return "ok %d %s" % (len(outs), " / ".join(enc_feat(o) for o in outs) if outs else "_")
