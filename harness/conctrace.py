"""Temp-file traces of real imports (C20): a Python audit hook records, for one process, every operation on files of one
temp directory (mkstemp, open with its mode, unlink) with a system-wide monotonic time stamp, the directory listing at
that moment (audit events fire BEFORE the operation) and, for an open-for-reading, what the file holds at that moment.
`schedule_of` turns the traces of several imports into the concrete schedule `Conc.step` (GffModel/Conc.lean) is
replayed on: (process, operation, temp name) in global time order, plus what the real runs showed after every step."""
import os
import sys
import time

_state = {"hook": None, "installed": False}


def _dispatch(event, args):
    h = _state["hook"]
    if h is not None:
        h(event, args)


class Trace:
    """recording of the operations of this process on files directly in `tmpdir`, from construction until stop()"""

    def __init__(self, tmpdir):
        self.tmpdir = os.path.abspath(tmpdir)
        self.events = []
        self._busy = False
        if not _state["installed"]:
            sys.addaudithook(_dispatch)
            _state["installed"] = True
        _state["hook"] = self._hook

    def _rec(self, kind, name, mode=None, content=None):
        try:
            listing = sorted(os.listdir(self.tmpdir))
        except OSError:
            listing = []
        self.events.append({"t": time.monotonic_ns(), "kind": kind, "name": name, "mode": mode, "dir": listing,
                            "content": content})

    def _inside(self, p):
        return isinstance(p, str) and os.path.dirname(os.path.abspath(p)) == self.tmpdir

    def _hook(self, event, args):
        if self._busy or event not in ("open", "os.remove", "os.unlink", "tempfile.mkstemp"):
            return
        self._busy = True
        try:
            if event == "open":
                p, mode = args[0], args[1]
                if self._inside(p):
                    content = None
                    if isinstance(mode, str) and mode.startswith("r"):
                        try:
                            with open(p) as fh:
                                content = fh.read()
                        except OSError:
                            content = None
                    self._rec("open", os.path.basename(p), mode, content)
            elif event == "tempfile.mkstemp":
                if self._inside(str(args[0])):
                    self._rec("mkstemp", os.path.basename(str(args[0])))
            elif self._inside(args[0]):
                self._rec("unlink", os.path.basename(args[0]))
        finally:
            self._busy = False

    def mark(self, kind):
        """a non-file event (e.g. 'done': create_db returned) with time stamp and listing"""
        self._rec(kind, None)

    def stop(self):
        if _state["hook"] == self._hook:
            _state["hook"] = None
        return self.events


def program_of(events):
    """the import's temp-file program as the model's operations: list of (t, op, name, listing before, content) with
    op in mkstemp | write | read | unlink | out; [] when the import touched no temp file.  The intermediate file is the
    one opened for writing; `mkstemp` is the O_EXCL creation of that name (the last one before the write)."""
    written = [e["name"] for e in events if e["kind"] == "open" and isinstance(e["mode"], str) and
               any(c in e["mode"] for c in "wxa+")]
    via_fd = False
    if not written:
        # the file may be written through the descriptor mkstemp returned (os.fdopen(fd, "w")): no open-by-name event
        # exists then; the intermediate file is the mkstemp'd name that is later read back or unlinked, and its creation
        # stands for the write as well
        made = [e["name"] for e in events if e["kind"] == "mkstemp"]
        later = set(e["name"] for e in events if e["kind"] in ("open", "unlink"))
        written = [n for n in made if n in later]
        via_fd = True
    if not written:
        return []
    name = written[0]
    ops = []
    created = [e for e in events if e["kind"] == "open" and e["name"] == name and e["mode"] is None] or \
              [e for e in events if e["kind"] == "mkstemp" and e["name"] == name]
    if created:
        ops.append((created[-1]["t"], "mkstemp", name, created[-1]["dir"], None))
        if via_fd:
            ops.append((created[-1]["t"] + 1, "write", name, sorted(set(created[-1]["dir"]) | {name}), None))
    for e in events:
        if e["name"] != name and e["kind"] != "done":
            continue
        if e["kind"] == "open" and isinstance(e["mode"], str):
            if any(c in e["mode"] for c in "wxa+"):
                if not any(o[1] == "write" for o in ops):
                    ops.append((e["t"], "write", name, e["dir"], None))
            elif not any(o[1] == "read" for o in ops):
                ops.append((e["t"], "read", name, e["dir"], e["content"]))
        elif e["kind"] == "unlink":
            ops.append((e["t"], "unlink", name, e["dir"], None))
        elif e["kind"] == "done":
            ops.append((e["t"], "out", name, e["dir"], None))
    return ops


def schedule_of(traces, final_listing, foreign):
    """traces: one event list per import (process).  returns (schedule [(process, op, name)], views: per step the
    names in the directory / the names that are not foreign, after the step, outputs: per process what it read back
    (None unless it reached `out`), finished)"""
    progs = [program_of(ev) for ev in traces]
    steps = sorted((t, i, op, name, listing, content) for i, ops in enumerate(progs)
                   for t, op, name, listing, content in ops)
    schedule = [(i, op, name) for _, i, op, name, _, _ in steps]
    views = []
    for k in range(len(steps)):
        after = steps[k + 1][4] if k + 1 < len(steps) else sorted(final_listing)
        views.append((sorted(after), sorted(x for x in after if x not in foreign)))
    outputs = []
    for ops in progs:
        read = [o[4] for o in ops if o[1] == "read"]
        outputs.append(read[0] if read and any(o[1] == "out" for o in ops) else None)
    finished = all(any(o[1] == "out" for o in ops) for ops in progs)
    return schedule, views, outputs, finished
