"""The translation tie of C12 / C06 (DESIGN 8.10): `bins()` of the gffutils that is imported NOW is translated to Lean
(tools/py2lean.py) and the hand-written model is proved equal to the translation (GffProofs/Gen/BinsEq.lean).

status "holds"        the translation is the committed lean/GffGen/Bins.lean, whose equality proof `lake build` has checked;
                      or it differs (the source changed) and translation + proof were re-checked in a scratch directory
       "unavailable"  the source is outside the translator's fragment: this tie says nothing; the correspondence decides
       "broken"       the source is in the fragment and the equality proof does not check: a proof obligation is broken
"""
import hashlib
import os
import shutil
import subprocess
import sys
import tempfile

import common

sys.path.insert(0, os.path.join(common.VERIF, "tools"))
import py2lean  # noqa: E402

LEAN = os.path.join(common.VERIF, "lean")

TIES = {
    "bins": {"module": "gffutils.bins", "translate": py2lean.translate, "generated": os.path.join("GffGen", "Bins.lean"),
             "proof": os.path.join("GffProofs", "Gen", "BinsEq.lean"),
             "theorem": "GffProofs.Gen.bins_eq_model : GffGen.bins = GffModel.Bins.bins (all integers, both conventions, "
                        "both modes)"},
    "criteria": {"module": "gffutils.merge_criteria", "translate": py2lean.translate_criteria,
                 "generated": os.path.join("GffGen", "Crit.lean"), "proof": os.path.join("GffProofs", "Gen", "CritEq.lean"),
                 "theorem": "GffProofs.Gen.*_eq / defaultCriteria_eq : CritExpr.evalB of every translated criterion of "
                            "merge_criteria.py = the criterion of GffModel.Merge (all features incl. None coordinates, all "
                            "thresholds)"},
}


def check(kind="bins", timeout=900):
    import importlib
    tie = TIES[kind]
    path = importlib.import_module(tie["module"]).__file__
    src = open(path, encoding="utf-8").read()
    out = {"kind": kind, "source": path, "source_sha1": hashlib.sha1(src.encode("utf-8")).hexdigest(), "theorem": tie["theorem"]}
    base = os.path.basename(path)
    try:
        text = tie["translate"](src)
    except py2lean.Unsupported as ex:
        out.update(status="unavailable", reason="%s is outside the translator's fragment: %s" % (base, ex))
        return out
    except SyntaxError as ex:
        out.update(status="unavailable", reason="%s does not parse: %s" % (base, ex))
        return out
    out["translation_sha1"] = hashlib.sha1(text.encode("utf-8")).hexdigest()
    committed_path = os.path.join(LEAN, tie["generated"])
    committed = open(committed_path, encoding="utf-8").read() if os.path.exists(committed_path) else None
    if text == committed:
        out.update(status="holds", how="translation identical to lean/%s; equality proofs checked by lake build" % tie["generated"])
        return out
    # the source changed: re-check translation + proof in a scratch directory (the lake workspace is left alone)
    scratch = tempfile.mkdtemp(prefix="gentie-", dir="/var/tmp")
    try:
        os.makedirs(os.path.join(scratch, "GffGen"))
        gen = os.path.join(scratch, tie["generated"])
        with open(gen, "w", encoding="utf-8") as fh:
            fh.write(text)
        proof = os.path.join(scratch, "EqRegenerated.lean")          # not under GffProofs/: that package is the built one
        shutil.copy(os.path.join(LEAN, tie["proof"]), proof)
        p = subprocess.run(["lake", "env", "printenv", "LEAN_PATH"], cwd=LEAN, stdout=subprocess.PIPE, text=True, timeout=120)
        env = dict(os.environ, LEAN_PATH=scratch + ":" + p.stdout.strip())
        log = ""
        for src_, olean in ((gen, gen[:-5] + ".olean"), (proof, None)):
            cmd = ["lean", src_] + (["-o", olean] if olean else [])
            q = subprocess.run(cmd, cwd=scratch, env=env, stdout=subprocess.PIPE, stderr=subprocess.STDOUT, text=True,
                               timeout=timeout)
            log += q.stdout
            if q.returncode != 0:
                out.update(status="broken", how="regenerated translation differs from lean/%s" % tie["generated"],
                           reason="%s does not check against the regenerated translation"
                                  % ("the translation itself" if olean else "lean/" + tie["proof"]),
                           lean_output=log[-1500:], translation=text)
                return out
        out.update(status="holds", how="regenerated translation differs from lean/%s (the source changed); translation and "
                                       "equality proofs re-checked in a scratch directory" % tie["generated"])
        return out
    except subprocess.TimeoutExpired:
        out.update(status="unavailable", reason="re-checking the regenerated translation timed out")
        return out
    finally:
        shutil.rmtree(scratch, ignore_errors=True)


if __name__ == "__main__":
    import json
    for kind in (sys.argv[1:] or list(TIES)):
        print(json.dumps({k: v for k, v in check(kind).items() if k != "translation"}, indent=1))
