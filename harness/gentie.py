"""The translation tie of C12 / C06 (DESIGN 8.10): `bins()` of the gffutils that is imported NOW is translated to Lean
(tools/py2lean.py) and the hand-written model is proved equal to the translation (GffProofs/Gen/BinsEq.lean).

status "holds"        the translation is the committed lean/GffGen/Bins.lean, whose equality proof `lake build` has checked;
                      or it differs (the source changed) and translation + proof were re-checked in a scratch directory
       "unavailable"  the source is outside the translator's fragment: this tie says nothing; the correspondence decides
       "broken"       the source is in the fragment and the equality proof does not check: a proof obligation is broken
"""
import hashlib
import os
import shutil
import subprocess
import sys
import tempfile

import common

sys.path.insert(0, os.path.join(common.VERIF, "tools"))
import py2lean  # noqa: E402

LEAN = os.path.join(common.VERIF, "lean")
COMMITTED = os.path.join(LEAN, "GffGen", "Bins.lean")
PROOF = os.path.join(LEAN, "GffProofs", "Gen", "BinsEq.lean")


def check(timeout=900):
    import gffutils.bins
    path = gffutils.bins.__file__
    src = open(path, encoding="utf-8").read()
    out = {"source": path, "source_sha1": hashlib.sha1(src.encode("utf-8")).hexdigest(),
           "theorem": "GffProofs.Gen.bins_eq_model : GffGen.bins = GffModel.Bins.bins (all integers, both conventions, both modes)"}
    try:
        text = py2lean.translate(src)
    except py2lean.Unsupported as ex:
        out.update(status="unavailable", reason="bins.py is outside the translator's fragment: %s" % ex)
        return out
    except SyntaxError as ex:
        out.update(status="unavailable", reason="bins.py does not parse: %s" % ex)
        return out
    out["translation_sha1"] = hashlib.sha1(text.encode("utf-8")).hexdigest()
    committed = open(COMMITTED, encoding="utf-8").read() if os.path.exists(COMMITTED) else None
    if text == committed:
        out.update(status="holds", how="translation identical to lean/GffGen/Bins.lean; equality proof checked by lake build")
        return out
    # the source changed: re-check translation + proof in a scratch directory (the lake workspace is left alone)
    scratch = tempfile.mkdtemp(prefix="gentie-", dir="/var/tmp")
    try:
        os.makedirs(os.path.join(scratch, "GffGen"))
        gen = os.path.join(scratch, "GffGen", "Bins.lean")
        with open(gen, "w", encoding="utf-8") as fh:
            fh.write(text)
        proof = os.path.join(scratch, "BinsEqRegenerated.lean")          # not under GffProofs/: that package is the built one
        shutil.copy(PROOF, proof)
        p = subprocess.run(["lake", "env", "printenv", "LEAN_PATH"], cwd=LEAN, stdout=subprocess.PIPE, text=True, timeout=120)
        env = dict(os.environ, LEAN_PATH=scratch + ":" + p.stdout.strip())
        log = ""
        for src_, olean in ((gen, os.path.join(scratch, "GffGen", "Bins.olean")),
                            (proof, None)):
            cmd = ["lean", src_] + (["-o", olean] if olean else [])
            q = subprocess.run(cmd, cwd=scratch, env=env, stdout=subprocess.PIPE, stderr=subprocess.STDOUT, text=True,
                               timeout=timeout)
            log += q.stdout
            if q.returncode != 0:
                out.update(status="broken", how="regenerated translation differs from lean/GffGen/Bins.lean",
                           reason="%s does not check against the regenerated translation"
                                  % ("the translation itself" if olean else "GffProofs/Gen/BinsEq.lean (bins_eq_model)"),
                           lean_output=log[-1500:], translation=text)
                return out
        out.update(status="holds", how="regenerated translation differs from lean/GffGen/Bins.lean (the source changed); "
                                       "translation and equality proof re-checked in a scratch directory")
        return out
    except subprocess.TimeoutExpired:
        out.update(status="unavailable", reason="re-checking the regenerated translation timed out")
        return out
    finally:
        shutil.rmtree(scratch, ignore_errors=True)


if __name__ == "__main__":
    import json
    print(json.dumps({k: v for k, v in check().items() if k != "translation"}, indent=1))
