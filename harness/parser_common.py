"""Shared pieces of the C07 / C08 / C09 / C01 checks."""
import glob
import os
import subprocess
import sys

import common
import gen_spec
import pyside
from common import dec, enc


def data_file_lines(limit_per_file=4000):
    """feature lines of the annotation files shipped with the repository (a fixed corpus)"""
    d = os.path.join(common.repo_dir(), "gffutils", "test", "data")
    out = []
    for fn in sorted(glob.glob(os.path.join(d, "*"))):
        if not fn.endswith((".gff", ".gff3", ".gtf", ".txt", ".gff2")):
            continue
        try:
            with open(fn, encoding="utf-8") as fh:
                n = 0
                for l in fh:
                    l = l.rstrip("\n\r")
                    if l and not l.startswith("#") and "\t" in l:
                        if l == "##FASTA" or l.startswith(">"):
                            break
                        out.append(l)
                        n += 1
                        if n >= limit_per_file:
                            break
        except (UnicodeDecodeError, OSError):
            continue
    return out


def parser_constants(ctx, res):
    """constants of parser.py / constants.py and the \\w table, against the model's"""
    from gffutils import parser, constants
    live_q = sorted(set(ord(c) for c in parser._to_quote))
    live = "consts to_quote=[%s] dialect=%s" % (", ".join(map(str, live_q)), pyside.enc_dialect(constants.dialect))
    m = ctx.model(["consts-parser"])
    info = {"live": live}
    if m is not None:
        info["model"] = m[0]
        info["equal"] = m[0] == live
        res.corr_checked += 1
        if m[0] != live:
            res.corr_disagreements.append(("constants of parser.py/constants.py", "consts-parser", m[0], live))
    p = subprocess.run([sys.executable, os.path.join(common.VERIF, "tools", "gen_wordtable.py"), "--check"])
    info["word_table_matches_live_re"] = p.returncode == 0
    res.corr_checked += 1
    if p.returncode != 0:
        res.corr_disagreements.append(("\\w table (GffModel/WordTable.lean vs live re)", "gen_wordtable --check",
                                       "committed table", "differs"))
    return info


def run_specs(ctx, specs):
    """ask the model for wf flags, renderings, expected mapping and dialect of each spec"""
    out = ctx.model([s.cmd() for s in specs])
    if out is None:
        return None
    rows = []
    for s, o in zip(specs, out):
        if o == "bad-op":
            rows.append(None)
            continue
        wf, wfs, line, sp, mp, dl = o.split(" ")
        rows.append({"wf": wf == "1", "wfs": wfs == "1", "line": dec(line), "spaces": dec(sp), "mapping": mp,
                     "dialect": dl})
    return rows


def py_wf_render(s):
    """Fallback when the model is unavailable: render in Python (mirrors Grammar.renderLine) — used only to
    keep the oracle running on the real code; no WF judgement is made (every 'valid' mode spec is judged)."""
    from gffutils import parser
    fmt = "gtf" if (s.style == "space" and s.quoted) else "gff3"
    kv = "=" if s.style == "eq" else " "

    def encv(v):
        return "".join(parser.quoter[c] for c in v) if fmt == "gff3" else v

    def wrap(t):
        return '"' + t + '"' if s.quoted else t
    parts = []
    for k, vals in s.attrs:
        if not vals:
            parts.append(k + kv + '""' if fmt == "gtf" else k)
        elif s.repeated and len(vals) > 1:
            parts.extend(k + kv + wrap(encv(v)) for v in vals)
        else:
            parts.append(k + kv + wrap(",".join(encv(v) for v in vals)))
    body = s.sep.join(parts)
    if s.trailing and parts:
        body += ";"
    return "\t".join(list(s.cols) + [body] + list(s.extra))
