"""The transform zoo shared with the Lean driver (GffModel/Proto.lean: transformOf)."""


def t_id(f):
    return f


def t_dropexon(f):
    if f.featuretype == "exon":
        return None
    return f


def t_mut(f):
    f.source = "tr"
    f.attributes["tr"] = ["1"]
    return f


def t_dropmut(f):
    if f.featuretype == "exon":
        return False
    return t_mut(f)


def t_dropall(f):
    return None


ZOO = {"none": None, "id": t_id, "dropexon": t_dropexon, "mut": t_mut, "dropmut": t_dropmut, "dropall": t_dropall}


class Counting:
    """wraps a transform and counts the calls per feature line (exactly-once check)"""

    def __init__(self, fn):
        self.fn = fn
        self.calls = []

    def __call__(self, f):
        self.calls.append(str(f))
        return self.fn(f)
