#!/venv/bin/python
"""SQL text layer (lean/GffModel/Sql.lean, ProtoSql.lean) against the real code.

run_sqltext(ctx, res) adds to `res`:
  (a) helpers.make_query on generated argument combinations: query text and argument list, byte for byte,
      against the model's `makeQuery` (driver command `sqltext mq`); CPython's set order against `pySetOrder`.
  (b) the statements the real FeatureDB methods EXECUTE (db.conn is wrapped by a recording proxy) for
      children / parents / region / all_features / features_of_type / count_features_of_type / featuretypes /
      seqids on small random databases, against the model's caller-level builders (`sqltext rel|region|…`) and
      against the rendering of the model's AST (`sqlast …`).
  (c) the model's `eval` of that statement on the same tables (`sqleval`) against what the real sqlite
      returned: as a multiset without ORDER BY, in order up to ties with ORDER BY (sqlite's order among ties
      depends on the index it scans; the model sorts stably).

Standalone:  /venv/bin/python harness/sqltext.py [--thorough] [--seed N]
"""
import os
import sys

sys.path.insert(0, os.path.dirname(os.path.abspath(__file__)))
import common  # noqa: E402
import dbside  # noqa: E402
from common import enc, dec  # noqa: E402
from pyside import enc_list, enc_bool, enc_optint, err_name  # noqa: E402

MAXC = 2 ** 29
REL_OTHER = """
        JOIN relations
        ON relations.{join_on} = features.id
        WHERE relations.{join_to} = ?
        """
VALID_KEYS = ["seqid", "source", "featuretype", "start", "end", "score", "strand", "frame", "attributes", "extra",
              "file_order", "length"]
EVAL_STR_KEYS = VALID_KEYS + ["id", "bin"]          # bare strings the model's AST knows as ORDER BY keys


# ---------------------------------------------------------------------------------------------- wire forms
def enc_arg(v):
    if isinstance(v, bool) or not isinstance(v, (int, str)):
        raise TypeError("unmodelled parameter type %r" % (v,))
    return ("i%d" % v) if isinstance(v, int) else ("t" + enc(v))


def enc_args(l):
    l = list(l)
    return "_" if not l else ",".join(enc_arg(x) for x in l)


def enc_optstr(s):
    return "~" if s is None else enc(s)


def enc_limit(l):
    if l is None:
        return "~"
    if isinstance(l, str):
        return "s" + enc(l)
    return "t" + enc_args(l)


def enc_ft(ft):
    if ft is None:
        return "~"
    if isinstance(ft, str):
        return "s" + enc(ft)
    return "c" + enc_list(ft)


def enc_ob(ob):
    if ob is None:
        return "~"
    if isinstance(ob, str):
        return "s" + enc(ob)
    return "t" + enc_list(ob)


def reply(text, args):
    return "ok %s %s" % (enc(text), enc_args(args))


def norm_sql(text):
    """SQL text up to layout: runs of white space (blanks, line breaks, indentation) count as one blank, none at the ends,
    none next to parentheses and commas.  A statement re-indented or re-wrapped in the Python source is the same
    statement."""
    import re
    t = re.sub(r"\s+", " ", text).strip()
    t = re.sub(r"\(\s+", "(", t)
    t = re.sub(r"\s+\)", ")", t)
    t = re.sub(r"\s*,\s*", ",", t)
    return t


def norm_reply(r):
    """a reply `ok <encoded statement> <args> ...` with the statement text normalised by norm_sql"""
    w = r.split(" ")
    if w[0] != "ok" or len(w) < 3:
        return r
    try:
        return " ".join(["ok", enc(norm_sql(dec(w[1])))] + w[2:])
    except Exception:
        return r


def show_reply(r):
    """decode a reply for the disagreement report"""
    w = r.split(" ")
    if w[0] != "ok" or len(w) < 3:
        return r
    try:
        return "ok %r %s %s" % (dec(w[1]), w[2], " ".join(w[3:]))
    except Exception:
        return r


# ---------------------------------------------------------------------------------------------- (a) make_query
def rand_text(r):
    pieces = ["?", "where", "WHERE", "Where", "wHeRe", "whe re", " ", "JOIN x", "a = ?", "\n", "é", "AND", "SELECT", "ß",
              "relations.level = ?", "x"]
    return "".join(r.choice(pieces) for _ in range(r.randrange(0, 5)))


def coord(r):
    return r.choice([0, 1, 2, 10, 100, 2 ** 17 - 1, 2 ** 17, 2 ** 17 + 1, 2 ** 20, 2 ** 26, MAXC - 2, MAXC - 1, MAXC, MAXC + 1,
                     2 ** 31, 2 ** 40, -1, -5, r.randrange(1, 5000), r.randrange(1, MAXC), r.randrange(1, 2 ** 22)])


def coord_form(r, v):
    k = r.random()
    if k < 0.55:
        return v
    if k < 0.8:
        return str(v)
    return r.choice([" %d", "%d ", "+%d", "0%d", "%d\n", "\t%d"]) % v if v >= 0 else str(v)


def rand_limit(r):
    k = r.random()
    if k < 0.25:
        return None
    if k < 0.3:
        return r.choice(["", (), []])
    s = coord(r)
    e = s + r.choice([0, 0, 1, 10, 1000, 2 ** 17, 2 ** 20, 2 ** 24, 2 ** 27, r.randrange(0, 2 ** 28), -3])
    if k < 0.62:
        t = (r.choice(["chr1", "chr2", "", "1", "é"]), coord_form(r, s), coord_form(r, e))
        return list(t) if r.random() < 0.2 else t
    if k < 0.72 and s >= 0 and e >= 0:
        return "%s:%d-%d" % (r.choice(["chr1", "chr2", "2L"]), s, e)
    if k < 0.78:
        return r.choice([("chr1", "1_0", "2_0"), ("chr1", "1_000", 5000), ("chr1", 1, "2_0_0")])
    if k < 0.9:
        # malformed
        return r.choice(["chr1", "chr1:5", "chr1:5-6-7", "a:b:1-2", "chr1:x-y", "chr1:-5-10", ":1-2", "chr1:1-", ("chr1", 1),
                         ("chr1", 1, 2, 3), ("chr1", "x", 2), ("chr1", "", 2), ("chr1", "1.5", 2), ("chr1", "1e3", 2000),
                         ("chr1",), "chr1: 5 - 60", "chr1:5- 60\n", ("chr1", "0x10", 20), ("chr1", "1__0", 20),
                         ("chr1", "_10", 20), ("chr1", "10_", 20), ("chr1", "- 5", 20), ("chr1", "+-5", 20)])
    return (r.choice(["chr1", "chr2"]), s, e)


def rand_ft(r):
    return r.choice([None, None, "", "exon", "gene", "é", [], (), ["exon"], ("exon",), ["exon", "CDS"], ("gene", "Gene", "x"),
                     ["a", "b", "c", "d", "e"], ["", "x"]])


def rand_ob(r):
    k = r.random()
    if k < 0.25:
        return None
    if k < 0.3:
        return r.choice(["", (), []])
    if k < 0.5:
        return r.choice(VALID_KEYS)
    if k < 0.6:
        return r.choice(["id", "bin", "start DESC, end", "(end - start)", "Length", "LENGTH", "?", "x?y", "nosuch", "SELECT",
                         " start", "start,end"])
    n = r.choice([1, 1, 2, 2, 3])
    keys = [r.choice(VALID_KEYS) for _ in range(n)]
    if k < 0.7:
        keys[r.randrange(n)] = r.choice(["id", "bin", "", "Start", "(end - start)", "nosuch", "file order"])
    return tuple(keys) if r.random() < 0.7 else keys


def rand_other_extra(r):
    k = r.random()
    if k < 0.35:
        return None, None
    if k < 0.6:
        jo, jt = r.choice([("child", "parent"), ("parent", "child")])
        return REL_OTHER.format(join_on=jo, join_to=jt), r.choice(["", "relations.level = ?", None])
    return r.choice([None, "", rand_text(r)]), r.choice([None, "", rand_text(r)])


def py_make_query(kw):
    from gffutils import helpers
    kw = dict(kw)
    kw["args"] = list(kw["args"])          # make_query appends to the list it is given
    try:
        q, a = helpers.make_query(**kw)
    except Exception as ex:
        return "err " + err_name(ex)
    try:
        return reply(q, a)
    except TypeError as ex:
        return "unmodelled " + str(ex)


def cmd_mq(kw):
    return "sqltext mq %s %s %s %s %s %s %s %s %s" % (
        enc_args(kw["args"]), enc_optstr(kw["other"]), enc_limit(kw["limit"]), enc_optstr(kw["strand"]),
        enc_ft(kw["featuretype"]), enc_optstr(kw["extra"]), enc_ob(kw["order_by"]), enc_bool(kw["reverse"]),
        enc_bool(kw["completely_within"]))


def gen_make_query(r, n):
    out = []
    # deterministic sweep of the small axes first
    base = dict(args=[], other=None, extra=None, limit=None, strand=None, featuretype=None, order_by=None, reverse=False,
                completely_within=False)
    for ft in [None, "", "exon", [], ["exon"], ("a", "b", "c")]:
        for strand in [None, "", "+"]:
            for lim in [None, ("chr1", 1, 100), "chr1:1-100", ("chr1", MAXC, MAXC + 5)]:
                for ob in [None, "start", "length", ("seqid", "length"), ("bad",)]:
                    for cw in [False, True]:
                        out.append(dict(base, featuretype=ft, strand=strand, limit=lim, order_by=ob, completely_within=cw,
                                        reverse=(len(out) % 3 == 0)))
    for key in VALID_KEYS + ["id", "nosuch"]:
        out.append(dict(base, order_by=key))
        out.append(dict(base, order_by=(key,), reverse=True))
    for _ in range(n):
        other, extra = rand_other_extra(r)
        need = ((extra or "") + (other or "")).count("?")
        k = r.random()
        nargs = need if k < 0.8 else r.choice([0, 1, 2, 3, need + 1, max(0, need - 1)])
        args = [r.choice(["a", "id1", 1, 2, 0, "é", ""]) for _ in range(nargs)]
        out.append(dict(args=args, other=other, extra=extra, limit=rand_limit(r), strand=r.choice([None, None, "", "+", "-", "."]),
                        featuretype=rand_ft(r), order_by=rand_ob(r), reverse=r.random() < 0.4,
                        completely_within=r.random() < 0.4))
    return out


def run_make_query(ctx, res, r):
    cases = gen_make_query(r, 40000 if ctx.thorough else 6000)
    cmds, exp, inp = [], [], []
    for kw in cases:
        e = py_make_query(kw)
        if e.startswith("unmodelled"):
            continue
        cmds.append(cmd_mq(kw)); exp.append(e); inp.append(kw)
        res.count("mq_" + ("ok" if e.startswith("ok") else "err"))
        if e.startswith("ok") and len(res.samples) < 2 and kw["limit"] and kw["featuretype"]:
            res.sample({"make_query": {k: repr(v)[:80] for k, v in kw.items()}, "text": dec(e.split(" ")[1])[95:]})
    # set iteration order
    from gffutils import bins as B
    set_cmds, set_exp = [], []
    for _ in range(1500 if ctx.thorough else 200):
        a = r.choice([1, r.randrange(1, MAXC), r.randrange(1, 2 ** 20), 2 ** 17 * r.randrange(1, 4000) + r.choice([-1, 0, 1, 2])])
        b = a + r.choice([0, 1, r.randrange(0, 2 ** 17), r.randrange(0, 2 ** 22), r.randrange(0, 2 ** 25)])
        if not (0 < a < MAXC and 0 <= b < MAXC):
            continue
        seq = [1]
        s, e = (a - 1) >> 17, b >> 17
        for off in B.OFFSETS:
            seq += list(range(off + s, off + e + 1))
            s >>= 3; e >>= 3
        if len(seq) > 1500:
            continue
        py = set([1])
        py.update(seq[1:])
        if list(py) != list(B.bins(a, b, one=False)):
            res.corr_disagreements.append(("harness: insertion sequence of bins.bins", repr((a, b)), "-", "-"))
        set_cmds.append("sqlset " + ",".join(map(str, seq))); set_exp.append("ok " + ",".join(map(str, py)))
    for _ in range(1500 if ctx.thorough else 200):
        seq = [r.randrange(0, r.choice([10, 100, 5000, 10 ** 6])) for _ in range(r.randrange(1, 60))]
        py = set()
        for k in seq:
            py.add(k)
        set_cmds.append("sqlset " + ",".join(map(str, seq))); set_exp.append("ok " + ",".join(map(str, py)))
    out = ctx.model(cmds + set_cmds)
    if out is None:
        return
    for c, m, e, kw in zip(cmds, out[:len(cmds)], exp, inp):
        res.corr_checked += 1
        if norm_reply(m) != norm_reply(e):
            res.corr_disagreements.append(("make_query text+args", repr(kw)[:900], show_reply(m)[:700], show_reply(e)[:700]))
    for c, m, e in zip(set_cmds, out[len(cmds):], set_exp):
        res.corr_checked += 1
        res.count("set_order")
        if m != e:
            res.corr_disagreements.append(("CPython set iteration order", c[:300], m[:300], e[:300]))


# ---------------------------------------------------------------------------------------------- (b), (c)
class _Cursor:
    def __init__(self, cur, log):
        self._cur, self._log = cur, log

    def execute(self, sql, args=()):
        self._log.append((sql, tuple(args)))
        return self._cur.execute(sql, args)

    def __iter__(self):
        return iter(self._cur)

    def __getattr__(self, name):
        return getattr(self._cur, name)


class RecordingConn:
    """stands in for FeatureDB.conn: records (sql, args) of every cursor().execute"""

    def __init__(self, conn):
        self._conn, self.log = conn, []

    def cursor(self):
        return _Cursor(self._conn.cursor(), self.log)

    def __getattr__(self, name):
        return getattr(self._conn, name)


COORDS = [1, 1, 5, 10, 10, 100, 131071, 131072, 131073, 2 ** 20, 2 ** 20 + 7, MAXC - 1, MAXC, MAXC + 5]


def rand_db_lines(r, n):
    lines, ids = [], []
    for i in range(n):
        s = r.choice(COORDS)
        e = s + r.choice([0, 0, 5, 10, 99, 131072, 2 ** 20])
        start, end = str(s), str(e)
        if r.random() < 0.08:
            start = "."
        if r.random() < 0.08:
            end = "."
        attrs = "ID=f%d" % i
        if ids and r.random() < 0.7:
            ps = r.sample(ids, min(len(ids), r.choice([1, 1, 2])))
            attrs += ";Parent=" + ",".join(ps)
        if r.random() < 0.3:
            attrs += ";Note=" + r.choice(["a", "B", "é"])
        extra = [] if r.random() < 0.8 else [r.choice(["x", "10"])]
        lines.append("\t".join([r.choice(["chr1", "chr1", "chr2", "Chr1", "1"]), r.choice(["a", "B", "10"]),
                                r.choice(["gene", "exon", "CDS", "mRNA"]), start, end, r.choice([".", "10", "9", "0.5"]),
                                r.choice(["+", "-", "."]), r.choice([".", "0", "1"]), attrs] + extra))
        ids.append("f%d" % i)
    return lines


def sqlkey(v):
    if v is None:
        return (0, 0)
    if isinstance(v, int):
        return (1, v)
    return (2, v)


def keyfun(row, col):
    from gffutils import helpers
    if col == "length":
        return sqlkey(None if row["start"] is None or row["end"] is None else row["end"] - row["start"])
    if col == "file_order":
        return sqlkey(row["rowid"])
    if col in ("attributes", "extra"):
        return sqlkey(helpers._jsonify(row[col]))
    return sqlkey(row[col])


def order_cols(ob):
    if not ob:
        return []
    return [ob] if isinstance(ob, str) else list(ob)


def db_limit(r):
    k = r.random()
    if k < 0.45:
        return None
    s = r.choice(COORDS + [0, 2, 50, 131000])
    e = s + r.choice([0, 1, 10, 100, 131072, 2 ** 20, 2 ** 23, -2])
    sq = r.choice(["chr1", "chr1", "chr2", "1", "nochr"])
    if k < 0.7:
        return (sq, s, e)
    if k < 0.8:
        return (sq, str(s), str(e))
    if k < 0.88:
        return "%s:%d-%d" % (sq, s, e)
    if k < 0.93:
        return (sq, r.choice([" %d", "+%d", "0%d"]) % s, e)
    if k < 0.97:
        return r.choice([("chr1", "1_0", "2_00"), ("chr1", 1, "1_000_000"), ("chr1", "1_0", 500)])
    return r.choice(["chr1:5", ("chr1", 1), ("chr1", "x", 5)])


def db_ft(r):
    return r.choice([None, None, "exon", "gene", "", [], ["exon", "CDS"], ("gene",), ["absent"], ("mRNA", "gene", "exon")])


def db_ob(r):
    k = r.random()
    if k < 0.35:
        return None
    if k < 0.6:
        return r.choice(EVAL_STR_KEYS)
    if k < 0.65:
        return r.choice(["nosuch", ("nosuch",), ("start", "id")])
    n = r.choice([1, 2, 2, 3])
    keys = tuple(r.choice(VALID_KEYS) for _ in range(n))
    return keys if r.random() < 0.8 else list(keys)


def run_db(ctx, res, r):
    nsets = 500 if ctx.thorough else 60
    nq = 80 if ctx.thorough else 50
    cmds, exp, tags = [], [], []

    def add(cmd, expected, comp, inp, kind="exact", extra=None):
        cmds.append(cmd); exp.append((kind, expected, extra)); tags.append((comp, inp))

    for si in range(nsets):
        lines = rand_db_lines(r, r.randrange(3, 22))
        path = dbside.write_lines(os.path.join(ctx.scratch, "sqltext.gff3"), lines)
        db, rep = dbside.py_create(path, dbside.Cfg())
        if db is None:
            res.count("create_failed")
            continue
        rows = dbside.rows_of(db)
        byid = {x["id"]: x for x in rows}
        rels = dbside.rels_of(db)
        tables = "%s %s" % ("/".join(dbside.enc_row(x) for x in rows) if rows else "_", dbside.enc_rels(rels))
        conn = RecordingConn(db.conn)
        db.conn = conn

        def call(fn):
            """run a FeatureDB method; returns (executed (sql, args) | None, ids | None, error | None)"""
            del conn.log[:]
            try:
                got = fn()
                err = None
            except Exception as ex:
                got, err = None, err_name(ex)
            ex_ = conn.log[-1] if conn.log else None
            return ex_, got, err

        def check(kind_words, executed, got, err, inp, cols, result="ids"):
            """kind_words: the statement description shared by sqltext / sqlast / sqleval"""
            res.evaluations += 1
            text_words = kind_words
            if kind_words.startswith("feat "):
                # text level: all_features / features_of_type call make_query(args=[], other=None, extra=None, ...)
                lim_w, strand_w, ft_w, ob_w, rev_w, cw_w = kind_words.split(" ")[1:]
                text_words = "mq _ ~ %s %s %s ~ %s %s %s" % (lim_w, strand_w, ft_w, ob_w, rev_w, cw_w)
            if executed is None:
                # the call raised before executing anything (make_query's ValueError)
                if text_words:
                    add("sqltext " + text_words, "err " + err, "executed statement", inp)
                add("sqlast " + kind_words, "err " + err, "AST rendering", inp)
                add("sqleval %s %s" % (tables, kind_words), "err " + err, "eval", inp)
                res.count("raised_before_execute")
                return
            sql, args = executed
            try:
                want = reply(sql, args)
            except TypeError:
                res.count("unmodelled_parameter")
                return
            if text_words:
                add("sqltext " + text_words, want, "executed statement", inp)
            add("sqlast " + kind_words, want, "AST rendering", inp)
            if cols and not all(c in EVAL_STR_KEYS for c in cols):
                # an unvalidated bare-string ORDER BY text: `eval` does not interpret it (OrderTerm.raw)
                res.count("eval_skipped_raw_order_by")
                return
            if err is not None:
                add("sqleval %s %s" % (tables, kind_words), "err " + err, "eval", inp)
                res.count("sqlite_raised_" + err)
                return
            add("sqleval %s %s" % (tables, kind_words), want, "eval", inp, kind=result, extra=(got, cols, byid))
            if result == "ids" and len(got) >= 2:
                res.nontriv((si, kind_words))

        # counts and distinct lists
        for ft in [None, "gene", "exon", "absent", ""]:
            ex_, got, err = call(lambda: db.count_features_of_type(ft))
            check("count " + enc_optstr(ft), ex_, got, err, repr((lines, "count", ft)), [], result="count")
        ex_, got, err = call(lambda: list(db.featuretypes()))
        check("ftypes", ex_, got, err, repr((lines, "featuretypes")), [], result="values")
        ex_, got, err = call(lambda: list(db.seqids()))
        check("seqids", ex_, got, err, repr((lines, "seqids")), [], result="values")

        ids = [x["id"] for x in rows]
        for qi in range(nq):
            which = r.choice(["all", "oftype", "children", "parents", "children", "region", "region"])
            if which in ("all", "oftype"):
                ft = db_ft(r)
                if which == "oftype" and ft is None:
                    ft = "exon"
                lim, strand, ob = db_limit(r), r.choice([None, None, "+", "-", ".", ""]), db_ob(r)
                rev, cw = r.random() < 0.4, r.random() < 0.4
                inp = {"lines": lines, "method": which, "featuretype": ft, "limit": lim, "strand": strand, "order_by": ob,
                       "reverse": rev, "completely_within": cw}
                if which == "all":
                    fn = lambda: [f.id for f in db.all_features(limit=lim, strand=strand, featuretype=ft, order_by=ob,
                                                                reverse=rev, completely_within=cw)]
                else:
                    fn = lambda: [f.id for f in db.features_of_type(ft, limit=lim, strand=strand, order_by=ob, reverse=rev,
                                                                    completely_within=cw)]
                ex_, got, err = call(fn)
                words = "feat %s %s %s %s %s %s" % (enc_limit(lim), enc_optstr(strand), enc_ft(ft), enc_ob(ob), enc_bool(rev),
                                                   enc_bool(cw))
                check(words, ex_, got, err, repr(inp)[:1500], order_cols(ob))
                res.count("executed_" + which)
            elif which in ("children", "parents"):
                fid = r.choice(ids + ["ghost"])
                level = r.choice([None, None, 1, 2, 0, 3])
                ft, lim, ob = db_ft(r), (db_limit(r) if r.random() < 0.4 else None), db_ob(r)
                rev, cw = r.random() < 0.4, r.random() < 0.4
                inp = {"lines": lines, "method": which, "id": fid, "level": level, "featuretype": ft, "limit": lim,
                       "order_by": ob, "reverse": rev, "completely_within": cw}
                meth = db.children if which == "children" else db.parents
                ex_, got, err = call(lambda: [f.id for f in meth(fid, level=level, featuretype=ft, order_by=ob, reverse=rev,
                                                                 limit=lim, completely_within=cw)])
                words = "rel %s %s %s %s %s %s %s %s" % (which, enc(fid), enc_optint(level), enc_limit(lim), enc_ft(ft),
                                                         enc_ob(ob), enc_bool(rev), enc_bool(cw))
                check(words, ex_, got, err, repr(inp)[:1500], order_cols(ob))
                res.count("executed_" + which)
            else:
                sq = r.choice([None, "chr1", "chr1", "chr2", "", "nochr"])
                s = r.choice([None, None, 0] + COORDS + [2, 50])
                e = None if s is None and r.random() < 0.5 else r.choice([None, 0] + [(s or 1) + d for d in [0, 1, 10, 131072, 2 ** 20, 2 ** 23, -1]])
                strand = r.choice([None, None, "+", "-", ""])
                ft = r.choice([None, None, "exon", ["exon", "CDS"], ("gene",), [], ["absent"]])
                cw = r.random() < 0.5
                inp = {"lines": lines, "method": "region", "seqid": sq, "start": s, "end": e, "strand": strand, "featuretype": ft,
                       "completely_within": cw}
                form = r.random()
                if form < 0.2 and sq is not None and s is not None and e is not None:
                    # the tuple form: normalised by the harness to the same keyword values
                    fn = lambda: [f.id for f in db.region(region=(sq, str(s), e), strand=strand, featuretype=ft,
                                                          completely_within=cw)]
                    inp["form"] = "tuple"
                else:
                    fn = lambda: [f.id for f in db.region(seqid=sq, start=s, end=e, strand=strand, featuretype=ft,
                                                          completely_within=cw)]
                ex_, got, err = call(fn)
                ftl = None if ft is None else ([ft] if isinstance(ft, str) else list(ft))
                words = "region %s %s %s %s %s %s" % (enc_optstr(sq), enc_optint(s), enc_optint(e), enc_optstr(strand),
                                                     "~" if ftl is None else enc_list(ftl), enc_bool(cw))
                check(words, ex_, got, err, repr(inp)[:1500], [])
                res.count("executed_region")
        db.conn = conn._conn

    out = ctx.model(cmds)
    if out is None:
        return
    for c, m, (kind, e, extra), (comp, inp) in zip(cmds, out, exp, tags):
        res.corr_checked += 1
        if kind == "exact":
            if norm_reply(m) != norm_reply(e):
                res.corr_disagreements.append((comp, inp[:1200], show_reply(m)[:700], show_reply(e)[:700]))
            continue
        got, cols, byid = extra
        w = m.split(" ")
        if w[0] != "ok" or len(w) != 4 or norm_reply(" ".join(w[:3])) != norm_reply(e):
            res.corr_disagreements.append((comp + " (evaluated statement)", inp[:1200], show_reply(m)[:700], show_reply(e)[:700]))
            continue
        if kind == "count":
            if w[3] != str(got):
                res.corr_disagreements.append((comp + " count", inp[:1200], w[3], str(got)))
            continue
        if kind == "values":
            mv = sorted(dec(x[1:]) for x in w[3].split(",") if x != "_")
            if mv != sorted(got) or len(set(mv)) != len(mv):
                res.corr_disagreements.append((comp + " distinct values", inp[:1200], repr(mv), repr(sorted(got))))
            continue
        mids = [dec(x) for x in w[3].split(",") if x != "_"]
        if sorted(mids) != sorted(got):
            res.corr_disagreements.append((comp + " rows", inp[:1200], repr(mids), repr(got)))
            continue
        if cols and all(c in EVAL_STR_KEYS for c in cols):
            km = [tuple(keyfun(byid[i], c) for c in cols) for i in mids]
            kr = [tuple(keyfun(byid[i], c) for c in cols) for i in got]
            if km != kr:
                res.corr_disagreements.append((comp + " order", inp[:1200], repr(mids), repr(got)))
            elif mids != got:
                res.count("order_differs_within_ties_only")
            else:
                res.count("order_identical")


def run_sqltext(ctx, res):
    r = ctx.rng("sqltext")
    run_make_query(ctx, res, r)
    run_db(ctx, res, r)
    res.assumptions = list(res.assumptions) + [
        "SQL text layer: parameters are Python int / str; featuretype / order_by collections are lists or tuples of str",
        "SQL text layer: results under ORDER BY are compared up to the order among ties (sqlite's depends on the index scanned)",
        "SQL text layer: str.lower() is modelled on ASCII; int() on ASCII digits (Str.parseInt?)",
        "SQL text layer: statement texts are compared up to layout (runs of white space, blanks next to parentheses and commas)",
    ]
    return res


# ---------------------------------------------------------------------------------------------- standalone
class _Ctx:
    def __init__(self, thorough, seed, scratch):
        self.thorough, self.seed, self.scratch = thorough, seed, scratch
        self.tier = "thorough" if thorough else "quick"
        self.prop_id = "C11Sql"

    def model(self, lines, timeout=3000):
        if not os.path.exists(common.DRIVER):
            return None
        return common.run_model(lines, timeout=timeout)

    def rng(self, *salt):
        return common.rng(self.seed, self.prop_id, *salt)


def main():
    import argparse
    import shutil
    import tempfile
    import time
    ap = argparse.ArgumentParser()
    ap.add_argument("--thorough", action="store_true")
    ap.add_argument("--seed", type=int, default=0)
    ap.add_argument("--show", type=int, default=5)
    a = ap.parse_args()
    scratch = common.scratch_dir()
    os.environ["TMPDIR"] = scratch
    tempfile.tempdir = scratch
    if not os.environ.get("VERIF_DEBUG"):
        sys.stderr = open(os.devnull, "w")
    t0 = time.time()
    try:
        res = run_sqltext(_Ctx(a.thorough, a.seed, scratch), common.Result("C11Sql"))
    finally:
        shutil.rmtree(scratch, ignore_errors=True)
    print("sqltext tier=%s seed=%d evaluations=%d nontrivial=%d corr=%d disagreements=%d wall=%.1fs"
          % ("thorough" if a.thorough else "quick", a.seed, res.evaluations, len(res.nontrivial), res.corr_checked,
             len(res.corr_disagreements), time.time() - t0))
    print("distribution:", dict(sorted(res.distribution.items())))
    for d in res.corr_disagreements[:a.show]:
        print("DISAGREEMENT component=%s\n  input=%s\n  model=%s\n  impl =%s" % d)
    sys.exit(1 if res.corr_disagreements else 0)


if __name__ == "__main__":
    main()
