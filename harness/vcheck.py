#!/venv/bin/python
"""./check <ID> [--tier quick|thorough] [--replay <path>]   (DESIGN.md §2.4)

exit 0: property held on everything explored (KNOWN-FINDING lines may be printed)
exit 1: `VIOLATION property=<id> replay=<path>[ no-failing-input-found]`
exit 2: infrastructure failure / timeout (no VIOLATION line)
"""
import argparse
import importlib
import json
import os
import shutil
import sys
import tempfile
import time
import traceback

sys.path.insert(0, os.path.dirname(os.path.abspath(__file__)))
import common  # noqa: E402


class Ctx:
    def __init__(self, prop_id, tier, seed, scratch, model_ok):
        self.prop_id = prop_id
        self.tier = tier
        self.seed = seed
        self.scratch = scratch
        self.model_ok = model_ok
        self.thorough = tier == "thorough"

    def model(self, lines, timeout=3000):
        if not self.model_ok:
            return None
        return common.run_model(lines, timeout=timeout)

    def rng(self, *salt):
        return common.rng(self.seed, self.prop_id, *salt)


def anchored_files(prop):
    try:
        for line in open(os.path.join(common.VERIF, "properties.jsonl")):
            rec = json.loads(line)
            if rec["id"] == prop:
                return list(rec["anchors"]["files"])
    except Exception:
        pass
    return []


def main():
    ap = argparse.ArgumentParser()
    ap.add_argument("prop")
    ap.add_argument("--tier", default=os.environ.get("VERIF_TIER") or "quick", choices=["quick", "thorough"])
    ap.add_argument("--replay", default=None)
    a = ap.parse_args()
    prop = a.prop
    try:
        seed = int(os.environ.get("VERIF_SEED", "0") or "0")
    except ValueError:
        seed = 0
    t0 = time.time()
    scratch = common.scratch_dir()
    os.environ["TMPDIR"] = scratch
    tempfile.tempdir = scratch
    os.environ.setdefault("PYTHONHASHSEED", "0")
    if not os.environ.get("VERIF_DEBUG"):
        sys.stderr = open(os.devnull, "w")      # gffutils' progress output
    rc = 2
    try:
        rc = run(prop, a.tier, seed, scratch, a.replay, t0)
    except common.Infra as e:
        print("INFRA: %s" % e)
        rc = 2
    except Exception:
        traceback.print_exc()
        print("INFRA: unexpected exception in the check itself")
        rc = 2
    finally:
        shutil.rmtree(scratch, ignore_errors=True)
    sys.exit(rc)


def run(prop, tier, seed, scratch, replay, t0):
    mod = importlib.import_module("props." + prop)

    # 1. proof obligations -------------------------------------------------------------------
    ok, log, build_s = common.lake_build()
    proof_problems = []
    if not ok:
        proof_problems.append("lake build failed:\n" + log[-3000:])
    model_ok = os.path.exists(common.DRIVER) and ok
    if not ok:
        # a proof may be broken while the model still builds: the correspondence is then still worth running, it is
        # part of the search for a failing input
        import subprocess
        p = subprocess.run(["lake", "build", "gffdriver"], cwd=common.LEAN, stdout=subprocess.PIPE,
                           stderr=subprocess.STDOUT, text=True, timeout=3000)
        model_ok = p.returncode == 0 and os.path.exists(common.DRIVER)
    thms, problems, audit_cmd = ({}, [], "")
    try:
        thms, problems, audit_cmd = common.audit(prop)
    except Exception as e:  # audit file missing etc.
        problems = ["audit could not run: %r" % e]
    proof_problems += problems
    hits = common.forbidden_tokens()
    if hits:
        proof_problems.append("forbidden tokens in Lean sources: " + "; ".join(hits[:10]))
    leanchecker = None
    if tier == "thorough" and ok and getattr(mod, "LEANCHECKER_MODULES", None):
        import subprocess
        p = subprocess.run(["lake", "env", "leanchecker"] + list(mod.LEANCHECKER_MODULES), cwd=common.LEAN,
                           stdout=subprocess.PIPE, stderr=subprocess.STDOUT, text=True, timeout=3000)
        leanchecker = {"modules": list(mod.LEANCHECKER_MODULES), "rc": p.returncode, "tail": p.stdout[-300:]}
        if p.returncode != 0:
            proof_problems.append("leanchecker rejected: " + p.stdout[-1000:])

    # 1b. the translation tie (C12, C06): bins() as translated from the source imported now is the model -----------
    tie = None
    if getattr(mod, "TRANSLATION_TIE", False) and ok and not replay:
        import gentie
        tie = gentie.check(mod.TRANSLATION_TIE)
        if tie["status"] == "broken":
            proof_problems.append("translation tie broken: %s\n%s" % (tie["reason"], (tie.get("lean_output") or "")[-1500:]))

    # 2+3. correspondence and oracle ------------------------------------------------------------
    ctx = Ctx(prop, tier, seed, scratch, model_ok)
    anchors = anchored_files(prop)
    cov = None
    if not replay and not os.environ.get("VERIF_NO_COVERAGE"):
        try:
            import coverage
            cov = coverage.Coverage(data_file=None, include=[os.path.join(common.repo_dir(), "gffutils", "*.py")])
            cov.start()
        except Exception:
            cov = None
    try:
        if replay:
            payload = json.load(open(replay))
            res = mod.replay(ctx, payload)
            if not res.oracle_failures and not res.corr_disagreements and res.evaluations == 0 \
                    and payload.get("kind") == "property fails on the real code":
                # the recorded failure is not a single replayable case (a directed whole-file scenario, a large input): the
                # generators are functions of the seed, so the run that found it is repeated as a whole and its failures
                # are compared with the recorded one
                rs, rt = payload.get("seed", seed), payload.get("tier", tier)
                print("replay: no single replayable case in this file - repeating the %s run of seed %s" % (rt, rs))
                ctx = Ctx(prop, rt, rs, scratch, model_ok)
                res = mod.run(ctx)
                same = [w for w, _ in res.oracle_failures if w == payload.get("what")]
                print("replay: recorded failure %s: %s" % ("REPRODUCED" if same else "not reproduced", payload.get("what")))
                if not same:
                    res.oracle_failures = [x for x in res.oracle_failures if False]
                    res.corr_disagreements = []
        else:
            res = mod.run(ctx)
    except common.Infra:
        raise
    except Exception:
        # the harness could not digest what the code under test did (an unexpected type, an exception where none was
        # foreseen): the property is then not shown to hold on this tree.  Reported as a broken correspondence, with the
        # traceback as the thing to look at - not as an infrastructure failure, which would hide a change of behaviour.
        tb = traceback.format_exc()
        res = common.Result(prop)
        res.rule = "the check stopped with an exception while exercising the code under test"
        res.corr_disagreements.append(("harness exception while exercising the code under test", tb[-3000:], "", ""))
    finally:
        if cov is not None:
            cov.stop()
    modelled = {"baseline": None, "count": 0, "changed": []}
    try:
        sys.path.insert(0, os.path.join(common.VERIF, "tools"))
        import modelmap
        rows = modelmap.compare(common.repo_dir(), set(anchors))
        modelled = {"baseline": json.load(open(modelmap.BASELINE)).get("validated_against"),
                    "count": len(rows),
                    "changed": [{"function": r["file"] + ":" + r["function"], "lean": r["lean"]} for r in rows if r["changed"]],
                    "note": "modelled functions in the anchored files whose statements differ from the tree the model was "
                            "last validated against; this run's correspondence is what re-validates them"}
    except Exception as ex:
        modelled["note"] = "model map unavailable: %r" % ex
    if cov is not None and os.environ.get("VERIF_COV_DUMP"):
        import glob
        os.makedirs(os.environ["VERIF_COV_DUMP"], exist_ok=True)
        dump = {}
        for path in glob.glob(os.path.join(common.repo_dir(), "gffutils", "*.py")):
            try:
                _, stmts, _, missing, _ = cov.analysis2(path)
                dump[os.path.basename(path)] = {"statements": stmts, "missing": missing}
            except Exception:
                pass
        json.dump(dump, open(os.path.join(os.environ["VERIF_COV_DUMP"], prop + ".json"), "w"))
    anchored = {}
    for rel in anchors:
        path = os.path.join(common.repo_dir(), rel)
        info = {}
        try:
            import hashlib
            info["sha1"] = hashlib.sha1(open(path, "rb").read()).hexdigest()
        except OSError:
            info["sha1"] = None
        if cov is not None:
            try:
                _, stmts, _, missing, _ = cov.analysis2(path)
                info["statements"] = len(stmts)
                info["executed"] = len(stmts) - len(missing)
            except Exception:
                pass
        anchored[rel] = info

    # 4. verdict -------------------------------------------------------------------------------
    findings = common.load_findings(prop)
    for k in findings:
        if k["key"] in res.known_hits:
            print("KNOWN-FINDING: property=%s %s" % (prop, k["what"]))
    rc = 0
    vio_line = None
    if res.oracle_failures:
        what, payload = res.oracle_failures[0]
        path = common.write_replay(prop, "oracle", {
            "property": prop, "kind": "property fails on the real code", "what": what, "input": payload,
            "seed": seed, "tier": tier,
            "n_failures": len(res.oracle_failures),
            "other_failures": [w for w, _ in res.oracle_failures[1:6]]})
        vio_line = "VIOLATION property=%s replay=%s" % (prop, path)
        rc = 1
    elif proof_problems or res.corr_disagreements:
        payload = {"property": prop,
                   "kind": "property no longer shown to hold; the search on the real code found no failing input",
                   "proof_obligations_broken": proof_problems,
                   "correspondence_broken": [
                       {"component": c, "input": i, "model": m, "impl": r}
                       for c, i, m, r in res.corr_disagreements[:10]],
                   "n_disagreements": len(res.corr_disagreements),
                   "oracle_evaluations_without_failure": res.evaluations}
        path = common.write_replay(prop, "unproved", payload)
        vio_line = "VIOLATION property=%s replay=%s no-failing-input-found" % (prop, path)
        rc = 1

    # evidence ---------------------------------------------------------------------------------
    n_obl = len(thms) + 2
    n_dis = sum(1 for n, ax in thms.items() if all(x in common.ALLOWED_AXIOMS for x in ax)) \
        + (1 if ok else 0) + (0 if hits else 1)
    if any("no axiom report" in p for p in proof_problems):
        n_obl += sum(1 for p in proof_problems if "no axiom report" in p)
    ev = {
        "property_id": prop, "tier": tier, "seed": seed, "level": "proof",
        "coverage": {
            "obligations": n_obl, "discharged": n_dis,
            "checker_cmd": "cd lean && lake build && lake env lean GffProofs/Audit/%s.lean" % prop,
            "trusted_base": [
                "Lean 4.33.0 kernel" + ("; re-checked by leanchecker" if leanchecker and leanchecker["rc"] == 0 else ""),
                "axioms accepted: propext, Classical.choice, Quot.sound (no native_decide, no bv_decide, no sorry)",
                "hand-written model lean/GffModel tied to /repo by the correspondence run below (differential, sampled)",
                "Python harness: generators, codec, canonicalisation, oracle",
            ] + (["translator tools/py2lean.py (gffutils/bins.py -> GffGen.bins: Python int = Lean Int, a set of ints = List Int "
                  "observed through membership; gffutils/merge_criteria.py -> data of GffModel.CritExpr, whose interpreter "
                  "evalB carries Python's semantics of None, chained <=, and/or)"] if tie else []) + list(getattr(mod, "TRUSTED", [])),
            "theorems": {n: ax for n, ax in sorted(thms.items())},
            "obligation_kinds": "one per audited theorem + clean `lake build` + no forbidden token",
            "proof_problems": proof_problems,
            "leanchecker": leanchecker,
            "evaluations": res.evaluations,
            "distinct_nontrivial": len(res.nontrivial),
            "rule": res.rule,
            "samples": res.samples,
            "correspondence": {"compared": res.corr_checked, "disagreements": len(res.corr_disagreements)},
            "distribution": res.distribution,
            "constants_checked": res.constants_checked,
            "known_findings_reproduced": sorted(res.known_hits),
            "repo": common.repo_state(),
            "anchored_source": anchored,
            "modelled_functions": modelled,
            "anchored_source_note": "sha1 of each file the property anchors, as imported by this run, and how many of its "
                                    "statements the run executed in this process (coverage.py; worker processes not counted)",
            "build_s": round(build_s, 1),
        },
        "assumptions": res.assumptions,
        "wall_s": round(time.time() - t0, 2),
        "violations": (len(res.oracle_failures) or (1 if rc else 0)),
    }
    if tie is not None:
        ev["coverage"]["translation_tie"] = {k: v for k, v in tie.items() if k != "translation"}
    ev["coverage"].update(res.extra)
    os.makedirs(common.EVIDENCE, exist_ok=True)
    with open(os.path.join(common.EVIDENCE, prop + ".json"), "w") as f:
        json.dump(ev, f, indent=1, default=str, ensure_ascii=True)
        f.write("\n")
    print("%s tier=%s seed=%d theorems=%d/%d evaluations=%d nontrivial=%d corr=%d disagreements=%d oracle_failures=%d wall=%.1fs"
          % (prop, tier, seed, n_dis, n_obl, res.evaluations, len(res.nontrivial), res.corr_checked,
             len(res.corr_disagreements), len(res.oracle_failures), time.time() - t0))
    for c in modelled.get("changed", []):
        print("note: %s differs from the tree the model was validated against (model: %s)" % (c["function"], ", ".join(c["lean"])))
    if tie is not None and tie["status"] != "holds":
        print("note: translation tie %s: %s" % (tie["status"], tie.get("reason")))
    if vio_line:
        print(vio_line)
    return rc


if __name__ == "__main__":
    main()
