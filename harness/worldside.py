"""Implementation side of GffModel/ProtoWorld.lean: run the real gffutils on database FILES in a directory (create_db on
free / occupied paths with and without force, FeatureDB.update / delete with make_backup, a feature source that fails at
a given position, add_relation, reopen) and render, after every step, the same canonical text the Lean driver prints
for `World.createDb` / `World.step`: which paths exist and the content of each file (the `.bak` included) as read with
plain sqlite3 (so that a file a failed import left without meta row can be rendered too).

Also the encoders of the `conc` command (replay of a concrete schedule through `Conc.step`)."""
import gc
import os
import sqlite3
import types
import warnings

import dbside
from common import enc
from pyside import enc_list, enc_dialect, enc_bool, err_name

SIDE_FILES = ("-journal", "-wal", "-shm")


class SourceBroke(Exception):
    """what the failing feature source raises (err_name -> 'Exception', the model's `PyErr.other`)"""


def file_words(path):
    """`<rows> <rels> <directives> <meta dialects> <autoincrements> <duplicates>` of the database file at `path`"""
    from gffutils import helpers
    con = sqlite3.connect(path)
    try:
        shim = types.SimpleNamespace(conn=con)
        rows = dbside.rows_of(shim)
        rels = dbside.rels_of(shim)
        dirs = [r[0] for r in con.execute("SELECT directive FROM directives")]
        metas = [helpers._unjsonify(r[0]) for r in con.execute("SELECT dialect FROM meta")]
        pauto = dict(con.execute("SELECT base, n FROM autoincrements").fetchall())
        dups = con.execute("SELECT idspecid, newid FROM duplicates ORDER BY rowid").fetchall()
    finally:
        con.close()
    return "%s %s %s %s %s %s" % ("/".join(dbside.enc_row(r) for r in rows) if rows else "_", dbside.enc_rels(rels),
                                  enc_list(dirs), "/".join(enc_dialect(m) for m in metas) if metas else "_",
                                  dbside.enc_auto(pauto),
                                  "/".join("%s>%s" % (enc(str(a)), enc(str(b))) for a, b in dups) if dups else "_")


def render_world(root, auto):
    """`<n> {<path> file}^n <session counters | ~>` for the database files in directory `root`"""
    items = []
    for fn in os.listdir(root):
        if fn.endswith(SIDE_FILES):
            continue
        items.append("%s %s" % (enc(fn), file_words(os.path.join(root, fn))))
    items.sort()
    return "%d%s %s" % (len(items), "".join(" " + x for x in items), auto)


def parse_world_reply(text):
    """reply of the `world` command -> list of '<outcome> <world>' strings, one per item (None when malformed)"""
    if text is None or not text.startswith("ok"):
        return None
    parts = text.split(" | ")
    return parts[1:]


def world_paths(part):
    """names of the files in one '<outcome> <n> {<path> 6 words}^n <auto>' rendering"""
    ws = part.split(" ")
    n = int(ws[1])
    from common import dec
    return [dec(ws[2 + 7 * i]) for i in range(n)]


class RealWorld:
    """runs the steps on the real code in the (fresh, otherwise empty) directory `root`, recording the protocol
    items for the model and the expected rendering after every step"""

    def __init__(self, root, inputs):
        self.root, self.inputs = root, inputs
        os.makedirs(root, exist_ok=True)
        os.makedirs(inputs, exist_ok=True)
        self.db = None
        self.main = None
        self.items, self.expect, self.outcomes = [], [], []
        self._n = 0

    def _input(self, lines):
        self._n += 1
        return dbside.write_lines(os.path.join(self.inputs, "in%d.txt" % self._n), lines)

    def _auto(self):
        return "~" if self.db is None else dbside.enc_auto(self.db._autoincrements)

    def _snap(self, outcome):
        self.outcomes.append(outcome)
        self.expect.append("%s %s" % (outcome, render_world(self.root, self._auto())))

    def _close(self):
        if self.db is not None:
            try:
                self.db.conn.commit()
                self.db.conn.close()
            except Exception:
                pass
        self.db = None

    # ---- steps ---------------------------------------------------------------------------------
    def create(self, name, lines, cfg, force, checklines=10):
        self._close()
        real = os.path.join(self.root, name)
        db, rep = dbside.py_create(self._input(lines), cfg, dbfn=real, checklines=checklines, force=force)
        if db is not None:
            db.conn.commit()
            db.conn.close()
        del db
        gc.collect()
        outcome = "ok" if rep.startswith("ok") else "err:" + rep.split(" ", 1)[1]
        residue = "_"
        if outcome != "ok" and os.path.exists(real):
            try:
                residue = file_words(real)
            except sqlite3.Error:
                residue = "_"
        self.items.append("create %s %s %d none %s %s %s" % (enc(name), enc_bool(force), checklines, enc_list(lines),
                                                            cfg.words(), residue))
        self._snap(outcome)
        return outcome

    def connect(self, name):
        import gffutils
        self._close()
        self.main = os.path.join(self.root, name)
        try:
            if not os.path.exists(self.main):
                raise sqlite3.OperationalError("no such file")          # FeatureDB would create an empty file
            self.db = gffutils.FeatureDB(self.main)
            outcome = "ok"
        except Exception as ex:
            outcome = "err:" + err_name(ex)
        self.items.append("connect " + enc(name))
        self._snap(outcome)
        return outcome

    def update(self, lines, cfg, backup, fail_at=None, checklines=10):
        """`fail_at`: the feature source raises instead of yielding item number fail_at (0-based; == len(lines):
        after the last one)"""
        import gffutils
        path = self._input(lines)

        def source():
            for i, f in enumerate(gffutils.iterators.DataIterator(path, checklines=checklines)):
                if i == fail_at:
                    raise SourceBroke("feature source failed at %d" % i)
                yield f
            raise SourceBroke("feature source failed at the end")
        if fail_at is not None:
            data = source()
        elif lines:
            data = path
        else:
            data = iter([])
        try:
            with warnings.catch_warnings():
                warnings.simplefilter("ignore")
                self.db.update(data, make_backup=backup, checklines=checklines, **cfg.update_kwargs())
            outcome = "ok"
        except Exception as ex:
            outcome = "err:" + err_name(ex)
        del data
        gc.collect()            # a failed importer's connection goes away (and its open transaction with it)
        residue = "_"
        if outcome != "ok":
            residue = "%s %s" % (file_words(self.main), dbside.enc_auto(self.db._autoincrements))
        self.items.append("update %s %s %d %s %s %s" % (enc_bool(backup), "~" if fail_at is None else "%d" % fail_at,
                                                       checklines, enc_list(lines), cfg.words(), residue))
        self._snap(outcome)
        return outcome

    def delete(self, ids, backup):
        self.db.delete(list(ids), make_backup=backup)
        self.items.append("delete %s %s" % (enc_bool(backup), enc_list(ids)))
        self._snap("ok")

    def addrel(self, p, c, level):
        import gffutils
        try:
            self.db.add_relation(p, c, level)
            outcome = "ok"
        except gffutils.FeatureNotFoundError:
            outcome = "err:FeatureNotFoundError"
        except sqlite3.IntegrityError:
            outcome = "err:IntegrityError"
            self.db.conn.rollback()
        self.items.append("addrel %s %s %d" % (enc(p), enc(c), level))
        self._snap(outcome)
        return outcome

    def reopen(self):
        import gffutils
        self.db.conn.commit()
        self.db = gffutils.FeatureDB(self.main)
        self.items.append("reopen")
        self._snap("ok")

    def count(self, ft=None):
        n = self.db.count_features_of_type(ft)
        self.items.append("count " + enc(ft))
        self._snap("ok:%d" % n)

    def abandon(self):
        """close the open FeatureDB's connection WITHOUT commit (whatever a failed call left pending on it is rolled
        back by sqlite); no protocol item: the next `connect` shows what the file holds"""
        if self.db is not None:
            try:
                self.db.conn.close()
            except Exception:
                pass
        self.db = None
        gc.collect()

    def command(self):
        return "world " + " ; ".join(self.items)

    def finish(self):
        self._close()
        gc.collect()


def compare_world(res, label, describe, rw, reply):
    """model reply vs the recorded renderings of one RealWorld script, step by step"""
    parts = parse_world_reply(reply)
    if parts is None or len(parts) != len(rw.expect):
        res.corr_checked += 1
        res.corr_disagreements.append((label, describe[:700], str(reply)[:400], "%d steps" % len(rw.expect)))
        return
    for i, (m, e) in enumerate(zip(parts, rw.expect)):
        res.corr_checked += 1
        if m != e:
            res.corr_disagreements.append(("%s, step %d (%s)" % (label, i, rw.items[i].split(" ", 1)[0]),
                                           describe[:700], m[:700], e[:700]))
            break


# ---- Conc -------------------------------------------------------------------------------------------

def enc_names(names):
    names = list(names)
    return "_" if not names else ",".join(sorted(enc(n) for n in names))


def enc_dir(d):
    return "_" if not d else ",".join(sorted("%s=%s" % (enc(k), enc(v)) for k, v in d.items()))


def cmd_conc(datas, dir0, schedule):
    """schedule: list of (process index, op in mkstemp|write|read|unlink|out, name or '')"""
    return "conc %s %s %s" % (enc_list(datas), enc_dir(dir0),
                              ",".join("%d:%s:%s" % (i, op, enc(nm)) for i, op, nm in schedule) if schedule else "_")
