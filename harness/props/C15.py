"""C15 - interfeatures has exact gap geometry  (feature-list part).

correspondence: `FeatureDB.interfeatures(list_of_Feature_objects, new_featuretype, merge_attributes, numeric_sort,
update_attributes=...)` vs `GffModel.Inter.interfeatures` (driver command `interf`), every yielded feature with
all columns, ordered attributes, id, bin, file_order, dialect and printed line, or the exception name;
`helpers.merge_attributes` vs `GffModel.Inter.mergeAttributes` (command `mattr`).

oracle (real code only, from the property text): an independent gap function over consecutive pairs - exactly one
feature prev.end+1 .. next.start-1 per same-seqid pair with at least one base between, none otherwise; type, strand,
attributes = per-key sorted union (numeric when every value is a number and numeric_sort is on), update_attributes,
several IDs joined by '-'; N-1 law; inputs and database unchanged.

database-backed clauses (`create_introns`, `create_splice_sites`): gene models imported with the real code, the yielded
features compared with the gaps / two-base sites computed from the exon coordinates, and with the model (DbExport).
"""
import itertools
import re

import common
import featlist as FL
import pyside

TRUSTED = [
    "float() on the decimal grammar [+-]?(digits[.digits*]|.digits+) is order-preserving w.r.t. the exact rational value "
    "for the short literals generated (model: exact comparison); other float() spellings (exponent, inf, nan, "
    "underscores, surrounding blanks) are outside the modelled domain and are not generated",
    "sorted() on strings = code-point lexicographic order (List Char order in the model)",
    "the JSON round trip inside Feature.astuple() is the identity on attributes (C17)",
]
LEANCHECKER_MODULES = ["GffProofs.Props.C15"]

DEC = re.compile(r"^[+-]?(\d+(\.\d*)?|\.\d+)$")
NUMVALS = ["1", "2", "10", "9", "4.2", "5", "05", "5.0", "-1", "+3", ".5", "1.", "-0", "0", "12", "3.25"]
WORDVALS = ["a", "b", "x1", "B", "p", "t1", "t2", "g"]


def float_parses(v):
    try:
        float(v)
        return True
    except ValueError:
        return False


def in_domain(v):
    return bool(DEC.match(v)) == float_parses(v)


# ---------------------------------------------------------------------------------------------------
# oracle

def oracle_union(a, b, numeric):
    """per-key sorted union of two attribute mappings (lists of strings)"""
    out = {}
    for k in list(a.keys()) + [k for k in b.keys() if k not in a]:
        vals = set(a.get(k, [])) | set(b.get(k, []))
        if numeric and all(float_parses(v) for v in vals):
            out[k] = [v for _, v in sorted((float(v), v) for v in vals)]
        else:
            out[k] = sorted(vals)
    return out


def oracle_gaps(objs, new_featuretype, merge_attributes, numeric_sort, update_attributes):
    """the features the property promises, as dicts"""
    out = []
    for p, n in zip(objs, objs[1:]):
        if p.seqid != n.seqid:
            continue
        if not (p.end + 1 <= n.start - 1):
            continue
        attrs = oracle_union(dict((k, list(p.attributes[k])) for k in p.attributes.keys()),
                             dict((k, list(n.attributes[k])) for k in n.attributes.keys()),
                             numeric_sort) if merge_attributes else {}
        if update_attributes:
            for k, v in update_attributes.items():
                attrs[k] = list(v)
        if "ID" in attrs and len(attrs["ID"]) > 1:
            attrs["ID"] = ["-".join(attrs["ID"])]
        out.append({"seqid": p.seqid, "start": p.end + 1, "end": n.start - 1,
                    "featuretype": new_featuretype if new_featuretype is not None else
                    "inter_%s_%s" % (p.featuretype, n.featuretype),
                    "strand": p.strand if p.strand == n.strand else ".", "attributes": attrs})
    return out


def observed(outs):
    return [{"seqid": o.seqid, "start": o.start, "end": o.end, "featuretype": o.featuretype, "strand": o.strand,
             "attributes": {k: list(o.attributes[k]) for k in o.attributes.keys()}} for o in outs]


def snapshot(objs):
    snap = []
    for f in objs:
        v = dict(vars(f))
        a = f.attributes
        snap.append((str(f), [(k, list(a[k])) for k in a.keys()],
                     tuple((k, repr(v[k])) for k in sorted(v) if k != "attributes")))
    return snap


# ---------------------------------------------------------------------------------------------------
# generators

def rand_attrs(r, i, numeric_bias):
    keys = r.sample(["ID", "Parent", "exon_number", "Name", "n"], r.randrange(0, 4))
    parts = []
    for k in keys:
        if k == "ID":
            vals = ["e%d" % i] if r.random() < 0.8 else ["e%d" % i, "alt%d" % i]
        elif k in ("exon_number", "n"):
            pool = NUMVALS if r.random() < numeric_bias else NUMVALS + WORDVALS
            vals = r.sample(pool, r.randrange(1, 4))
        else:
            vals = r.sample(WORDVALS, r.randrange(1, 3))
        parts.append("%s=%s" % (k, ",".join(vals)))
    return ";".join(parts)


def rand_items(r, n, npos=12, none_coords=False):
    items = []
    seqid = "c1"
    for i in range(n):
        if r.random() < 0.15:
            seqid = r.choice(["c1", "c2", "c3"])
        s = r.randrange(1, npos + 1)
        e = min(npos, s + int(r.expovariate(0.7)))
        if none_coords and r.random() < 0.08:
            s = None
        if none_coords and r.random() < 0.08:
            e = None
        line = FL.gff_line(seqid, s, e, r.choice("+++-."), r.choice(["exon", "exon", "CDS", "gene"]),
                           r.choice(["s", "t"]), r.choice([".", "0.5"]), r.choice([".", "0", "1"]),
                           rand_attrs(r, i, 0.7), r.choice([(), (), ("x",)]))
        items.append(FL.Item(line, r.choice([None, None, "id%d" % i]), r.choice([None, i])))
    return items


UPDATES = [None, None, {}, {"ID": ["x", "y"]}, {"k": ["v"], "Parent": ["q"]}, {"ID": ["only"]}, {"n": ["2", "10"]}]


def run(ctx):
    from gffutils import helpers
    res = common.Result("C15")
    r = ctx.rng("c15")
    res.rule = ("(a) every ordered list of <= 3 intervals over 5 positions on one seqid (quick: lists of 3 thinned to "
                "1/3) and with a seqid change at every position; (b) random lists of 1-8 features over 12 positions "
                "(gaps, adjacency, overlap, nesting, seqid changes, mixed strands, multi-valued attributes incl. "
                "numeric ones), merge_attributes on/off, numeric_sort on/off, update_attributes, new_featuretype; "
                "(c) merge_attributes directly; (d) None coordinates (correspondence only). non-trivial = distinct "
                "(options, list) with >= 2 features")
    db = FL.new_db()
    changes0 = db.conn.total_changes
    cmds, exp, tags = [], [], []

    def case(items, kw, payload, judge=True):
        objs = [it.build() for it in items]
        before = snapshot(objs)
        cmds.append(FL.cmd_interf(db, items, **kw))
        outs, err = FL.run_interf(db, objs, **kw)
        exp.append(FL.enc_interf_reply(outs, err))
        tags.append(payload)
        res.evaluations += 1
        if not judge:
            return
        if err:
            res.oracle_failures.append(("interfeatures raised %s on features with integer coordinates" % err, payload))
            return
        want = oracle_gaps(objs, kw.get("new_featuretype"), kw.get("merge_attributes", True),
                           kw.get("numeric_sort", False), kw.get("update_attributes"))
        got = observed(outs)
        if got != want:
            res.oracle_failures.append(("interfeatures differs from the gap function of the property: got %r, expected %r"
                                        % (got, want), payload))
        if snapshot(objs) != before:
            res.oracle_failures.append(("an input feature changed", payload))
        # N - 1 law
        if len(objs) >= 1 and all(p.seqid == n.seqid and p.end + 2 <= n.start for p, n in zip(objs, objs[1:])):
            res.count("positive_gaps_everywhere")
            if len(outs) != len(objs) - 1:
                res.oracle_failures.append(("N features with positive gaps gave %d interfeatures" % len(outs), payload))

    # (a) exhaustive geometry -----------------------------------------------------------------------------------
    ivs = [(s, e) for s in range(1, 6) for e in range(s, 6)]
    na = 0
    for k in (1, 2, 3):
        for lst in itertools.product(ivs, repeat=k):
            na += 1
            if k == 3 and not ctx.thorough and na % 3 != ctx.seed % 3:
                continue
            for cut in ([None] if k == 1 else [None] + list(range(1, k))):
                if k == 3 and cut is not None and na % 2:
                    continue
                items = [FL.Item(FL.gff_line("c1" if (cut is None or i < cut) else "c2", s, e,
                                             "+" if (i + na) % 3 else "-", "exon", attrs="ID=e%d;Parent=t" % i))
                         for i, (s, e) in enumerate(lst)]
                kw = {"merge_attributes": True}
                payload = {"stream": "exhaustive", "options": kw, "features": [it.as_json() for it in items]}
                case(items, kw, payload)
                res.count("exhaustive_k%d" % k)
                if k >= 2:
                    res.nontriv(("x", lst, cut))

    # (b) random ---------------------------------------------------------------------------------------------
    nb = 6000 if not ctx.thorough else 80000
    for t in range(nb):
        n = r.randrange(1, 9)
        items = rand_items(r, n)
        if t % 7 == 0:
            # start-ordered with positive gaps: the N-1 law is exercised often
            pos = 1
            items2 = []
            for i, it in enumerate(items):
                cols = it.line.split("\t")
                ln = r.randrange(0, 3)
                cols[0] = "c1"
                cols[3], cols[4] = str(pos), str(pos + ln)
                pos += ln + r.randrange(2, 4)
                items2.append(FL.Item("\t".join(cols), it.id, it.file_order))
            items = items2
        kw = {"new_featuretype": r.choice([None, None, "intron"]), "merge_attributes": r.random() < 0.75,
              "numeric_sort": r.random() < 0.5, "update_attributes": r.choice(UPDATES)}
        vals_ok = all(in_domain(v) for it in items for part in it.line.split("\t")[8].split(";") if "=" in part
                      for v in part.split("=", 1)[1].split(","))
        payload = {"stream": "random", "options": kw, "features": [it.as_json() for it in items]}
        if not vals_ok:          # cannot happen with the pools above; guards the domain statement
            res.count("outside_decimal_domain")
            continue
        case(items, kw, payload)
        res.count("random")
        res.count("opt_merge_%s_numeric_%s" % (kw["merge_attributes"], kw["numeric_sort"]))
        if n >= 2:
            res.nontriv(("r", t))
        if t < 3:
            res.sample(payload)

    # (c) merge_attributes ----------------------------------------------------------------------------------------
    nc = 3000 if not ctx.thorough else 30000
    mcmds, mexp, mtags = [], [], []
    for t in range(nc):
        def rd():
            d = {}
            for k in r.sample(["ID", "Parent", "n", "Name", "z"], r.randrange(0, 5)):
                pool = NUMVALS if (k == "n" and r.random() < 0.7) else NUMVALS + WORDVALS
                d[k] = r.sample(pool, r.randrange(1, 4))
            return d
        a1, a2 = rd(), rd()
        ns = r.random() < 0.5
        from gffutils.attributes import Attributes
        A1, A2 = Attributes(a1), Attributes(a2)
        try:
            got = helpers.merge_attributes(A1, A2, numeric_sort=ns)
            rep = pyside.enc_attrs(got)
        except Exception as ex:
            got, rep = None, "err " + pyside.err_name(ex)
        res.evaluations += 1
        res.count("merge_attributes")
        want = oracle_union(a1, a2, ns)
        if got is None or dict(got) != want:
            res.oracle_failures.append(("merge_attributes is not the per-key sorted union",
                                        {"attr1": a1, "attr2": a2, "numeric_sort": ns, "got": got, "expected": want}))
        if dict(A1._d) != a1 or dict(A2._d) != a2:
            res.oracle_failures.append(("merge_attributes changed its arguments", {"attr1": a1, "attr2": a2}))
        mcmds.append("mattr %s %s %s" % (pyside.enc_attrs(a1), pyside.enc_attrs(a2), pyside.enc_bool(ns)))
        mexp.append(rep)
        mtags.append({"attr1": a1, "attr2": a2, "numeric_sort": ns})

    # (d) None coordinates: TypeError on a same-seqid pair - correspondence only ---------------------------------
    nd = 800 if not ctx.thorough else 8000
    for t in range(nd):
        items = rand_items(r, r.randrange(0, 6), none_coords=True)
        kw = {"merge_attributes": r.random() < 0.5, "numeric_sort": False}
        case(items, kw, {"stream": "none-coordinates", "options": kw, "features": [it.as_json() for it in items]},
             judge=False)
        res.count("none_coordinates_stream")

    if db.conn.total_changes != changes0:
        res.oracle_failures.append(("interfeatures wrote to the database", {"total_changes": db.conn.total_changes}))

    out = ctx.model(cmds + mcmds)
    if out is not None:
        for c, m, e, tag in zip(cmds, out[:len(cmds)], exp, tags):
            res.corr_checked += 1
            if m != e:
                res.corr_disagreements.append(("FeatureDB.interfeatures", tag, m[:1500], e[:1500]))
        for c, m, e, tag in zip(mcmds, out[len(cmds):], mexp, mtags):
            res.corr_checked += 1
            if m != e:
                res.corr_disagreements.append(("helpers.merge_attributes", tag, m[:800], e[:800]))

    # ---- database-backed clauses: create_introns / create_splice_sites ------------------------------------------------
    import os
    import dbside
    import gen_db
    from common import enc
    r2 = ctx.rng("introns")
    dcmds, dexp, dtags = [], [], []

    def gene_models(gtf):
        """1-3 genes x 1-3 transcripts x 1-5 exons, either strand, exon starts pairwise different per transcript"""
        lines, models = [], []
        for g in range(r2.randrange(1, 4)):
            gid = "g%d" % g
            strand = r2.choice("+-")
            seqid = r2.choice(["chr1", "chr2"])
            tx = []
            for t in range(r2.randrange(1, 4)):
                tid = "%st%d" % (gid, t)
                pos = r2.randrange(1, 300)
                exons = []
                for e in range(r2.randrange(1, 6)):
                    ln = r2.randrange(1, 80)
                    exons.append((pos, pos + ln - 1))
                    pos += ln + r2.choice([0, 0, 1, 2, 30, 200])       # touching exons (gap 0) give no intron
                tx.append((tid, exons))
            models.append((gid, seqid, strand, tx))
            allx = [x for _, ex in tx for x in ex]
            gs, ge = min(a for a, b in allx), max(b for a, b in allx)
            if not gtf:
                lines.append(gen_db.gff_line(seqid, "gene", gs, ge, strand, [("ID", [gid])]))
            for tid, exons in tx:
                if not gtf:
                    lines.append(gen_db.gff_line(seqid, "mRNA", exons[0][0], exons[-1][1], strand, [("ID", [tid]), ("Parent", [gid])]))
                order = list(range(len(exons)))
                r2.shuffle(order)
                for i in order:
                    a, b = exons[i]
                    if gtf:
                        lines.append(gen_db.gtf_line(seqid, "exon", a, b, strand, [("gene_id", [gid]), ("transcript_id", [tid]), ("ID", ["%se%d" % (tid, i)])]))
                    else:
                        lines.append(gen_db.gff_line(seqid, "exon", a, b, strand, [("ID", ["%se%d" % (tid, i)]), ("Parent", [tid])]))
        return lines, models

    def expected_introns(models):
        out = []
        for gid, seqid, strand, tx in models:
            for tid, exons in tx:
                ex = sorted(exons)
                for (a1, b1), (a2, b2) in zip(ex, ex[1:]):
                    if b1 + 1 <= a2 - 1:
                        out.append((seqid, b1 + 1, a2 - 1, strand, tid))
        return out

    nmodels = 30 if not ctx.thorough else 400
    for mi in range(nmodels):
        gtf = r2.random() < 0.4
        lines, models = gene_models(gtf)
        path = dbside.write_lines(os.path.join(ctx.scratch, "introns." + ("gtf" if gtf else "gff3")), lines)
        db, rep = dbside.py_create(path, dbside.Cfg())
        if db is None:
            res.oracle_failures.append(("create_db raised on a gene model: " + rep, {"lines": lines}))
            continue
        before = dbside.dump(db)
        inp = {"lines": lines}
        res.evaluations += 1
        res.count("gene_models_gtf" if gtf else "gene_models_gff3")
        want = expected_introns(models)
        use_parent = (not gtf) and r2.random() < 0.3
        kw = dict(grandparent_featuretype=None, parent_featuretype="mRNA") if use_parent else {}
        ma = r2.random() < 0.7                    # merge_attributes on / off
        if not ma:
            kw = dict(kw, merge_attributes=False)
        try:
            introns = list(db.create_introns(**kw))
            got = sorted((f.seqid, f.start, f.end, f.strand) for f in introns)
            if got != sorted(w[:4] for w in want) or any(f.featuretype != "intron" for f in introns):
                res.oracle_failures.append(("create_introns does not yield exactly the gaps between the start-ordered "
                                            "exons of each transcript", dict(inp, returned=got, expected=sorted(w[:4] for w in want))))
            for f in introns:
                if f.bin != __import__("gffutils").bins.bins(f.start, f.end, one=True):
                    res.oracle_failures.append(("an intron's bin is not bins(start, end)", dict(inp, intron=str(f))))
            res.nontriv(("introns", tuple(lines)))
            dcmds.append(dbside.cmd_create(lines, dbside.Cfg())); dexp.append(rep); dtags.append(("create_db", repr(lines)))
            gpw, ptw = ("~", enc("mRNA")) if use_parent else (enc("gene"), "~")
            dcmds.append("introns %s %s %s %s %d 0" % (gpw, ptw, enc("exon"), enc("intron"), 1 if ma else 0))
            dexp.append(("FEATS", [pyside.enc_feature(f) for f in introns])); dtags.append(("create_introns", repr(lines)))
        except Exception as ex:
            res.oracle_failures.append(("create_introns raised %r" % ex, inp))
            continue
        # splice sites
        try:
            sites = list(db.create_splice_sites(**kw))
            exp_sites = []
            for side in ("left", "right"):
                for (seqid, a, b, strand, tid) in want:
                    if side == "left":
                        ft = {"+": "five_prime_cis_splice_site", "-": "three_prime_cis_splice_site"}.get(strand, "splice_site")
                        exp_sites.append((seqid, a, a + 1, strand, ft))
                    else:
                        ft = {"+": "three_prime_cis_splice_site", "-": "five_prime_cis_splice_site"}.get(strand, "splice_site")
                        exp_sites.append((seqid, b - 1, b, strand, ft))
            got = [(f.seqid, f.start, f.end, f.strand, f.featuretype) for f in sites]
            half = len(got) // 2
            ok = sorted(got) == sorted(exp_sites) and sorted(got[:half]) == sorted(exp_sites[:half])
            if not ok:
                res.oracle_failures.append(("create_splice_sites does not yield the two-base sites [start,start+1] / "
                                            "[end-1,end] of each intron labelled by side and strand (left sites first)",
                                            dict(inp, returned=got, expected=exp_sites)))
            for f in sites:
                if ma and not f.attributes["ID"][0].startswith(f.featuretype + "_"):
                    res.oracle_failures.append(("a splice site's ID is not prefixed with its type", dict(inp, site=str(f))))
            dcmds.append("splice %s %s %s %d 0" % (gpw, ptw, enc("exon"), 1 if ma else 0))
            dexp.append(("FEATS", [pyside.enc_feature(f) for f in sites])); dtags.append(("create_splice_sites", repr(lines)))
        except Exception as ex:
            res.oracle_failures.append(("create_splice_sites raised %r" % ex, inp))
        if dbside.dump(db) != before:
            res.oracle_failures.append(("create_introns / create_splice_sites changed the database", inp))
    dout = ctx.model([c for c in dcmds if c]) if dcmds else None
    if dout is not None:
        for c, m, e, (comp, inpx) in zip([c for c in dcmds if c], dout, dexp, dtags):
            res.corr_checked += 1
            if isinstance(e, tuple):
                # children(level=1) of a gene come in unspecified SQL order: compare the yielded features as a multiset
                ms = sorted(m.split(" ", 2)[2].split(" / ")) if m.startswith("ok ") and m.split(" ")[1] != "0" else []
                if ms != sorted(e[1]):
                    res.corr_disagreements.append((comp, inpx[:800], m[:600], " / ".join(e[1])[:600]))
            elif m != e:
                res.corr_disagreements.append((comp, inpx[:800], m[:300], e[:300]))
    res.assumptions = [
        "coordinates are integers (a None coordinate on a same-seqid pair is a TypeError: compared with the model only)",
        "attribute values handed to numeric_sort are in the decimal grammar or do not parse as float at all",
        "update_attributes values are lists of strings; attribute_func is None; constants.always_return_list is True "
        "(the other setting is defect D7, C17)",
        "the property does not say where `score`, `frame` and `id` of an interfeature come from: the code takes them from "
        "the FIRST feature of the seqid run (in-place dict); the model follows it (theorem interfeature_fields), the "
        "oracle does not judge these columns",
        "gene models for create_introns / create_splice_sites: exons of a transcript have pairwise different starts "
        "(SQL leaves ties unordered) and carry an ID attribute",
    ]
    return res


def replay(ctx, payload):
    res = common.Result("C15")
    inp = payload.get("input", {})
    db = FL.new_db()
    if "features" in inp:
        items = [FL.Item.from_json(d) for d in inp["features"]]
        kw = dict(inp.get("options", {}))
        objs = [it.build() for it in items]
        outs, err = FL.run_interf(db, objs, **kw)
        want = oracle_gaps(objs, kw.get("new_featuretype"), kw.get("merge_attributes", True),
                           kw.get("numeric_sort", False), kw.get("update_attributes")) if not err else None
        got = observed(outs) if outs is not None else err
        res.evaluations = 1
        print("replay: interfeatures(%s, %s) -> %r ; expected %r" % ([it.line for it in items], kw, got, want))
        if err or got != want:
            res.oracle_failures.append((payload.get("what", "differs"), inp))
    elif "attr1" in inp:
        from gffutils import helpers
        from gffutils.attributes import Attributes
        got = helpers.merge_attributes(Attributes(inp["attr1"]), Attributes(inp["attr2"]), numeric_sort=inp["numeric_sort"])
        want = oracle_union(inp["attr1"], inp["attr2"], inp["numeric_sort"])
        print("replay: merge_attributes -> %r ; expected %r" % (got, want))
        res.evaluations = 1
        if dict(got) != want:
            res.oracle_failures.append((payload.get("what", "differs"), inp))
    return res
