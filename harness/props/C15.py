"""C15 - interfeatures has exact gap geometry  (feature-list part).

correspondence: `FeatureDB.interfeatures(list_of_Feature_objects, new_featuretype, merge_attributes, numeric_sort,
update_attributes=...)` vs `GffModel.Inter.interfeatures` (driver command `interf`), every yielded feature with
all columns, ordered attributes, id, bin, file_order, dialect and printed line, or the exception name;
`helpers.merge_attributes` vs `GffModel.Inter.mergeAttributes` (command `mattr`).

oracle (real code only, from the property text): an independent gap function over consecutive pairs - exactly one
feature prev.end+1 .. next.start-1 per same-seqid pair with at least one base between, none otherwise; type, strand,
attributes = per-key sorted union (numeric when every value is a number and numeric_sort is on), update_attributes,
several IDs joined by '-'; N-1 law; inputs and database unchanged.

TODO hooks (database-backed clauses, to be added on top of this module): `create_introns`, `create_splice_sites`.
"""
import itertools
import re

import common
import featlist as FL
import pyside

TRUSTED = [
    "float() on the decimal grammar [+-]?(digits[.digits*]|.digits+) is order-preserving w.r.t. the exact rational value "
    "for the short literals generated (model: exact comparison); other float() spellings (exponent, inf, nan, "
    "underscores, surrounding blanks) are outside the modelled domain and are not generated",
    "sorted() on strings = code-point lexicographic order (List Char order in the model)",
    "the JSON round trip inside Feature.astuple() is the identity on attributes (C17)",
]
LEANCHECKER_MODULES = ["GffProofs.Props.C15"]

DEC = re.compile(r"^[+-]?(\d+(\.\d*)?|\.\d+)$")
NUMVALS = ["1", "2", "10", "9", "4.2", "5", "05", "5.0", "-1", "+3", ".5", "1.", "-0", "0", "12", "3.25"]
WORDVALS = ["a", "b", "x1", "B", "p", "t1", "t2", "g"]


def float_parses(v):
    try:
        float(v)
        return True
    except ValueError:
        return False


def in_domain(v):
    return bool(DEC.match(v)) == float_parses(v)


# ---------------------------------------------------------------------------------------------------
# oracle

def oracle_union(a, b, numeric):
    """per-key sorted union of two attribute mappings (lists of strings)"""
    out = {}
    for k in list(a.keys()) + [k for k in b.keys() if k not in a]:
        vals = set(a.get(k, [])) | set(b.get(k, []))
        if numeric and all(float_parses(v) for v in vals):
            out[k] = [v for _, v in sorted((float(v), v) for v in vals)]
        else:
            out[k] = sorted(vals)
    return out


def oracle_gaps(objs, new_featuretype, merge_attributes, numeric_sort, update_attributes):
    """the features the property promises, as dicts"""
    out = []
    for p, n in zip(objs, objs[1:]):
        if p.seqid != n.seqid:
            continue
        if not (p.end + 1 <= n.start - 1):
            continue
        attrs = oracle_union(dict((k, list(p.attributes[k])) for k in p.attributes.keys()),
                             dict((k, list(n.attributes[k])) for k in n.attributes.keys()),
                             numeric_sort) if merge_attributes else {}
        if update_attributes:
            for k, v in update_attributes.items():
                attrs[k] = list(v)
        if "ID" in attrs and len(attrs["ID"]) > 1:
            attrs["ID"] = ["-".join(attrs["ID"])]
        out.append({"seqid": p.seqid, "start": p.end + 1, "end": n.start - 1,
                    "featuretype": new_featuretype if new_featuretype is not None else
                    "inter_%s_%s" % (p.featuretype, n.featuretype),
                    "strand": p.strand if p.strand == n.strand else ".", "attributes": attrs})
    return out


def observed(outs):
    return [{"seqid": o.seqid, "start": o.start, "end": o.end, "featuretype": o.featuretype, "strand": o.strand,
             "attributes": {k: list(o.attributes[k]) for k in o.attributes.keys()}} for o in outs]


def snapshot(objs):
    snap = []
    for f in objs:
        v = dict(vars(f))
        a = f.attributes
        snap.append((str(f), [(k, list(a[k])) for k in a.keys()],
                     tuple((k, repr(v[k])) for k in sorted(v) if k != "attributes")))
    return snap


# ---------------------------------------------------------------------------------------------------
# generators

def rand_attrs(r, i, numeric_bias):
    keys = r.sample(["ID", "Parent", "exon_number", "Name", "n"], r.randrange(0, 4))
    parts = []
    for k in keys:
        if k == "ID":
            vals = ["e%d" % i] if r.random() < 0.8 else ["e%d" % i, "alt%d" % i]
        elif k in ("exon_number", "n"):
            pool = NUMVALS if r.random() < numeric_bias else NUMVALS + WORDVALS
            vals = r.sample(pool, r.randrange(1, 4))
        else:
            vals = r.sample(WORDVALS, r.randrange(1, 3))
        parts.append("%s=%s" % (k, ",".join(vals)))
    return ";".join(parts)


def rand_items(r, n, npos=12, none_coords=False):
    items = []
    seqid = "c1"
    for i in range(n):
        if r.random() < 0.15:
            seqid = r.choice(["c1", "c2", "c3"])
        s = r.randrange(1, npos + 1)
        e = min(npos, s + int(r.expovariate(0.7)))
        if none_coords and r.random() < 0.08:
            s = None
        if none_coords and r.random() < 0.08:
            e = None
        line = FL.gff_line(seqid, s, e, r.choice("+++-."), r.choice(["exon", "exon", "CDS", "gene"]),
                           r.choice(["s", "t"]), r.choice([".", "0.5"]), r.choice([".", "0", "1"]),
                           rand_attrs(r, i, 0.7), r.choice([(), (), ("x",)]))
        items.append(FL.Item(line, r.choice([None, None, "id%d" % i]), r.choice([None, i])))
    return items


UPDATES = [None, None, {}, {"ID": ["x", "y"]}, {"k": ["v"], "Parent": ["q"]}, {"ID": ["only"]}, {"n": ["2", "10"]}]


def run(ctx):
    from gffutils import helpers
    res = common.Result("C15")
    r = ctx.rng("c15")
    res.rule = ("(a) every ordered list of <= 3 intervals over 5 positions on one seqid (quick: lists of 3 thinned to "
                "1/3) and with a seqid change at every position; (b) random lists of 1-8 features over 12 positions "
                "(gaps, adjacency, overlap, nesting, seqid changes, mixed strands, multi-valued attributes incl. "
                "numeric ones), merge_attributes on/off, numeric_sort on/off, update_attributes, new_featuretype; "
                "(c) merge_attributes directly; (d) None coordinates (correspondence only). non-trivial = distinct "
                "(options, list) with >= 2 features")
    db = FL.new_db()
    changes0 = db.conn.total_changes
    cmds, exp, tags = [], [], []

    def case(items, kw, payload, judge=True):
        objs = [it.build() for it in items]
        before = snapshot(objs)
        cmds.append(FL.cmd_interf(db, items, **kw))
        outs, err = FL.run_interf(db, objs, **kw)
        exp.append(FL.enc_interf_reply(outs, err))
        tags.append(payload)
        res.evaluations += 1
        if not judge:
            return
        if err:
            res.oracle_failures.append(("interfeatures raised %s on features with integer coordinates" % err, payload))
            return
        want = oracle_gaps(objs, kw.get("new_featuretype"), kw.get("merge_attributes", True),
                           kw.get("numeric_sort", False), kw.get("update_attributes"))
        got = observed(outs)
        if got != want:
            res.oracle_failures.append(("interfeatures differs from the gap function of the property: got %r, expected %r"
                                        % (got, want), payload))
        if snapshot(objs) != before:
            res.oracle_failures.append(("an input feature changed", payload))
        # N - 1 law
        if len(objs) >= 1 and all(p.seqid == n.seqid and p.end + 2 <= n.start for p, n in zip(objs, objs[1:])):
            res.count("positive_gaps_everywhere")
            if len(outs) != len(objs) - 1:
                res.oracle_failures.append(("N features with positive gaps gave %d interfeatures" % len(outs), payload))

    # (a) exhaustive geometry -----------------------------------------------------------------------------------
    ivs = [(s, e) for s in range(1, 6) for e in range(s, 6)]
    na = 0
    for k in (1, 2, 3):
        for lst in itertools.product(ivs, repeat=k):
            na += 1
            if k == 3 and not ctx.thorough and na % 3 != ctx.seed % 3:
                continue
            for cut in ([None] if k == 1 else [None] + list(range(1, k))):
                if k == 3 and cut is not None and na % 2:
                    continue
                items = [FL.Item(FL.gff_line("c1" if (cut is None or i < cut) else "c2", s, e,
                                             "+" if (i + na) % 3 else "-", "exon", attrs="ID=e%d;Parent=t" % i))
                         for i, (s, e) in enumerate(lst)]
                kw = {"merge_attributes": True}
                payload = {"stream": "exhaustive", "options": kw, "features": [it.as_json() for it in items]}
                case(items, kw, payload)
                res.count("exhaustive_k%d" % k)
                if k >= 2:
                    res.nontriv(("x", lst, cut))

    # (b) random ---------------------------------------------------------------------------------------------
    nb = 6000 if not ctx.thorough else 80000
    for t in range(nb):
        n = r.randrange(1, 9)
        items = rand_items(r, n)
        if t % 7 == 0:
            # start-ordered with positive gaps: the N-1 law is exercised often
            pos = 1
            items2 = []
            for i, it in enumerate(items):
                cols = it.line.split("\t")
                ln = r.randrange(0, 3)
                cols[0] = "c1"
                cols[3], cols[4] = str(pos), str(pos + ln)
                pos += ln + r.randrange(2, 4)
                items2.append(FL.Item("\t".join(cols), it.id, it.file_order))
            items = items2
        kw = {"new_featuretype": r.choice([None, None, "intron"]), "merge_attributes": r.random() < 0.75,
              "numeric_sort": r.random() < 0.5, "update_attributes": r.choice(UPDATES)}
        vals_ok = all(in_domain(v) for it in items for part in it.line.split("\t")[8].split(";") if "=" in part
                      for v in part.split("=", 1)[1].split(","))
        payload = {"stream": "random", "options": kw, "features": [it.as_json() for it in items]}
        if not vals_ok:          # cannot happen with the pools above; guards the domain statement
            res.count("outside_decimal_domain")
            continue
        case(items, kw, payload)
        res.count("random")
        res.count("opt_merge_%s_numeric_%s" % (kw["merge_attributes"], kw["numeric_sort"]))
        if n >= 2:
            res.nontriv(("r", t))
        if t < 3:
            res.sample(payload)

    # (c) merge_attributes ----------------------------------------------------------------------------------------
    nc = 3000 if not ctx.thorough else 30000
    mcmds, mexp, mtags = [], [], []
    for t in range(nc):
        def rd():
            d = {}
            for k in r.sample(["ID", "Parent", "n", "Name", "z"], r.randrange(0, 5)):
                pool = NUMVALS if (k == "n" and r.random() < 0.7) else NUMVALS + WORDVALS
                d[k] = r.sample(pool, r.randrange(1, 4))
            return d
        a1, a2 = rd(), rd()
        ns = r.random() < 0.5
        from gffutils.attributes import Attributes
        A1, A2 = Attributes(a1), Attributes(a2)
        try:
            got = helpers.merge_attributes(A1, A2, numeric_sort=ns)
            rep = pyside.enc_attrs(got)
        except Exception as ex:
            got, rep = None, "err " + pyside.err_name(ex)
        res.evaluations += 1
        res.count("merge_attributes")
        want = oracle_union(a1, a2, ns)
        if got is None or dict(got) != want:
            res.oracle_failures.append(("merge_attributes is not the per-key sorted union",
                                        {"attr1": a1, "attr2": a2, "numeric_sort": ns, "got": got, "expected": want}))
        if dict(A1._d) != a1 or dict(A2._d) != a2:
            res.oracle_failures.append(("merge_attributes changed its arguments", {"attr1": a1, "attr2": a2}))
        mcmds.append("mattr %s %s %s" % (pyside.enc_attrs(a1), pyside.enc_attrs(a2), pyside.enc_bool(ns)))
        mexp.append(rep)
        mtags.append({"attr1": a1, "attr2": a2, "numeric_sort": ns})

    # (d) None coordinates: TypeError on a same-seqid pair - correspondence only ---------------------------------
    nd = 800 if not ctx.thorough else 8000
    for t in range(nd):
        items = rand_items(r, r.randrange(0, 6), none_coords=True)
        kw = {"merge_attributes": r.random() < 0.5, "numeric_sort": False}
        case(items, kw, {"stream": "none-coordinates", "options": kw, "features": [it.as_json() for it in items]},
             judge=False)
        res.count("none_coordinates_stream")

    if db.conn.total_changes != changes0:
        res.oracle_failures.append(("interfeatures wrote to the database", {"total_changes": db.conn.total_changes}))

    out = ctx.model(cmds + mcmds)
    if out is not None:
        for c, m, e, tag in zip(cmds, out[:len(cmds)], exp, tags):
            res.corr_checked += 1
            if m != e:
                res.corr_disagreements.append(("FeatureDB.interfeatures", tag, m[:1500], e[:1500]))
        for c, m, e, tag in zip(mcmds, out[len(cmds):], mexp, mtags):
            res.corr_checked += 1
            if m != e:
                res.corr_disagreements.append(("helpers.merge_attributes", tag, m[:800], e[:800]))

    # TODO(create_introns): generated GFF3/GTF gene models (1-5 exons, either strand, no ties in start): the introns
    #   are `oracle_gaps` of the start-ordered exon children of each transcript; model: Inter.interfeatures per parent.
    # TODO(create_splice_sites): [start, start+1] and [end-1, end] of each such intron, five/three prime by side and
    #   transcript strand.
    res.assumptions = [
        "coordinates are integers (a None coordinate on a same-seqid pair is a TypeError: compared with the model only)",
        "attribute values handed to numeric_sort are in the decimal grammar or do not parse as float at all",
        "update_attributes values are lists of strings; attribute_func is None; constants.always_return_list is True "
        "(the other setting is defect D7, C17)",
        "the property does not say where `score`, `frame` and `id` of an interfeature come from: the code takes them from "
        "the FIRST feature of the seqid run (in-place dict); the model follows it (theorem interfeature_fields), the "
        "oracle does not judge these columns",
        "create_introns / create_splice_sites (database-backed clauses) are not covered by this module yet",
    ]
    return res


def replay(ctx, payload):
    res = common.Result("C15")
    inp = payload.get("input", {})
    db = FL.new_db()
    if "features" in inp:
        items = [FL.Item.from_json(d) for d in inp["features"]]
        kw = dict(inp.get("options", {}))
        objs = [it.build() for it in items]
        outs, err = FL.run_interf(db, objs, **kw)
        want = oracle_gaps(objs, kw.get("new_featuretype"), kw.get("merge_attributes", True),
                           kw.get("numeric_sort", False), kw.get("update_attributes")) if not err else None
        got = observed(outs) if outs is not None else err
        res.evaluations = 1
        print("replay: interfeatures(%s, %s) -> %r ; expected %r" % ([it.line for it in items], kw, got, want))
        if err or got != want:
            res.oracle_failures.append((payload.get("what", "differs"), inp))
    elif "attr1" in inp:
        from gffutils import helpers
        from gffutils.attributes import Attributes
        got = helpers.merge_attributes(Attributes(inp["attr1"]), Attributes(inp["attr2"]), numeric_sort=inp["numeric_sort"])
        want = oracle_union(inp["attr1"], inp["attr2"], inp["numeric_sort"])
        print("replay: merge_attributes -> %r ; expected %r" % (got, want))
        res.evaluations = 1
        if dict(got) != want:
            res.oracle_failures.append((payload.get("what", "differs"), inp))
    return res
