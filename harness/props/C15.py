"""C15 - interfeatures has exact gap geometry  (feature-list part).

correspondence: `FeatureDB.interfeatures(list_of_Feature_objects, new_featuretype, merge_attributes, numeric_sort,
update_attributes=...)` vs `GffModel.Inter.interfeatures` (driver command `interf`), every yielded feature with
all columns, ordered attributes, id, bin, file_order, dialect and printed line, or the exception name;
`helpers.merge_attributes` vs `GffModel.Inter.mergeAttributes` (command `mattr`).

oracle (real code only, from the property text): an independent gap function over consecutive pairs - exactly one
feature prev.end+1 .. next.start-1 per same-seqid pair with at least one base between, none otherwise; type, strand,
attributes = per-key sorted union (numeric when every value is a number and numeric_sort is on), update_attributes,
several IDs joined by '-'; N-1 law; inputs and database unchanged.

database-backed clauses (`create_introns`, `create_splice_sites`): gene models imported with the real code, the yielded
features compared with the gaps / two-base sites computed from the generator's record of the exons (coordinates, strand
AND attributes = per-key sorted union of the two neighbouring exons, incl. keys that are valueless on one side), and with
the model (DbExport); four-level models gene -> mRNA -> part -> exon are compared with the model only
(`judge_gene_models`, replayable).
"""
import itertools
import os
import re

import common
import dbside
import featlist as FL
import gen_db
import pyside
from common import enc

TRUSTED = [
    "float() on the decimal grammar [+-]?(digits[.digits*]|.digits+) is order-preserving w.r.t. the exact rational value "
    "for the short literals generated (model: exact comparison); other float() spellings (exponent, inf, nan, "
    "underscores, surrounding blanks) are outside the modelled domain and are not generated",
    "sorted() on strings = code-point lexicographic order (List Char order in the model)",
    "the JSON round trip inside Feature.astuple() is the identity on attributes (C17)",
]
LEANCHECKER_MODULES = ["GffProofs.Props.C15"]

DEC = re.compile(r"^[+-]?(\d+(\.\d*)?|\.\d+)$")
NUMVALS = ["1", "2", "10", "9", "4.2", "5", "05", "5.0", "-1", "+3", ".5", "1.", "-0", "0", "12", "3.25"]
WORDVALS = ["a", "b", "x1", "B", "p", "t1", "t2", "g"]


def float_parses(v):
    try:
        float(v)
        return True
    except ValueError:
        return False


def in_domain(v):
    return bool(DEC.match(v)) == float_parses(v)


# ---------------------------------------------------------------------------------------------------
# oracle

def oracle_union(a, b, numeric):
    """per-key sorted union of two attribute mappings (lists of strings)"""
    out = {}
    for k in list(a.keys()) + [k for k in b.keys() if k not in a]:
        vals = set(a.get(k, [])) | set(b.get(k, []))
        if numeric and all(float_parses(v) for v in vals):
            out[k] = [v for _, v in sorted((float(v), v) for v in vals)]
        else:
            out[k] = sorted(vals)
    return out


def oracle_gaps(objs, new_featuretype, merge_attributes, numeric_sort, update_attributes):
    """the features the property promises, as dicts"""
    out = []
    for p, n in zip(objs, objs[1:]):
        if p.seqid != n.seqid:
            continue
        if not (p.end + 1 <= n.start - 1):
            continue
        attrs = oracle_union(dict((k, list(p.attributes[k])) for k in p.attributes.keys()),
                             dict((k, list(n.attributes[k])) for k in n.attributes.keys()),
                             numeric_sort) if merge_attributes else {}
        if update_attributes:
            for k, v in update_attributes.items():
                attrs[k] = list(v)
        if "ID" in attrs and len(attrs["ID"]) > 1:
            attrs["ID"] = ["-".join(attrs["ID"])]
        out.append({"seqid": p.seqid, "start": p.end + 1, "end": n.start - 1,
                    "featuretype": new_featuretype if new_featuretype is not None else
                    "inter_%s_%s" % (p.featuretype, n.featuretype),
                    "strand": p.strand if p.strand == n.strand else ".", "attributes": attrs})
    return out


def observed(outs):
    return [{"seqid": o.seqid, "start": o.start, "end": o.end, "featuretype": o.featuretype, "strand": o.strand,
             "attributes": {k: list(o.attributes[k]) for k in o.attributes.keys()}} for o in outs]


def snapshot(objs):
    snap = []
    for f in objs:
        v = dict(vars(f))
        a = f.attributes
        snap.append((str(f), [(k, list(a[k])) for k in a.keys()],
                     tuple((k, repr(v[k])) for k in sorted(v) if k != "attributes")))
    return snap


# ---------------------------------------------------------------------------------------------------
# generators

def rand_attrs(r, i, numeric_bias):
    keys = r.sample(["ID", "Parent", "exon_number", "Name", "n", "Note", "Dbxref"], r.randrange(0, 4))
    parts = []
    for k in keys:
        if k in ("Note", "Dbxref"):
            # a key listed without a value (`Note`, `Dbxref=`): the parser stores the EMPTY list - the union with a
            # neighbour that has values for the key keeps the neighbour's values
            form = r.randrange(4)
            if form == 0:
                parts.append(k)
                continue
            if form == 1:
                parts.append(k + "=")
                continue
            vals = r.sample(WORDVALS + ["X:1", "X:2"], r.randrange(1, 3))
        elif k == "ID":
            vals = ["e%d" % i] if r.random() < 0.8 else ["e%d" % i, "alt%d" % i]
        elif k in ("exon_number", "n"):
            pool = NUMVALS if r.random() < numeric_bias else NUMVALS + WORDVALS
            vals = r.sample(pool, r.randrange(1, 4))
        else:
            vals = r.sample(WORDVALS, r.randrange(1, 3))
        if k != "ID" and r.random() < 0.15:
            vals = vals + [vals[0]]                      # a value listed twice (Note=zeta,alpha,zeta)
        parts.append("%s=%s" % (k, ",".join(vals)))
    return ";".join(parts)


def rand_items(r, n, npos=12, none_coords=False):
    items = []
    seqid = "c1"
    prev_attrs = None
    for i in range(n):
        if r.random() < 0.15:
            seqid = r.choice(["c1", "c2", "c3"])
        # now and then a feature carries exactly the attribute column of its predecessor (ID-less exons of one transcript):
        # the gap between them still gets the sorted, duplicate-free union
        attrs_text = prev_attrs if (prev_attrs is not None and r.random() < 0.2) else rand_attrs(r, i, 0.7)
        prev_attrs = attrs_text
        s = r.randrange(1, npos + 1)
        e = min(npos, s + int(r.expovariate(0.7)))
        if none_coords and r.random() < 0.08:
            s = None
        if none_coords and r.random() < 0.08:
            e = None
        line = FL.gff_line(seqid, s, e, r.choice("+++-."), r.choice(["exon", "exon", "CDS", "gene"]),
                           r.choice(["s", "t"]), r.choice([".", "0.5"]), r.choice([".", "0", "1"]),
                           attrs_text, r.choice([(), (), ("x",)]))
        items.append(FL.Item(line, r.choice([None, None, "id%d" % i]), r.choice([None, i])))
    return items


UPDATES = [None, None, {}, {"ID": ["x", "y"]}, {"k": ["v"], "Parent": ["q"]}, {"ID": ["only"]}, {"n": ["2", "10"]}]


# ---------------------------------------------------------------------------------------------------
# database-backed clauses: gene models, their oracle (one case = one imported file + one set of keyword arguments)

def gene_models(r2, gtf, deep=False):
    """1-3 genes x 1-3 transcripts x 1-5 exons, either strand, exon starts pairwise different per transcript; exons
    carry an ID and now and then a `Note` / `Dbxref` (GTF: `tag`) attribute that is VALUELESS on some exons (the parser
    stores []) and has values on others.  deep: GFF3 with a fourth level, mRNA -> part -> exon, beside (or instead of)
    the exons directly under the mRNA.  Returns (lines, models); models is plain JSON."""
    lines, models = [], []
    emitted = set()
    for g in range(r2.randrange(1, 4)):
        gid = "g%d" % g
        strand = r2.choice("+-")
        seqid = r2.choice(["chr1", "chr2"])
        tx = []
        for t in range(r2.randrange(1, 4)):
            tid = "%st%d" % (gid, t)

            def chain(prefix, parent, n):
                pos = r2.randrange(1, 300)
                out = []
                for e in range(n):
                    ln = r2.randrange(1, 80)
                    eid = "%se%d" % (prefix, e)
                    if gtf:
                        attrs = {"gene_id": [gid], "transcript_id": [tid], "ID": [eid]}
                        opt = ["tag"]
                    else:
                        attrs = {"ID": [eid], "Parent": [parent]}
                        opt = ["Note", "Dbxref"]
                    for k in opt:
                        u = r2.random()
                        if u < 0.25:
                            attrs[k] = []                                        # valueless key
                        elif u < 0.5:
                            attrs[k] = r2.sample(["p", "first", "last", "X:1", "X:2"], r2.randrange(1, 3))
                    out.append({"start": pos, "end": pos + ln - 1, "attrs": attrs})
                    pos += ln + r2.choice([0, 0, 1, 2, 30, 200])       # touching exons (gap 0) give no intron
                return out
            nparts = r2.randrange(1, 3) if (deep and r2.random() < 0.75) else 0
            exons = chain(tid, tid, r2.randrange(0 if nparts else 1, 6))
            parts = [{"id": "%sp%d" % (tid, q), "exons": chain("%sp%d" % (tid, q), "%sp%d" % (tid, q), r2.randrange(1, 5))}
                     for q in range(nparts)]
            # GFF3 only, now and then: exon lines that do not carry their transcript's strand ('.' on all of them, or
            # single exons on '.' / the other strand - as in trans-spliced models); the gap is stranded like its two
            # neighbours ('.' if they differ), the site label follows the TRANSCRIPT's strand
            if not gtf and not deep and r2.random() < 0.25:
                mode = r2.choice(["all_dot", "some_dot", "some_opposite"])
                for x in exons:
                    if mode == "all_dot" or r2.random() < 0.4:
                        x["strand"] = "." if mode != "some_opposite" else ("-" if strand == "+" else "+")
            tx.append({"tid": tid, "exons": exons, "parts": parts})
        # GFF3, now and then: an exon that belongs to two transcripts of the gene (Parent=t0,t1, FlyBase style) - it is
        # an exon of BOTH, so both get the introns next to it
        if not gtf and not deep and len(tx) >= 2 and tx[0]["exons"] and r2.random() < 0.35:
            x = r2.choice(tx[0]["exons"])
            if "strand" not in x and all(x["start"] != y["start"] for y in tx[1]["exons"]):
                x["attrs"]["Parent"] = [tx[0]["tid"], tx[1]["tid"]]
                tx[1]["exons"].append(x)
        models.append({"gid": gid, "seqid": seqid, "strand": strand, "tx": tx})
        allx = [x for t in tx for x in t["exons"] + [y for q in t["parts"] for y in q["exons"]]]
        gs, ge = min(x["start"] for x in allx), max(x["end"] for x in allx)
        if not gtf:
            lines.append(gen_db.gff_line(seqid, "gene", gs, ge, strand, [("ID", [gid])]))
        for t in tx:
            tid = t["tid"]
            mine = t["exons"] + [y for q in t["parts"] for y in q["exons"]]
            if not gtf:
                lines.append(gen_db.gff_line(seqid, "mRNA", min(x["start"] for x in mine), max(x["end"] for x in mine),
                                             strand, [("ID", [tid]), ("Parent", [gid])]))
            block = [("exon", x) for x in t["exons"]]
            for q in t["parts"]:
                block.append(("part", {"start": min(x["start"] for x in q["exons"]), "end": max(x["end"] for x in q["exons"]),
                                       "attrs": {"ID": [q["id"]], "Parent": [tid]}}))
                block += [("exon", x) for x in q["exons"]]
            r2.shuffle(block)
            for ft, x in block:
                if id(x) in emitted:
                    continue                    # an exon shared with an earlier transcript: its line is already written
                emitted.add(id(x))
                mk = gen_db.gtf_line if gtf else gen_db.gff_line
                lines.append(mk(seqid, ft, x["start"], x["end"], x.get("strand", strand), list(x["attrs"].items())))
    return lines, models


def expected_introns(models, merge_attributes):
    """from the property text: per transcript, the gaps between its start-ordered exons (one base at least), stranded
    like the exons, attributes = per-key sorted union of the two neighbouring exons (several IDs joined by '-')"""
    out = []
    for m in models:
        for t in m["tx"]:
            ex = sorted(t["exons"], key=lambda x: x["start"])
            for p, n in zip(ex, ex[1:]):
                if p["end"] + 1 <= n["start"] - 1:
                    attrs = oracle_union(p["attrs"], n["attrs"], False) if merge_attributes else {}
                    if len(attrs.get("ID", [])) > 1:
                        attrs["ID"] = ["-".join(attrs["ID"])]
                    ps, ns = p.get("strand", m["strand"]), n.get("strand", m["strand"])
                    out.append({"seqid": m["seqid"], "start": p["end"] + 1, "end": n["start"] - 1,
                                "strand": ps if ps == ns else ".", "tstrand": m["strand"], "attributes": attrs})
    return out


def _canon_feats(feats):
    return sorted((f["seqid"], f["start"], f["end"], f["strand"], f.get("featuretype", ""),
                   sorted((k, list(v)) for k, v in f["attributes"].items())) for f in feats)


def _obs_feats(feats, with_type):
    return [{"seqid": f.seqid, "start": f.start, "end": f.end, "strand": f.strand,
             "featuretype": f.featuretype if with_type else "",
             "attributes": {k: list(f.attributes[k]) for k in f.attributes.keys()}} for f in feats]


def judge_gene_models(ctx, res, case):
    """import the file of `case` with the real code, run create_introns / create_splice_sites with the case's keyword
    arguments and judge them against the gaps computed from the generator's record of the exons.  Returns what was
    observed (for the correspondence), None when the import failed."""
    import gffutils
    lines, kw, models = case["input"], dict(case.get("kwargs", {})), case["models"]
    path = dbside.write_lines(os.path.join(ctx.scratch, "introns." + ("gtf" if case.get("gtf") else "gff3")), lines)
    db, rep = dbside.py_create(path, dbside.Cfg())
    if db is None:
        common.fail(res, case, "create_db_raised", "create_db raised on a gene model: " + rep, error=rep)
        return None
    obs = {"create": rep}
    before = dbside.dump(db)
    schema = lambda: [tuple(x) for x in db.conn.execute("SELECT type, name, tbl_name, sql FROM sqlite_master ORDER BY type, name")]
    schema_before = schema()
    ma = kw.get("merge_attributes", True)
    judge = not case.get("deep")
    want = expected_introns(models, ma)
    try:
        introns = list(db.create_introns(**kw))
        obs["introns"] = introns
    except Exception as ex:
        common.fail(res, case, "create_introns_raised", "create_introns raised %r" % ex, error=pyside.err_name(ex))
        return obs
    if judge:
        got = _obs_feats(introns, False)
        if ([g[:4] for g in _canon_feats(got)] != [w[:4] for w in _canon_feats(want)]
                or any(f.featuretype != "intron" for f in introns)):
            common.fail(res, case, "introns_not_the_gaps",
                        "create_introns does not yield exactly the gaps between the start-ordered exons of each transcript",
                        returned=[g[:4] for g in _canon_feats(got)], expected=[w[:4] for w in _canon_feats(want)])
        elif _canon_feats(got) != _canon_feats(want):
            bad = [g for g in _canon_feats(got) if g not in _canon_feats(want)]
            miss = [w for w in _canon_feats(want) if w not in _canon_feats(got)]
            common.fail(res, case, "intron_attributes_not_the_union",
                        "an intron's attributes are not the per-key sorted union of its two neighbouring exons' values",
                        returned=bad[:3], expected=miss[:3])
        for f in introns:
            if f.bin != gffutils.bins.bins(f.start, f.end, one=True):
                common.fail(res, case, "intron_bin_wrong", "an intron's bin is not bins(start, end)", intron=str(f))
    # splice sites
    try:
        sites = list(db.create_splice_sites(**kw))
        obs["sites"] = sites
    except Exception as ex:
        common.fail(res, case, "create_splice_sites_raised", "create_splice_sites raised %r" % ex, error=pyside.err_name(ex))
        sites = None
    if judge and sites is not None:
        exp_sites = []
        for side in ("left", "right"):
            for w in want:
                if side == "left":
                    ft = {"+": "five_prime_cis_splice_site", "-": "three_prime_cis_splice_site"}.get(w["tstrand"], "splice_site")
                    a, b = w["start"], w["start"] + 1
                else:
                    ft = {"+": "three_prime_cis_splice_site", "-": "five_prime_cis_splice_site"}.get(w["tstrand"], "splice_site")
                    a, b = w["end"] - 1, w["end"]
                attrs = {k: list(v) for k, v in w["attributes"].items()}
                if "ID" in attrs:
                    attrs["ID"] = [ft + "_" + attrs["ID"][0]]
                exp_sites.append({"seqid": w["seqid"], "start": a, "end": b, "strand": w["strand"], "featuretype": ft,
                                  "attributes": attrs})
        got = _obs_feats(sites, True)
        half = len(got) // 2
        geo = lambda fs: [x[:5] for x in _canon_feats(fs)]
        if not (geo(got) == geo(exp_sites) and geo(got[:half]) == geo(exp_sites[:half])):
            common.fail(res, case, "splice_sites_wrong",
                        "create_splice_sites does not yield the two-base sites [start,start+1] / [end-1,end] of each "
                        "intron labelled by side and strand (left sites first)", returned=geo(got), expected=geo(exp_sites))
        elif _canon_feats(got) != _canon_feats(exp_sites):
            bad = [g for g in _canon_feats(got) if g not in _canon_feats(exp_sites)]
            miss = [w for w in _canon_feats(exp_sites) if w not in _canon_feats(got)]
            common.fail(res, case, "splice_site_attributes_wrong",
                        "a splice site's attributes are not the union of its intron's neighbouring exons with the ID "
                        "prefixed by the site type", returned=bad[:3], expected=miss[:3])
    if dbside.dump(db) != before:
        common.fail(res, case, "database_changed", "create_introns / create_splice_sites changed the database")
    elif schema() != schema_before:
        common.fail(res, case, "database_changed",
                    "create_introns / create_splice_sites changed the database (its schema objects: tables / indexes)",
                    before=[x[:2] for x in schema_before], after=[x[:2] for x in schema()])
    return obs


def judge(ctx, case):
    res = common.Result("C15")
    if case.get("scenario") == "gene_models":
        judge_gene_models(ctx, res, case)
        res.evaluations = 1
    return res


def run(ctx):
    from gffutils import helpers
    res = common.Result("C15")
    r = ctx.rng("c15")
    res.rule = ("(a) every ordered list of <= 3 intervals over 5 positions on one seqid (quick: lists of 3 thinned to "
                "1/3) and with a seqid change at every position; (b) random lists of 1-8 features over 12 positions "
                "(gaps, adjacency, overlap, nesting, seqid changes, mixed strands, multi-valued attributes incl. "
                "numeric ones and valueless keys = empty value lists), merge_attributes on/off, numeric_sort on/off, "
                "update_attributes, new_featuretype; (b2) directed pairs with a key that is valueless in one neighbour; "
                "(c) merge_attributes directly; (d) None coordinates (correspondence only). non-trivial = distinct "
                "(options, list) with >= 2 features")
    db = FL.new_db()
    changes0 = db.conn.total_changes
    cmds, exp, tags = [], [], []

    def case(items, kw, payload, judge=True):
        objs = [it.build() for it in items]
        before = snapshot(objs)
        cmds.append(FL.cmd_interf(db, items, **kw))
        outs, err = FL.run_interf(db, objs, **kw)
        exp.append(FL.enc_interf_reply(outs, err))
        tags.append(payload)
        res.evaluations += 1
        if not judge:
            return
        if err:
            res.oracle_failures.append(("interfeatures raised %s on features with integer coordinates" % err, payload))
            return
        want = oracle_gaps(objs, kw.get("new_featuretype"), kw.get("merge_attributes", True),
                           kw.get("numeric_sort", False), kw.get("update_attributes"))
        got = observed(outs)
        if got != want:
            res.oracle_failures.append(("interfeatures differs from the gap function of the property: got %r, expected %r"
                                        % (got, want), payload))
        if snapshot(objs) != before:
            res.oracle_failures.append(("an input feature changed", payload))
        # N - 1 law
        if len(objs) >= 1 and all(p.seqid == n.seqid and p.end + 2 <= n.start for p, n in zip(objs, objs[1:])):
            res.count("positive_gaps_everywhere")
            if len(outs) != len(objs) - 1:
                res.oracle_failures.append(("N features with positive gaps gave %d interfeatures" % len(outs), payload))

    # (a) exhaustive geometry -----------------------------------------------------------------------------------
    ivs = [(s, e) for s in range(1, 6) for e in range(s, 6)]
    na = 0
    for k in (1, 2, 3):
        for lst in itertools.product(ivs, repeat=k):
            na += 1
            if k == 3 and not ctx.thorough and na % 3 != ctx.seed % 3:
                continue
            for cut in ([None] if k == 1 else [None] + list(range(1, k))):
                if k == 3 and cut is not None and na % 2:
                    continue
                items = [FL.Item(FL.gff_line("c1" if (cut is None or i < cut) else "c2", s, e,
                                             "+" if (i + na) % 3 else "-", "exon", attrs="ID=e%d;Parent=t" % i))
                         for i, (s, e) in enumerate(lst)]
                kw = {"merge_attributes": True}
                payload = {"stream": "exhaustive", "options": kw, "features": [it.as_json() for it in items]}
                case(items, kw, payload)
                res.count("exhaustive_k%d" % k)
                if k >= 2:
                    res.nontriv(("x", lst, cut))

    # (b) random ---------------------------------------------------------------------------------------------
    nb = 6000 if not ctx.thorough else 80000
    for t in range(nb):
        n = r.randrange(1, 9)
        items = rand_items(r, n)
        if t % 7 == 0:
            # start-ordered with positive gaps: the N-1 law is exercised often
            pos = 1
            items2 = []
            for i, it in enumerate(items):
                cols = it.line.split("\t")
                ln = r.randrange(0, 3)
                cols[0] = "c1"
                cols[3], cols[4] = str(pos), str(pos + ln)
                pos += ln + r.randrange(2, 4)
                items2.append(FL.Item("\t".join(cols), it.id, it.file_order))
            items = items2
        kw = {"new_featuretype": r.choice([None, None, "intron"]), "merge_attributes": r.random() < 0.75,
              "numeric_sort": r.random() < 0.5, "update_attributes": r.choice(UPDATES)}
        vals_ok = all(in_domain(v) for it in items for part in it.line.split("\t")[8].split(";") if "=" in part
                      for v in part.split("=", 1)[1].split(","))
        payload = {"stream": "random", "options": kw, "features": [it.as_json() for it in items]}
        if not vals_ok:          # cannot happen with the pools above; guards the domain statement
            res.count("outside_decimal_domain")
            continue
        case(items, kw, payload)
        res.count("random")
        res.count("opt_merge_%s_numeric_%s" % (kw["merge_attributes"], kw["numeric_sort"]))
        if n >= 2:
            res.nontriv(("r", t))
        if t < 3:
            res.sample(payload)

    # (b2) directed: a key present in both neighbours, EMPTY (valueless `Note` / `Dbxref=`) in one and non-empty in the
    # other, both ways round, alone and next to other keys -------------------------------------------------------
    for earlier, later in itertools.product(["Note=first", "Note", "Note=", "Note=b,a", "ID=a;Note=x;Dbxref=X:2,X:1",
                                             "ID=a;Note;Dbxref", "n=10,9;Note"],
                                            ["Note", "Note=", "Note=second", "ID=b;Note;Dbxref=", "ID=b;Note=y;Dbxref=X:3",
                                             "n;Note=z"]):
        for ns in (False, True):
            items = [FL.Item(FL.gff_line("c1", 1, 3, "+", "exon", attrs=earlier)),
                     FL.Item(FL.gff_line("c1", 7, 9, "+", "exon", attrs=later)),
                     FL.Item(FL.gff_line("c1", 12, 13, "+", "exon", attrs=earlier))]
            kw = {"merge_attributes": True, "numeric_sort": ns}
            payload = {"stream": "valueless-key", "options": kw, "features": [it.as_json() for it in items]}
            case(items, kw, payload)
            res.count("valueless_key_directed")
            res.nontriv(("vk", earlier, later, ns))

    # (c) merge_attributes ----------------------------------------------------------------------------------------
    nc = 3000 if not ctx.thorough else 30000
    mcmds, mexp, mtags = [], [], []
    for t in range(nc):
        def rd():
            d = {}
            for k in r.sample(["ID", "Parent", "n", "Name", "z"], r.randrange(0, 5)):
                pool = NUMVALS if (k == "n" and r.random() < 0.7) else NUMVALS + WORDVALS
                d[k] = r.sample(pool, r.randrange(1, 4)) if r.random() < 0.85 else []      # [] = a valueless key
            return d
        a1, a2 = rd(), rd()
        ns = r.random() < 0.5
        from gffutils.attributes import Attributes
        A1, A2 = Attributes(a1), Attributes(a2)
        try:
            got = helpers.merge_attributes(A1, A2, numeric_sort=ns)
            rep = pyside.enc_attrs(got)
        except Exception as ex:
            got, rep = None, "err " + pyside.err_name(ex)
        res.evaluations += 1
        res.count("merge_attributes")
        want = oracle_union(a1, a2, ns)
        if got is None or dict(got) != want:
            res.oracle_failures.append(("merge_attributes is not the per-key sorted union",
                                        {"attr1": a1, "attr2": a2, "numeric_sort": ns, "got": got, "expected": want}))
        if dict(A1._d) != a1 or dict(A2._d) != a2:
            res.oracle_failures.append(("merge_attributes changed its arguments", {"attr1": a1, "attr2": a2}))
        mcmds.append("mattr %s %s %s" % (pyside.enc_attrs(a1), pyside.enc_attrs(a2), pyside.enc_bool(ns)))
        mexp.append(rep)
        mtags.append({"attr1": a1, "attr2": a2, "numeric_sort": ns})

    # (d) None coordinates: TypeError on a same-seqid pair - correspondence only ---------------------------------
    nd = 800 if not ctx.thorough else 8000
    for t in range(nd):
        items = rand_items(r, r.randrange(0, 6), none_coords=True)
        kw = {"merge_attributes": r.random() < 0.5, "numeric_sort": False}
        case(items, kw, {"stream": "none-coordinates", "options": kw, "features": [it.as_json() for it in items]},
             judge=False)
        res.count("none_coordinates_stream")

    if db.conn.total_changes != changes0:
        res.oracle_failures.append(("interfeatures wrote to the database", {"total_changes": db.conn.total_changes}))

    out = ctx.model(cmds + mcmds)
    if out is not None:
        for c, m, e, tag in zip(cmds, out[:len(cmds)], exp, tags):
            res.corr_checked += 1
            if m != e:
                res.corr_disagreements.append(("FeatureDB.interfeatures", tag, m[:1500], e[:1500]))
        for c, m, e, tag in zip(mcmds, out[len(cmds):], mexp, mtags):
            res.corr_checked += 1
            if m != e:
                res.corr_disagreements.append(("helpers.merge_attributes", tag, m[:800], e[:800]))

    # ---- database-backed clauses: create_introns / create_splice_sites ------------------------------------------------
    r2 = ctx.rng("introns")
    dcmds, dexp, dtags = [], [], []
    nmodels = 30 if not ctx.thorough else 400
    ndeep = 10 if not ctx.thorough else 120
    for mi in range(nmodels + ndeep):
        deep = mi >= nmodels
        gtf = (not deep) and r2.random() < 0.4
        lines, models = gene_models(r2, gtf, deep)
        if deep:
            # four levels gene -> mRNA -> part -> exon: which features count as "transcripts" is the code's choice
            # (level-1 children of the grandparent type / the features of the parent type): correspondence only
            kw = r2.choice([{}, {}, {}, dict(grandparent_featuretype=None, parent_featuretype="mRNA"),
                            dict(grandparent_featuretype=None, parent_featuretype="part"),
                            dict(grandparent_featuretype="mRNA")])
        else:
            kw = dict(grandparent_featuretype=None, parent_featuretype="mRNA") if ((not gtf) and r2.random() < 0.3) else {}
        if r2.random() >= 0.7:                    # merge_attributes on / off
            kw = dict(kw, merge_attributes=False)
        case = {"scenario": "gene_models", "input": lines, "gtf": gtf, "deep": deep, "kwargs": kw, "models": models,
                "no_shrink": True}
        obs = judge_gene_models(ctx, res, case)
        if obs is None:
            continue
        res.evaluations += 1
        res.count("gene_models_four_levels" if deep else "gene_models_gtf" if gtf else "gene_models_gff3")
        res.nontriv(("introns", tuple(lines), tuple(sorted(kw.items()))))
        if any(not v for m in models for t in m["tx"] for x in t["exons"] for v in x["attrs"].values()):
            res.count("gene_models_with_valueless_exon_attribute")
        gp = kw.get("grandparent_featuretype", "gene")
        gpw, ptw = enc(gp), enc(kw.get("parent_featuretype"))
        ma = kw.get("merge_attributes", True)
        dcmds.append(dbside.cmd_create(lines, dbside.Cfg())); dexp.append(obs["create"]); dtags.append(("create_db", repr(lines)))
        if "introns" in obs:
            dcmds.append("introns %s %s %s %s %d 0" % (gpw, ptw, enc("exon"), enc("intron"), 1 if ma else 0))
            dexp.append(("FEATS", [pyside.enc_feature(f) for f in obs["introns"]]))
            dtags.append(("create_introns", repr((kw, lines))))
        if "sites" in obs:
            dcmds.append("splice %s %s %s %d 0" % (gpw, ptw, enc("exon"), 1 if ma else 0))
            dexp.append(("FEATS", [pyside.enc_feature(f) for f in obs["sites"]]))
            dtags.append(("create_splice_sites", repr((kw, lines))))
    dout = ctx.model([c for c in dcmds if c]) if dcmds else None
    if dout is not None:
        for c, m, e, (comp, inpx) in zip([c for c in dcmds if c], dout, dexp, dtags):
            res.corr_checked += 1
            if isinstance(e, tuple):
                # children(level=1) of a gene come in unspecified SQL order: compare the yielded features as a multiset
                ms = sorted(m.split(" ", 2)[2].split(" / ")) if m.startswith("ok ") and m.split(" ")[1] != "0" else []
                if ms != sorted(e[1]):
                    res.corr_disagreements.append((comp, inpx[:800], m[:600], " / ".join(e[1])[:600]))
            elif m != e:
                res.corr_disagreements.append((comp, inpx[:800], m[:300], e[:300]))
    res.assumptions = [
        "coordinates are integers (a None coordinate on a same-seqid pair is a TypeError: compared with the model only)",
        "attribute values handed to numeric_sort are in the decimal grammar or do not parse as float at all",
        "update_attributes values are lists of strings; attribute_func is None; constants.always_return_list is True "
        "(the other setting is defect D7, C17)",
        "the property does not say where `score`, `frame` and `id` of an interfeature come from: the code takes them from "
        "the FIRST feature of the seqid run (in-place dict); the model follows it (theorem interfeature_fields), the "
        "oracle does not judge these columns",
        "gene models for create_introns / create_splice_sites: exons of a transcript have pairwise different starts "
        "(SQL leaves ties unordered) and carry an ID attribute",
        "four-level gene models (gene -> mRNA -> part -> exon): the property does not say which features count as the "
        "transcripts / their exons there; create_introns / create_splice_sites are compared with the model only",
    ]
    return res


def replay(ctx, payload):
    inp = payload.get("input", {})
    if isinstance(inp, dict) and inp.get("scenario") == "gene_models":
        return common.replay_failure("C15", payload, lambda case: judge(ctx, case))
    res = common.Result("C15")
    db = FL.new_db()
    if "features" in inp:
        items = [FL.Item.from_json(d) for d in inp["features"]]
        kw = dict(inp.get("options", {}))
        objs = [it.build() for it in items]
        outs, err = FL.run_interf(db, objs, **kw)
        want = oracle_gaps(objs, kw.get("new_featuretype"), kw.get("merge_attributes", True),
                           kw.get("numeric_sort", False), kw.get("update_attributes")) if not err else None
        got = observed(outs) if outs is not None else err
        res.evaluations = 1
        print("replay: interfeatures(%s, %s) -> %r ; expected %r" % ([it.line for it in items], kw, got, want))
        if err or got != want:
            res.oracle_failures.append((payload.get("what", "differs"), inp))
    elif "attr1" in inp:
        from gffutils import helpers
        from gffutils.attributes import Attributes
        got = helpers.merge_attributes(Attributes(inp["attr1"]), Attributes(inp["attr2"]), numeric_sort=inp["numeric_sort"])
        want = oracle_union(inp["attr1"], inp["attr2"], inp["numeric_sort"])
        print("replay: merge_attributes -> %r ; expected %r" % (got, want))
        res.evaluations = 1
        if dict(got) != want:
            res.oracle_failures.append((payload.get("what", "differs"), inp))
    return res
