"""C10 - update/delete histories leave exactly the modelled content; ids never recycle.

correspondence: histories over {update(features, strategy), delete(ids), add_relation, reopen} on file databases vs
the Lean session model (Interface.update / delete / addRelation / openDb), full table dump after every step.
oracle (real code only): an independent reference dict/sets model of the same steps; counters monotone, keys never
recycled across updates and reopenings; '.bak' equals the pre-operation database even when the feature source fails.
"""
import os
import shutil
import sqlite3
import warnings

import common
import dbside
import gen_db
from common import enc, dec

TRUSTED = ["sqlite transactions across the two connections FeatureDB.update uses, shutil.copy2 of a quiescent database file"]
LEANCHECKER_MODULES = ["GffProofs.Props.C10"]


def feat_line(fid, parents, ftype="exon", start=10, source="src"):
    attrs = ([("ID", [fid])] if fid else []) + ([("Parent", parents)] if parents else [])
    return gen_db.gff_line("chr1", ftype, start, start + 50, "+", attrs, source=source)


class Ref:
    """reference of the property: features keyed by id, level-1 relations from Parent, level-2 = composition of two
    level-1 edges computed when an update runs (for stored grandparents), delete removes the feature and every
    relation naming it, counters only grow."""

    def __init__(self):
        self.features = {}      # id -> line-ish tuple (ftype, start, frozenset(parents))
        self.rel = set()        # (p, c, level)
        self.counters = {}
        self.handed = set()     # every auto-generated key ever handed out

    def incr(self, base):
        self.counters[base] = self.counters.get(base, 0) + 1
        k = "%s_%d" % (base, self.counters[base])
        return k

    def update(self, feats, strategy):
        """feats: list of (id or None, parents, ftype, start). returns 'ok' | 'error'"""
        if not feats:
            return "ok"
        for fid, parents, ftype, start in feats:
            key = fid
            if key is None:
                key = self.incr(ftype)
                self.handed.add(key)
            if key in self.features:
                if strategy == "error":
                    return "error"
                if strategy == "warning":
                    continue
                if strategy == "replace":
                    pass
                if strategy == "create_unique":
                    key = self.incr(key)
                    self.handed.add(key)
                    if key in self.features:
                        return "abort"
            self.features[key] = (ftype, start, tuple(parents))
            for p in parents:
                self.rel.add((p, key, 1))
        l1 = {}
        for p, c, l in self.rel:
            if l == 1:
                l1.setdefault(p, set()).add(c)
        for x in list(self.features):
            for y in l1.get(x, ()):
                for z in l1.get(y, ()):
                    self.rel.add((x, z, 2))
        return "ok"

    def delete(self, ids):
        for i in ids:
            self.features.pop(i, None)
            self.rel = {(p, c, l) for p, c, l in self.rel if p != i and c != i}

    def add_relation(self, p, c, level):
        if p not in self.features or c not in self.features:
            return "notfound"
        if (p, c, level) in self.rel:
            return "integrity"
        self.rel.add((p, c, level))
        return "ok"


def observe(db):
    feats = {}
    for x in dbside.rows_of(db):
        feats[str(x["id"])] = (x["featuretype"], x["start"], tuple(x["attributes"].get("Parent", [])))
    return feats, set(dbside.rels_of(db))


def rand_update(r, ids_pool):
    n = r.choice([0, 1, 1, 2, 3])
    feats = []
    for _ in range(n):
        fid = r.choice(ids_pool + [None, None])
        parents = r.sample(ids_pool, r.choice([0, 1, 1, 2]))
        parents = [p for p in parents if p != fid]
        feats.append((fid, parents, r.choice(["exon", "mRNA"]), r.randrange(1, 900)))
    return feats


BASE_LINES = [feat_line("a", []), feat_line("b", ["a"]), feat_line("c", ["b"]), feat_line("d", ["c"])]
BASE_FEATS = [("a", [], "exon", 10), ("b", ["a"], "exon", 10), ("c", ["b"], "exon", 10), ("d", ["c"], "exon", 10)]
BACKUP_LINES = [feat_line("e", ["d"]), feat_line(None, ["a"]), feat_line("f", ["e"])]


def jsonable_history(hist):
    """steps as JSON lists: ["update", [[id|null, [parents], featuretype, start], ...], strategy] | ["delete", [ids]] |
    ["addrel", parent, child, level] | ["reopen"]"""
    return [[list(x) if isinstance(x, tuple) else ([list(f) for f in x] if i == 1 and s[0] == "update" else x)
             for i, x in enumerate(s)] for s in hist]


def play(ctx, name, hist, res, cmds, exp, tags):
    """one history on a fresh file database built from BASE_LINES, step by step against the reference; the
    correspondence commands of the steps are appended to cmds/exp/tags.  returns the number of state-changing steps"""
    import gffutils
    cfg0 = dbside.Cfg()
    # a fresh file name per history: a failed update of an earlier history may leave a rollback journal next to
    # its database file, which sqlite would apply to a new database created under the same name
    for old in [x for x in os.listdir(ctx.scratch) if x.startswith("h") and ".db" in x]:
        os.unlink(os.path.join(ctx.scratch, old))
    dbfn = os.path.join(ctx.scratch, "h%s.db" % name)
    path = dbside.write_lines(os.path.join(ctx.scratch, "h.gff3"), BASE_LINES)
    db, rep = dbside.py_create(path, cfg0, dbfn=dbfn)
    ref = Ref()
    ref.update(BASE_FEATS, "error")
    cmds.append(dbside.cmd_create(BASE_LINES, cfg0)); exp.append(rep); tags.append(("create_db", "base"))
    changing = 0
    alive = True
    for si, step in enumerate(hist):
        res.evaluations += 1
        res.count(step[0])
        inp = {"base": BASE_LINES, "history": [list(map(str, s)) for s in hist[: si + 1]]}
        case = {"scenario": "history", "base": BASE_LINES, "input": jsonable_history(hist[: si + 1]),
                "config": cfg0.to_json()}
        if step[0] == "update":
            _, feats, strategy = step
            lines = [feat_line(fid, parents, ftype, start) for fid, parents, ftype, start in feats]
            upath = dbside.write_lines(os.path.join(ctx.scratch, "u.gff3"), lines)
            cfg = dbside.Cfg(strategy=strategy)
            want = ref.update(feats, strategy)
            exc = None
            try:
                with warnings.catch_warnings():
                    warnings.simplefilter("ignore")
                    if lines:
                        db.update(upath, make_backup=False, **cfg.update_kwargs())
                    else:
                        db.update(iter([]), make_backup=False, **cfg.update_kwargs())
                got = "ok"
            except Exception as ex:
                got = "err " + dbside.err_name(ex)
                inp["exception"] = exc = repr(ex)
            cmds.append(dbside.cmd_update(lines, cfg)); exp.append(got); tags.append(("update", repr(inp)))
            if want != "ok":
                if got == "ok":
                    common.fail(res, case, "update_duplicate_not_failed",
                                "update with a duplicate key did not fail under merge_strategy=%r" % strategy,
                                observed=got, expected="an exception", update_lines=lines)
                alive = False
                break
            if got != "ok":
                common.fail(res, case, "update_raised",
                            "update raised (%s) although the strategy prescribes an outcome" % got,
                            error=got, observed=exc, expected="ok", update_lines=lines)
                alive = False
                break
            changing += 1 if feats else 0
        elif step[0] == "delete":
            ref.delete(step[1])
            # the accepted argument forms (ids, Feature objects, a bare id, a bare Feature), chosen from the step itself
            form = sum(len(x) for x in step[1]) % 4
            victims = list(step[1])
            if form in (1, 3):
                objs = []
                for x in victims:
                    try:
                        objs.append(db[x])
                    except gffutils.FeatureNotFoundError:
                        objs.append(x)
                victims = objs
            if form >= 2 and len(victims) == 1:
                victims = victims[0]
            db.delete(victims, make_backup=False)
            cmds.append("delete " + dbside.enc_list(step[1])); exp.append("ok"); tags.append(("delete", repr(inp)))
            changing += 1
        elif step[0] == "addrel":
            _, p, c, l = step
            want = ref.add_relation(p, c, l)
            try:
                if (len(p) + len(c)) % 3 == 0:
                    # with callbacks that hand the features back unchanged: both rows are rewritten with the same content
                    db.add_relation(p, c, l, parent_func=lambda pa, ch: pa, child_func=lambda pa, ch: ch)
                else:
                    db.add_relation(p, c, l)
                got = "ok"
            except gffutils.FeatureNotFoundError:
                got = "err FeatureNotFoundError"
            except sqlite3.IntegrityError:
                got = "err IntegrityError"
                db.conn.rollback()
            cmds.append("addrel %s %s %d" % (enc(p), enc(c), l)); exp.append(got); tags.append(("add_relation", repr(inp)))
            if (want == "ok") != (got == "ok"):
                common.fail(res, case, "add_relation_outcome", "add_relation outcome %s, reference %s" % (got, want),
                            observed=got, expected=want)
            changing += 1 if got == "ok" else 0
        else:
            db.conn.commit()
            db = gffutils.FeatureDB(dbfn)
            cmds.append("reopen"); exp.append("ok"); tags.append(("reopen", repr(inp)))
        feats_now, rel_now = observe(db)
        if feats_now != ref.features or rel_now != ref.rel:
            common.fail(res, case, "state_differs_from_reference",
                        "after the history the features/relations differ from the reference model",
                        extra_features=sorted(set(feats_now) - set(ref.features)),
                        missing_features=sorted(set(ref.features) - set(feats_now)),
                        changed=[k for k in feats_now if k in ref.features and feats_now[k] != ref.features[k]],
                        extra_relations=sorted(rel_now - ref.rel), missing_relations=sorted(ref.rel - rel_now))
            alive = False
            break
        cmds.append("dump"); exp.append(dbside.dump(db)); tags.append(("tables after step", repr(inp)))
    if alive:
        # keys never recycled: every auto key handed out is unique (handed is a set; check the counter table)
        db.conn.commit()
        db2 = gffutils.FeatureDB(dbfn)
        pa = dbside.pauto_of(db2)
        for base, n in ref.counters.items():
            if pa.get(base, 0) < n:
                common.fail(res, {"scenario": "history", "base": BASE_LINES, "input": jsonable_history(hist),
                                  "config": cfg0.to_json()}, "persistent_counter_behind",
                            "the persistent counter for %r is behind the keys handed out" % base,
                            counter_base=base, observed=pa.get(base, 0), expected=n)
    return changing


def check_backup(ctx, case, res):
    """make_backup=True: the .bak file is the complete pre-operation database, also when the source of the operation
    fails at position fail_at"""
    import gffutils
    from gffutils.feature import feature_from_line
    op, fail_at, lines = case["op"], case["fail_at"], case["input"]
    for old in [x for x in os.listdir(ctx.scratch) if x.startswith("b") and ".db" in x]:
        os.unlink(os.path.join(ctx.scratch, old))
    dbfn = os.path.join(ctx.scratch, "b%s_%s.db" % (fail_at, op))
    path = dbside.write_lines(os.path.join(ctx.scratch, "b.gff3"), case["base"])
    db, rep = dbside.py_create(path, dbside.Cfg.from_json(case["config"]), dbfn=dbfn)
    db.conn.commit()
    before = dbside.dump(gffutils.FeatureDB(dbfn))
    res.evaluations += 1

    def source():
        for i, l in enumerate(lines):
            if fail_at is not None and i == fail_at:
                raise RuntimeError("source failed")
            yield feature_from_line(l)
        if fail_at == 3:
            raise RuntimeError("source failed at the end")
    try:
        with warnings.catch_warnings():
            warnings.simplefilter("ignore")
            if op == "update":
                db.update(source(), make_backup=True, merge_strategy="error")
            else:
                def ids():
                    for i, x in enumerate(case["delete_ids"]):
                        if fail_at is not None and i == fail_at:
                            raise RuntimeError("source failed")
                        yield x
                db.delete(ids(), make_backup=True)
        outcome = "ok"
    except RuntimeError:
        outcome = "failed"
    except Exception as ex:
        outcome = "raised %r" % ex
    if not os.path.exists(dbfn + ".bak"):
        common.fail(res, case, "no_bak_file", "make_backup=True left no .bak file", outcome=outcome)
        return
    bak = dbside.dump(gffutils.FeatureDB(dbfn + ".bak"))
    if bak != before:
        common.fail(res, case, "bak_not_preoperation_database",
                    "the .bak file is not the complete pre-operation database",
                    outcome=outcome, observed=bak, expected=before)
    res.count("backup_%s_%s" % (op, outcome))


JUDGED = [0]


def judge(ctx, case):
    res = common.Result("C10")
    if case["scenario"] == "backup":
        check_backup(ctx, case, res)
    elif case["scenario"] == "history" and list(case.get("base", BASE_LINES)) == BASE_LINES:
        JUDGED[0] += 1
        play(ctx, "j%d" % JUDGED[0], case["input"], res, [], [], [])
    return res


def run(ctx):
    import gffutils
    res = common.Result("C10")
    r = ctx.rng("c10")
    res.rule = ("histories of 1-8 steps over update(0-3 features with/without ID and Parent values forming chains up to "
                "depth 4; strategies error/warning/replace/create_unique), delete(ids), add_relation, reopen on file "
                "databases (exhaustive to depth 2 over a 9-op alphabet + random deeper); the feature source of an update "
                "failing at every position; make_backup. non-trivial = distinct history with >= 2 state-changing steps")
    cmds, exp, tags = [], [], []
    pool = ["a", "b", "c", "d", "e"]
    alphabet = [
        ("update", [("e", ["d"], "exon", 5)], "error"),
        ("update", [(None, ["a"], "exon", 7), (None, [], "exon", 8)], "error"),
        ("update", [("b", ["a"], "mRNA", 99)], "replace"),
        ("update", [("c", ["a"], "exon", 3)], "create_unique"),
        ("update", [], "error"),
        ("delete", ["b"]),
        ("delete", ["zz", "d"]),
        ("addrel", "a", "d", 1),
        ("reopen",),
    ]
    histories = []
    for x in alphabet:
        histories.append([x])
        for y in alphabet:
            histories.append([x, y])
    nrand = 60 if not ctx.thorough else 800
    for _ in range(nrand):
        h = []
        for _ in range(r.randrange(3, 9)):
            k = r.random()
            if k < 0.5:
                h.append(("update", rand_update(r, pool), r.choice(["error", "warning", "replace", "create_unique"])))
            elif k < 0.7:
                h.append(("delete", r.sample(pool + ["exon_1", "exon_2", "zz"], r.choice([1, 1, 2]))))
            elif k < 0.85:
                h.append(("addrel", r.choice(pool), r.choice(pool), r.choice([1, 2])))
            else:
                h.append(("reopen",))
        histories.append(h)
    if not ctx.thorough:
        histories = histories[:: 1]
    cfg0 = dbside.Cfg()
    for hi, hist in enumerate(histories):
        changing = play(ctx, "%d" % hi, hist, res, cmds, exp, tags)
        if changing >= 2:
            res.nontriv(repr(hist))
        if len(res.samples) < 2 and len(hist) > 2:
            res.sample({"history": [list(map(str, s)) for s in hist]})

    # backup completeness, also when the source fails at every position ------------------------------------
    for fail_at in [None, 0, 1, 2, 3]:
        for op in ("update", "delete"):
            check_backup(ctx, {"scenario": "backup", "op": op, "fail_at": fail_at, "base": BASE_LINES,
                               "input": BACKUP_LINES, "delete_ids": ["b", "c", "d"], "config": cfg0.to_json(),
                               "no_shrink": True}, res)
    out = ctx.model(cmds)
    if out is not None:
        for c, m, e, (comp, inp) in zip(cmds, out, exp, tags):
            res.corr_checked += 1
            if m != e:
                res.corr_disagreements.append((comp, inp[:900], m[:600], e[:600]))
    res.assumptions = ["one merge configuration per update; ids free of tab", "a failed update's effect on the main file is "
                       "not specified by the property beyond the backup (sqlite transaction behaviour)"]
    common.shrink_first_failure(res, lambda case: judge(ctx, case))
    return res


def replay(ctx, payload):
    return common.replay_failure("C10", payload, lambda case: judge(ctx, case))
