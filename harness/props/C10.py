"""C10 - update/delete histories leave exactly the modelled content; ids never recycle.

correspondence: histories over {update(features, strategy), delete(ids), add_relation, reopen} on file databases vs
the Lean session model (Interface.update / delete / addRelation / openDb), full table dump after every step.
oracle (real code only): an independent reference dict/sets model of the same steps; counters monotone, keys never
recycled across updates and reopenings - also after an update that FAILED part-way (feature source raising behind
the dialect peek, duplicate id, a merge_strategy="merge" clash that commits mid-import); '.bak' equals the
pre-operation database even when the feature source fails.
file level (GffModel/World.lean through ProtoWorld): the same faulty histories and make_backup scripts run through
`World.step`, the world (which files exist, content of main file and .bak, session counters) compared after every step.
"""
import gc
import os
import shutil
import sqlite3
import warnings

import common
import dbside
import gen_db
import worldside
from common import enc, dec

TRUSTED = ["sqlite transactions across the two connections FeatureDB.update uses, shutil.copy2 of a quiescent database file"]
LEANCHECKER_MODULES = ["GffProofs.Props.C10"]


def feat_line(fid, parents, ftype="exon", start=10, source="src"):
    attrs = ([("ID", [fid])] if fid else []) + ([("Parent", parents)] if parents else [])
    return gen_db.gff_line("chr1", ftype, start, start + 50, "+", attrs, source=source)


class Ref:
    """reference of the property: features keyed by id, level-1 relations from Parent, level-2 = composition of two
    level-1 edges computed when an update runs (for stored grandparents), delete removes the feature and every
    relation naming it, counters only grow."""

    def __init__(self):
        self.features = {}      # id -> line-ish tuple (ftype, start, frozenset(parents))
        self.rel = set()        # (p, c, level)
        self.counters = {}
        self.handed = set()     # every auto-generated key ever handed out

    def incr(self, base):
        self.counters[base] = self.counters.get(base, 0) + 1
        k = "%s_%d" % (base, self.counters[base])
        return k

    def update(self, feats, strategy):
        """feats: list of (id or None, parents, ftype, start). returns 'ok' | 'error'"""
        if not feats:
            return "ok"
        for fid, parents, ftype, start in feats:
            key = fid
            if key is None:
                key = self.incr(ftype)
                self.handed.add(key)
            if key in self.features:
                if strategy == "error":
                    return "error"
                if strategy == "warning":
                    continue
                if strategy == "replace":
                    pass
                if strategy == "create_unique":
                    key = self.incr(key)
                    self.handed.add(key)
                    if key in self.features:
                        return "abort"
            self.features[key] = (ftype, start, tuple(parents))
            for p in parents:
                self.rel.add((p, key, 1))
        l1 = {}
        for p, c, l in self.rel:
            if l == 1:
                l1.setdefault(p, set()).add(c)
        for x in list(self.features):
            for y in l1.get(x, ()):
                for z in l1.get(y, ()):
                    self.rel.add((x, z, 2))
        return "ok"

    def delete(self, ids):
        for i in ids:
            self.features.pop(i, None)
            self.rel = {(p, c, l) for p, c, l in self.rel if p != i and c != i}

    def add_relation(self, p, c, level):
        if p not in self.features or c not in self.features:
            return "notfound"
        if (p, c, level) in self.rel:
            return "integrity"
        self.rel.add((p, c, level))
        return "ok"


def observe(db):
    feats = {}
    for x in dbside.rows_of(db):
        feats[str(x["id"])] = (x["featuretype"], x["start"], tuple(x["attributes"].get("Parent", [])))
    return feats, set(dbside.rels_of(db))


def rand_update(r, ids_pool):
    n = r.choice([0, 1, 1, 2, 3])
    feats = []
    for _ in range(n):
        fid = r.choice(ids_pool + [None, None])
        parents = r.sample(ids_pool, r.choice([0, 1, 1, 2]))
        parents = [p for p in parents if p != fid]
        feats.append((fid, parents, r.choice(["exon", "mRNA"]), r.randrange(1, 900)))
    return feats


def big_update(r, ids_pool, n, tag):
    """n features with new ids '<tag><j>' (a few without ID: auto-generated keys), parents from the pool / earlier ones"""
    feats = []
    for j in range(n):
        fid = None if r.random() < 0.15 else "%s%d" % (tag, j)
        earlier = [f[0] for f in feats if f[0] is not None]
        parents = r.sample(ids_pool + earlier[-2:], r.choice([0, 1, 1, 2]))
        feats.append((fid, parents, r.choice(["exon", "mRNA"]), r.randrange(1, 900)))
    return feats


MOVE_STARTS = [5, 70000, 2 ** 17 - 25, 2 ** 17 + 1, 2 ** 18 + 5, 2 ** 20 - 10, 500000, 3 * 2 ** 17 - 51]


def rand_move(r, ids):
    ns = r.choice(MOVE_STARTS + [r.randrange(1, 900)])
    return ("move", r.choice(ids), ns, ns + r.choice([50, 50, 10, 0, 2 ** 17, 200000]))


BASE_LINES = [feat_line("a", []), feat_line("b", ["a"]), feat_line("c", ["b"]), feat_line("d", ["c"])]
BASE_FEATS = [("a", [], "exon", 10), ("b", ["a"], "exon", 10), ("c", ["b"], "exon", 10), ("d", ["c"], "exon", 10)]
BACKUP_LINES = [feat_line("e", ["d"]), feat_line(None, ["a"]), feat_line("f", ["e"])]


UPDATE_FORMS = ["path", "list", "generator", "iter", "map"]


def _same(f):
    return f


def as_form(form, objs):
    """the Feature objects of an update as a list / generator / iter(list) / map object"""
    return {"list": list(objs), "generator": (f for f in objs), "iter": iter(objs), "map": map(_same, objs)}[form]


def jsonable_history(hist):
    """steps as JSON lists: ["update", [[id|null, [parents], featuretype, start], ...], strategy(, form)] (form: how the
    features reach update(): "path" = a file (default), or Feature objects as "list" / "generator" / "iter" / "map") |
    ["delete", [ids]] | ["addrel", parent, child, level] | ["reopen"] | ["move", id, start, end] (db[id] is fetched, its
    start/end changed, and written back with update([feature], merge_strategy="replace"))"""
    return [[list(x) if isinstance(x, tuple) else ([list(f) for f in x] if i == 1 and s[0] == "update" else x)
             for i, x in enumerate(s)] for s in hist]


def play(ctx, name, hist, res, cmds, exp, tags):
    """one history on a fresh file database built from BASE_LINES, step by step against the reference; the
    correspondence commands of the steps are appended to cmds/exp/tags.  returns the number of state-changing steps"""
    import gffutils
    from gffutils.feature import feature_from_line
    cfg0 = dbside.Cfg()
    # a fresh file name per history: a failed update of an earlier history may leave a rollback journal next to
    # its database file, which sqlite would apply to a new database created under the same name
    for old in [x for x in os.listdir(ctx.scratch) if x.startswith("h") and ".db" in x]:
        os.unlink(os.path.join(ctx.scratch, old))
    dbfn = os.path.join(ctx.scratch, "h%s.db" % name)
    path = dbside.write_lines(os.path.join(ctx.scratch, "h.gff3"), BASE_LINES)
    db, rep = dbside.py_create(path, cfg0, dbfn=dbfn)
    ref = Ref()
    ref.update(BASE_FEATS, "error")
    cmds.append(dbside.cmd_create(BASE_LINES, cfg0)); exp.append(rep); tags.append(("create_db", "base"))
    changing = 0
    alive = True
    for si, step in enumerate(hist):
        res.evaluations += 1
        res.count(step[0])
        inp = {"base": BASE_LINES, "history": [list(map(str, s)) for s in hist[: si + 1]]}
        case = {"scenario": "history", "base": BASE_LINES, "input": jsonable_history(hist[: si + 1]),
                "config": cfg0.to_json()}
        if step[0] == "update":
            feats, strategy = step[1], step[2]
            form = step[3] if len(step) > 3 else "path"
            res.count("update_form_%s_%s" % (form, "0" if not feats else "1-11" if len(feats) <= 11 else "12+"))
            lines = [feat_line(fid, parents, ftype, start) for fid, parents, ftype, start in feats]
            upath = dbside.write_lines(os.path.join(ctx.scratch, "u.gff3"), lines)
            cfg = dbside.Cfg(strategy=strategy)
            want = ref.update(feats, strategy)
            exc = None
            try:
                with warnings.catch_warnings():
                    warnings.simplefilter("ignore")
                    if form != "path":
                        db.update(as_form(form, [feature_from_line(l) for l in lines]), make_backup=False,
                                  **cfg.update_kwargs())
                    elif lines:
                        db.update(upath, make_backup=False, **cfg.update_kwargs())
                    else:
                        db.update(iter([]), make_backup=False, **cfg.update_kwargs())
                got = "ok"
            except Exception as ex:
                got = "err " + dbside.err_name(ex)
                inp["exception"] = exc = repr(ex)
            cmds.append(dbside.cmd_update(lines, cfg)); exp.append(got); tags.append(("update", repr(inp)))
            if want != "ok":
                if got == "ok":
                    common.fail(res, case, "update_duplicate_not_failed",
                                "update with a duplicate key did not fail under merge_strategy=%r" % strategy,
                                observed=got, expected="an exception", update_lines=lines)
                alive = False
                break
            if got != "ok":
                common.fail(res, case, "update_raised",
                            "update raised (%s) although the strategy prescribes an outcome" % got,
                            error=got, observed=exc, expected="ok", update_lines=lines)
                alive = False
                break
            changing += 1 if feats else 0
        elif step[0] == "delete":
            ref.delete(step[1])
            # the accepted argument forms (ids, Feature objects, a bare id, a bare Feature), chosen from the step itself
            form = sum(len(x) for x in step[1]) % 4
            victims = list(step[1])
            if form in (1, 3):
                objs = []
                for x in victims:
                    try:
                        objs.append(db[x])
                    except gffutils.FeatureNotFoundError:
                        objs.append(x)
                victims = objs
            if form >= 2 and len(victims) == 1:
                victims = victims[0]
            db.delete(victims, make_backup=False)
            cmds.append("delete " + dbside.enc_list(step[1])); exp.append("ok"); tags.append(("delete", repr(inp)))
            changing += 1
        elif step[0] == "addrel":
            _, p, c, l = step
            want = ref.add_relation(p, c, l)
            try:
                if (len(p) + len(c)) % 3 == 0:
                    # with callbacks that hand the features back unchanged: both rows are rewritten with the same content
                    db.add_relation(p, c, l, parent_func=lambda pa, ch: pa, child_func=lambda pa, ch: ch)
                else:
                    db.add_relation(p, c, l)
                got = "ok"
            except gffutils.FeatureNotFoundError:
                got = "err FeatureNotFoundError"
            except sqlite3.IntegrityError:
                got = "err IntegrityError"
                db.conn.rollback()
            cmds.append("addrel %s %s %d" % (enc(p), enc(c), l)); exp.append(got); tags.append(("add_relation", repr(inp)))
            if (want == "ok") != (got == "ok"):
                common.fail(res, case, "add_relation_outcome", "add_relation outcome %s, reference %s" % (got, want),
                            observed=got, expected=want)
            changing += 1 if got == "ok" else 0
        elif step[0] == "move":
            # a feature fetched from the database, moved, and written back with merge_strategy="replace"
            _, mid, ns, ne = step
            try:
                f = db[mid]
            except gffutils.FeatureNotFoundError:
                f = None
            if f is not None:
                f.start, f.end = ns, ne
                line = str(f)
                fid = f.attributes["ID"][0] if "ID" in f.attributes else None       # no ID: stored as a new feature
                parents = list(f.attributes["Parent"]) if "Parent" in f.attributes else []
                ref.update([(fid, parents, f.featuretype, ns)], "replace")
                key = fid if fid is not None else "%s_%d" % (f.featuretype, ref.counters[f.featuretype])
                cfg = dbside.Cfg(strategy="replace")
                try:
                    with warnings.catch_warnings():
                        warnings.simplefilter("ignore")
                        db.update([f], make_backup=False, **cfg.update_kwargs())
                    got = "ok"
                except Exception as ex:
                    got = "err " + dbside.err_name(ex)
                    inp["exception"] = repr(ex)
                cmds.append(dbside.cmd_update([line], cfg)); exp.append(got); tags.append(("update (moved feature, replace)", repr(inp)))
                if got != "ok":
                    common.fail(res, case, "update_raised", "writing a moved feature back with merge_strategy='replace' "
                                "raised (%s)" % got, error=got, observed=inp["exception"], expected="ok", update_lines=[line])
                    alive = False
                    break
                # the stored row is the row a fresh import of the same feature line stores (coordinates and bin included)
                with warnings.catch_warnings():
                    warnings.simplefilter("ignore")
                    fresh = dbside.rows_of(gffutils.create_db(dbside.write_lines(os.path.join(ctx.scratch, "mv.gff3"), [line]),
                                                              ":memory:", verbose=False))[0]
                stored = [x for x in dbside.rows_of(db) if str(x["id"]) == key]
                cols = ["seqid", "source", "featuretype", "start", "end", "score", "strand", "frame", "attributes", "extra", "bin"]
                if len(stored) != 1 or [stored[0][k] for k in cols] != [fresh[k] for k in cols]:
                    common.fail(res, case, "moved_feature_row_differs",
                                "a feature fetched, moved and written back with merge_strategy='replace' is not stored like "
                                "the same feature imported afresh (columns, attributes, bin)", id=key, line=line,
                                observed=[[x[k] for k in cols] for x in stored], expected=[fresh[k] for k in cols])
                    cmds.append("dump"); exp.append(dbside.dump(db)); tags.append(("tables after step", repr(inp)))
                    alive = False
                    break
                res.count("move_" + ("across_bin" if fresh["bin"] != f.bin else "within_bin"))
                changing += 1
        else:
            db.conn.commit()
            db = gffutils.FeatureDB(dbfn)
            cmds.append("reopen"); exp.append("ok"); tags.append(("reopen", repr(inp)))
        feats_now, rel_now = observe(db)
        if feats_now != ref.features or rel_now != ref.rel:
            common.fail(res, case, "state_differs_from_reference",
                        "after the history the features/relations differ from the reference model",
                        extra_features=sorted(set(feats_now) - set(ref.features)),
                        missing_features=sorted(set(ref.features) - set(feats_now)),
                        changed=[k for k in feats_now if k in ref.features and feats_now[k] != ref.features[k]],
                        extra_relations=sorted(rel_now - ref.rel), missing_relations=sorted(ref.rel - rel_now))
            alive = False
            break
        cmds.append("dump"); exp.append(dbside.dump(db)); tags.append(("tables after step", repr(inp)))
    if alive:
        # keys never recycled: every auto key handed out is unique (handed is a set; check the counter table)
        db.conn.commit()
        db2 = gffutils.FeatureDB(dbfn)
        pa = dbside.pauto_of(db2)
        for base, n in ref.counters.items():
            if pa.get(base, 0) < n:
                common.fail(res, {"scenario": "history", "base": BASE_LINES, "input": jsonable_history(hist),
                                  "config": cfg0.to_json()}, "persistent_counter_behind",
                            "the persistent counter for %r is behind the keys handed out" % base,
                            counter_base=base, observed=pa.get(base, 0), expected=n)
    return changing


def check_backup(ctx, case, res):
    """make_backup=True: the .bak file is the complete pre-operation database, also when the source of the operation
    fails at position fail_at"""
    import gffutils
    from gffutils.feature import feature_from_line
    op, fail_at, lines = case["op"], case["fail_at"], case["input"]
    checklines = case.get("checklines", 10)      # a source failing at fail_at > checklines fails DURING the import
    for old in [x for x in os.listdir(ctx.scratch) if x.startswith("b") and ".db" in x]:
        os.unlink(os.path.join(ctx.scratch, old))
    dbfn = os.path.join(ctx.scratch, "b%s_%s_%s.db" % (fail_at, op, checklines))
    path = dbside.write_lines(os.path.join(ctx.scratch, "b.gff3"), case["base"])
    db, rep = dbside.py_create(path, dbside.Cfg.from_json(case["config"]), dbfn=dbfn)
    db.conn.commit()
    before = dbside.dump(gffutils.FeatureDB(dbfn))
    res.evaluations += 1

    def source():
        for i, l in enumerate(lines):
            if fail_at is not None and i == fail_at:
                raise RuntimeError("source failed")
            yield feature_from_line(l)
        if fail_at == 3:
            raise RuntimeError("source failed at the end")
    try:
        with warnings.catch_warnings():
            warnings.simplefilter("ignore")
            if op == "update":
                db.update(source(), make_backup=True, merge_strategy="error", checklines=checklines)
            else:
                def ids():
                    for i, x in enumerate(case["delete_ids"]):
                        if fail_at is not None and i == fail_at:
                            raise RuntimeError("source failed")
                        yield x
                db.delete(ids(), make_backup=True)
        outcome = "ok"
    except RuntimeError:
        outcome = "failed"
    except Exception as ex:
        outcome = "raised %r" % ex
    if not os.path.exists(dbfn + ".bak"):
        common.fail(res, case, "no_bak_file", "make_backup=True left no .bak file", outcome=outcome)
        return
    bak = dbside.dump(gffutils.FeatureDB(dbfn + ".bak"))
    if bak != before:
        common.fail(res, case, "bak_not_preoperation_database",
                    "the .bak file is not the complete pre-operation database",
                    outcome=outcome, observed=bak, expected=before)
    res.count("backup_%s_%s" % (op, outcome))
    del db
    gc.collect()


# ---- histories with FAILING updates: keys never recycle ------------------------------------------------------
FAULTY = [0]


def key_number(key, base):
    pre = base + "_"
    return int(key[len(pre):]) if key.startswith(pre) and key[len(pre):].isdigit() else None


def judge_clean_update(res, sub, out, lines, feats, feats_now, rel_now, new_feats, new_rel, seen):
    """an update whose explicit ids are all new relative to the actual content and whose source does not fail:
    False (and a recorded failure) unless it succeeded, added exactly its features, and drew fresh, continuing keys"""
    explicit = [f[0] for f in feats if f[0] is not None]
    if out != "ok":
        common.fail(res, sub, "update_raised_in_faulty_history",
                    "an update whose ids are all new (or auto-generated) raised %s (the history up to it: the import, "
                    "successful updates, updates that failed part-way)" % out, error=out, observed=out, expected="ok", update_lines=lines,
                    database_ids=sorted(feats_now))
        return False
    problems = {}
    added = set(new_feats) - set(feats_now)
    auto_added = added - set(explicit)
    want_auto = sorted((ftype, start, tuple(parents)) for fid, parents, ftype, start in feats if fid is None)
    if set(feats_now) - set(new_feats) or [k for k in feats_now if k in new_feats and feats_now[k] != new_feats[k]]:
        problems["stored_features_changed"] = sorted(set(feats_now) - set(new_feats))
    if not set(explicit) <= added or [f for f in feats if f[0] is not None and new_feats.get(f[0]) != (f[2], f[3], tuple(f[1]))]:
        problems["explicit_features_missing_or_different"] = sorted(set(explicit) - added)
    if sorted(new_feats[k] for k in auto_added) != want_auto:
        problems["auto_keyed_features"] = {"observed": sorted((k,) + new_feats[k] for k in auto_added),
                                           "expected": want_auto}
    if not rel_now <= new_rel or not {(p, k, 1) for k in added for p in new_feats[k][2]} <= new_rel:
        problems["relations_lost_or_missing"] = sorted(rel_now - new_rel)
    if problems:
        common.fail(res, sub, "faulty_history_state_differs",
                    "a successful update after a failed one did not add exactly its features to the actual content",
                    update_lines=lines, **problems)
        return False
    for k in sorted(auto_added):
        base = new_feats[k][0]
        n = key_number(k, base)
        earlier = [m for m in (key_number(x, base) for x in seen) if m is not None]
        if k in seen:
            common.fail(res, sub, "auto_key_recycled",
                        "the auto-generated key %r had been handed out before (it was in the database earlier in this "
                        "history)" % k, observed=k, update_lines=lines)
            return False
        if n is None or (earlier and n <= max(earlier)):
            common.fail(res, sub, "auto_key_numbering_not_continued",
                        "the auto-generated key %r does not continue the numbering of %r (highest handed out before: %s)"
                        % (k, base, max(earlier) if earlier else None), observed=k, update_lines=lines)
            return False
    return True


def render(fmt, feat):
    """the line of one update feature (id|None, parents, featuretype, start): GFF3 with ID / Parent, or - for the GTF
    databases (parents must be empty there) - a GTF line with a gene_id (and transcript_id) of its own and an `ID "..."`
    attribute when it has an id (the GTF cases run under an id_spec that reads ID)"""
    fid, parents, ftype, start = feat
    if fmt != "gtf":
        return feat_line(fid, parents, ftype, start)
    attrs = [("gene_id", ["gu%d" % start])] + ([] if ftype == "gene" else [("transcript_id", ["tu%d" % start])]) + \
        ([("ID", [fid])] if fid else [])
    return gen_db.gtf_line("chr1", ftype, start, start + 50, "+", attrs)


class MemWorld:
    """the steps of worldside.RealWorld on a ':memory:' database: ONE sqlite connection shared by the FeatureDB and by
    the importer of every update (what a failed update wrote stays visible on it); "reopen" is FeatureDB(connection),
    which reads the counters table again.  Oracle only (the World model is about database files)."""

    def __init__(self, scratch):
        self.scratch = scratch
        os.makedirs(scratch, exist_ok=True)
        self.db = None
        self._n = 0

    def _input(self, lines):
        self._n += 1
        return dbside.write_lines(os.path.join(self.scratch, "in%d.txt" % self._n), lines)

    def create(self, name, lines, cfg, force, checklines=10):
        self.db, rep = dbside.py_create(self._input(lines), cfg, dbfn=":memory:", checklines=checklines)
        return rep

    def connect(self, name):
        return "ok"

    def update(self, lines, cfg, backup, fail_at=None, checklines=10):
        import gffutils
        path = self._input(lines)

        def source():
            for i, f in enumerate(gffutils.iterators.DataIterator(path, checklines=checklines)):
                if i == fail_at:
                    raise worldside.SourceBroke("feature source failed at %d" % i)
                yield f
            raise worldside.SourceBroke("feature source failed at the end")
        data = source() if fail_at is not None else path if lines else iter([])
        try:
            with warnings.catch_warnings():
                warnings.simplefilter("ignore")
                self.db.update(data, make_backup=backup, checklines=checklines, **cfg.update_kwargs())
            return "ok"
        except Exception as ex:
            return "err:" + dbside.err_name(ex)

    def delete(self, ids, backup):
        self.db.delete(list(ids), make_backup=backup)

    def reopen(self):
        import gffutils
        self.db.conn.commit()
        self.db = gffutils.FeatureDB(self.db.conn)

    def finish(self):
        self.db = None
        gc.collect()


def play_faulty(ctx, case, res, scripts=None):
    """one history whose updates may FAIL part-way, on a fresh file database, on ONE handle (and after reopening).
    steps (JSON lists): ["update", [[id|null, [parents], featuretype, start], ...], strategy, fail_at|null, checklines,
    make_backup] (fail_at: the feature source raises instead of yielding item fail_at; len(features) = after the last
    one) | ["delete", [ids], make_backup] | ["reopen"].
    What is judged (the state a FAILED update leaves in the main file is not specified): an update the property
    prescribes an outcome for - every explicit id new relative to the ACTUAL content, source not failing - succeeds and
    adds exactly its features to the actual content; each of its auto-generated keys is one that was never in the
    database before and continues the numbering of its base; delete removes exactly the named features; an update with
    a duplicate id under merge_strategy='error' raises.  An update with a multi-valued ID (a feature id containing
    ',') is expected to be rejected by the importer and is not judged itself (C04).
    case["fmt"] = "gtf": the base is a GTF file (inference on, under case["config"]'s id_spec), the update lines are GTF
    (see `render`) and every update runs with case["update_config"] (same id_spec, inference off).
    case["dbfn"] = "memory": a ':memory:' database (MemWorld; no World correspondence).  There, "reopen" directly after a
    failed update that left rows behind reads a counters table the failed importer never wrote (nothing was committed
    together with counters): from there on nothing is judged (counted as observation).
    `scripts`: list collecting (RealWorld, description) for the World correspondence"""
    FAULTY[0] += 1
    root = os.path.join(ctx.scratch, "faulty%d" % FAULTY[0])
    memory = case.get("dbfn") == "memory"
    fmt = case.get("fmt", "gff3")
    rw = MemWorld(os.path.join(root, "in")) if memory else worldside.RealWorld(os.path.join(root, "w"), os.path.join(root, "in"))
    cfg0 = dbside.Cfg.from_json(case["config"])
    ucfg = case.get("update_config") or dbside.Cfg().to_json()
    rw.create("main.db", case["base"], cfg0, True)
    rw.connect("main.db")
    if rw.db is None:
        return 0
    res.count("faulty_base_%s_%s_%s" % (fmt, "memory" if memory else "file",
                                        "counters_empty" if not rw.db._autoincrements else "counters_not_empty"))
    feats_now, rel_now = observe(rw.db)
    seen = set(feats_now)
    tainted, judged, changing = False, True, 0
    for si, step in enumerate(case["input"]):
        res.evaluations += 1
        sub = dict(case, input=case["input"][: si + 1])
        if step[0] == "update":
            _, feats, strategy, fail_at, cl, backup = step
            feats = [tuple(f) for f in feats]
            lines = [render(fmt, f) for f in feats]
            explicit = [f[0] for f in feats if f[0] is not None]
            multi = any("," in e for e in explicit)
            dup = len(set(explicit)) != len(explicit) or bool(set(explicit) & set(feats_now))
            clean = fail_at is None and not dup and not multi
            res.count("faulty_update_" + ("clean" if clean else "source_fails" if fail_at is not None else
                                          "multi_valued_id" if multi else "id_clash"))
            out = rw.update(lines, dbside.Cfg.from_json(dict(ucfg, strategy=strategy)), bool(backup), fail_at=fail_at,
                            checklines=cl)
            new_feats, new_rel = observe(rw.db)
            if not judged:
                if clean and (out != "ok" or (set(new_feats) - set(feats_now)) & seen):
                    res.count("unjudged_key_recycled_after_reopening_a_partly_committed_failed_update")
                    res.extra.setdefault("unjudged_observations", []).append(
                        {"history": sub["input"], "outcome": out,
                         "recycled": sorted((set(new_feats) - set(feats_now)) & seen)})
            elif clean:
                if not judge_clean_update(res, sub, out, lines, feats, feats_now, rel_now, new_feats, new_rel, seen):
                    break
                changing += 1 if feats else 0
                if feats:
                    tainted = False        # _finalize stored the live counters
            elif out == "ok" and strategy == "error" and dup:
                common.fail(res, sub, "update_duplicate_not_failed",
                            "update with a duplicate key did not fail under merge_strategy='error'",
                            observed=out, expected="an exception", update_lines=lines)
                break
            if out != "ok":
                tainted = tainted or new_feats != feats_now or new_rel != rel_now
            feats_now, rel_now = new_feats, new_rel
            seen |= set(new_feats)
        elif step[0] == "delete":
            rw.delete(step[1], bool(step[2]))
            new_feats, new_rel = observe(rw.db)
            want = {k: v for k, v in feats_now.items() if k not in step[1]}
            want_rel = {(p, c, l) for p, c, l in rel_now if p not in step[1] and c not in step[1]}
            if judged and (new_feats != want or new_rel != want_rel):
                common.fail(res, sub, "faulty_history_delete_differs",
                            "delete did not remove exactly the named features and the relations naming them",
                            extra_features=sorted(set(new_feats) - set(want)), missing_features=sorted(set(want) - set(new_feats)),
                            extra_relations=sorted(new_rel - want_rel), missing_relations=sorted(want_rel - new_rel))
                break
            feats_now, rel_now = new_feats, new_rel
            changing += 1
        else:
            if tainted:
                # the rows a failed update left behind were committed; the keys it handed out for them must not be handed
                # out again after reopening either ("never equal a key handed out earlier", "across ... reopenings")
                res.count("reopen_directly_after_partly_committed_failed_update")
                if memory:
                    judged = False
            rw.reopen()
    rw.finish()
    if scripts is not None and not memory:
        scripts.append((rw, repr(case["input"])))
    return changing



JUDGED = [0]


def judge(ctx, case):
    res = common.Result("C10")
    if case["scenario"] == "backup":
        check_backup(ctx, case, res)
    elif case["scenario"] == "faulty_history":
        play_faulty(ctx, case, res)
    elif case["scenario"] == "history" and list(case.get("base", BASE_LINES)) == BASE_LINES:
        JUDGED[0] += 1
        play(ctx, "j%d" % JUDGED[0], case["input"], res, [], [], [])
    return res


FAULTY_BASE = BASE_LINES + [feat_line(None, ["a"], "exon", 20)]      # the counters are not empty to begin with


def upd(feats, strategy="error", fail_at=None, checklines=2, backup=False):
    return ["update", [list(f) for f in feats], strategy, fail_at, checklines, backup]


def faulty_histories(r, n):
    """directed histories around an update that fails part-way, then random ones"""
    fill = [("r%d" % i, [], "region", 100 + i) for i in range(4)]
    clash = ("a", [], "exon", 77)        # 'a' is stored with start 10: unmergeable -> 'a_1', recorded AND COMMITTED mid-import
    same = ("a", [], "exon", 10)

    def auto(i, ftype="exon"):
        return (None, ["a"], ftype, i)
    out = [
        # the source fails behind the dialect peek after a merge clash has committed; more auto ids on the same handle,
        # then after reopening
        [upd([auto(1), clash] + fill, "merge", fail_at=5), upd([auto(2)]), ["reopen"], upd([auto(3), auto(4, "mRNA")])],
        [upd([auto(1), auto(2, "mRNA"), clash], "merge", fail_at=3, backup=True), upd([auto(3), auto(4, "mRNA")], "merge"),
         upd([auto(5)], "create_unique", backup=True), ["reopen"], upd([auto(6)])],
        # a duplicate id under 'error' / an unresolvable one under 'merge' after auto keys were drawn: full rollback
        [upd([auto(1), auto(2), same], "error"), upd([auto(3)]), upd([auto(4)], "create_unique"), ["reopen"], upd([auto(5)])],
        [upd([auto(1), clash, clash, ("a_1", [], "exon", 5)], "merge", fail_at=4, checklines=1), upd([auto(2)]), ["reopen"],
         upd([auto(3)])],
        # what the failed update committed is deleted, the numbering still goes on
        [upd([auto(1), clash], "merge", fail_at=2, checklines=1), ["delete", ["exon_2", "a_1"], True], upd([auto(2)], backup=True),
         ["reopen"], upd([auto(3)])],
        # two failures in a row
        [upd([auto(1), clash] + fill, "merge", fail_at=4), upd([auto(2), clash] + fill, "merge", fail_at=3), upd([auto(3)]),
         ["reopen"], upd([auto(4)])],
        # reopening DIRECTLY after a partly committed failure: observation only (see play_faulty)
        [upd([auto(1), clash] + fill, "merge", fail_at=5), ["reopen"], upd([auto(2)])],
    ]
    # the source failing at every position, full rollback (strategy error) and partial commit (merge)
    for k in range(0, 8):
        out.append([upd([auto(1), ("e", ["d"], "exon", 5), auto(2)] + fill, "error", fail_at=k, backup=k % 2 == 0),
                    upd([auto(3)]), ["reopen"], upd([auto(4)])])
        out.append([upd([auto(1), clash, auto(2)] + fill, "merge", fail_at=k), upd([auto(3), ("e", [], "exon", 6)])])
    pool = ["a", "b", "c", "d", "e", "f"]
    for _ in range(n):
        h = []
        for _ in range(r.randrange(2, 6)):
            k = r.random()
            if k < 0.7:
                feats = rand_update(r, pool) + (fill[: r.randrange(0, 4)] if r.random() < 0.3 and not any(
                    s[0] == "update" and any(f[0] == "r0" for f in s[1]) for s in h) else [])
                feats = [(fid, [p for p in ps if p != fid], ft, st) for fid, ps, ft, st in feats]
                fail_at = r.choice([None, None] + list(range(len(feats) + 1)))
                cl = r.choice([1, 2, 2, 10])
                if fail_at is not None and 0 < fail_at <= cl:
                    # peek(checklines) takes checklines + 1 items; a source failing inside the peek never reaches the
                    # importer, while World.step runs the prefix through it (the exception class may differ)
                    cl = fail_at - 1
                h.append(upd(feats, r.choice(["error", "merge", "merge", "create_unique", "replace", "warning"]), fail_at,
                             cl, r.random() < 0.3))
            elif k < 0.85:
                h.append(["delete", r.sample(pool + ["exon_1", "exon_2", "a_1"], r.choice([1, 1, 2])), r.random() < 0.5])
            else:
                h.append(["reopen"])
        out.append(h)
    return out


MULTI = ("g2,g3", [], "gene", 9)         # an ID with two values: the importer rejects the line (ValueError)


def rejected_histories():
    """an update that is REJECTED part-way (multi-valued ID, duplicate id) after auto-generated keys were drawn - the
    caller catches the exception and carries on with the same handle"""
    fill = [("r%d" % i, [], "region", 100 + i) for i in range(4)]
    clash = ("a", [], "exon", 77)
    same = ("a", [], "exon", 10)

    def auto(i, ftype="exon"):
        return (None, ["a"], ftype, i)
    return [
        [upd([auto(1), auto(2), MULTI]), upd([auto(3)]), upd([auto(4), auto(5, "mRNA")], "create_unique")],
        [upd([auto(1), auto(2, "mRNA"), same], "error"), upd([auto(3), auto(4, "mRNA")])],
        [upd([auto(1)] + fill, "error", fail_at=3, checklines=1), upd([auto(2)])],
        [upd([auto(1), clash] + fill, "merge", fail_at=5), upd([auto(2)]), ["reopen"], upd([auto(3)])],
        [upd([auto(1), clash, MULTI], "merge"), upd([auto(2), ("e", [], "exon", 6)]), ["reopen"], upd([auto(3)])],
        [upd([auto(1), MULTI]), ["delete", ["exon_1", "exon_2"], False], upd([auto(2)])],
        [upd([auto(1), MULTI]), upd([auto(2), MULTI], "replace"), upd([auto(3)])],
        [upd([auto(1)]), ["reopen"], upd([auto(2), MULTI]), upd([auto(3)]), ["reopen"], upd([auto(4)])],
    ]


GTF_BASE = gen_db.gtf_lines([
    dict(ftype="exon", gene="gA", transcript="tA", start=100, end=200, seqid="chr1", strand="+"),
    dict(ftype="CDS", gene="gA", transcript="tA", start=120, end=180, seqid="chr1", strand="+"),
    dict(ftype="exon", gene="gA", transcript="tA", start=300, end=400, seqid="chr1", strand="+"),
    dict(ftype="exon", gene="gB", transcript="tB", start=1000, end=1100, seqid="chr1", strand="-")])
# id_specs under which the INFERRED genes / transcripts of a GTF import get auto-generated keys (gene_1, transcript_1, ...)
GTF_IDSPECS = [dbside.IdSpec("L", [("a", "ID")], form="str"), dbside.IdSpec("L", [("c", "none")], form="callable"),
               dbside.IdSpec("D", table={"exon": [("a", "ID")]})]


def gtf_histories():
    """updates with id-less gene / transcript / exon lines on a GTF database whose inferred features hold gene_<n> /
    transcript_<n>; the last one (used under id_spec="ID" only) also carries explicit ids"""
    def g(s, ft="gene"):
        return (None, [], ft, s)
    return [
        [upd([g(5000)]), ["reopen"], upd([g(6000), g(6100, "transcript"), g(6200, "exon")])],
        [["reopen"], upd([g(5000, "transcript"), g(5100)]), upd([g(7000)], "create_unique")],
        [upd([g(5000, "exon"), g(5100, "CDS")]), upd([g(5200), g(5300, "transcript")], "replace"), ["reopen"], upd([g(5400)])],
        [upd([g(5000), ("x1", [], "gene", 5100), MULTI]), upd([g(5200)]), ["reopen"], upd([g(5300), ("x1", [], "exon", 5400)])],
    ]


def backup_scripts(r, n):
    """file-level scripts for World.step: writes with make_backup, a failing write, reads in between"""
    out = [
        [["delete", ["b"], True], ["count", None], ["delete", ["c"], False], ["delete", ["zz", "d"], True]],
        [upd([(None, ["a"], "exon", 7), ("e", ["d"], "exon", 5)], backup=True), ["reopen"], ["delete", ["e"], True],
         upd([], backup=True)],
        [upd([("e", [], "exon", 5), ("f", [], "exon", 6), ("g", [], "exon", 7), ("a", [], "exon", 9)], "error", None, 2, True),
         ["count", "exon"], upd([("e", [], "exon", 5), ("f", [], "exon", 6), ("g", [], "exon", 7)], "error", 2, 1, True),
         ["addrel", "a", "d", 1], ["addrel", "a", "d", 1], ["addrel", "a", "nope", 1], ["delete", ["a"], True]],
    ]
    for _ in range(n):
        s = []
        for _ in range(r.randrange(2, 6)):
            k = r.random()
            if k < 0.4:
                s.append(["delete", r.sample(["a", "b", "c", "d", "exon_1", "zz"], r.choice([1, 2])), r.random() < 0.7])
            elif k < 0.75:
                feats = [(r.choice([None, None, "e", "f", "a"]), r.sample(["a", "b"], r.choice([0, 1])), "exon", r.randrange(1, 99))
                         for _ in range(r.randrange(0, 4))]
                feats = [(fid, [p for p in ps if p != fid], ft, st) for fid, ps, ft, st in feats]
                fail_at = r.choice([None, None, None] + list(range(len(feats) + 1)))
                cl = 10 if fail_at is None or fail_at == 0 else r.choice([0, fail_at - 1])    # fails behind the peek
                s.append(upd(feats, r.choice(["error", "create_unique", "replace"]), fail_at, cl, r.random() < 0.7))
            elif k < 0.85:
                s.append(["addrel", r.choice("abcd"), r.choice("abcd"), r.choice([1, 2])])
            elif k < 0.93:
                s.append(["count", r.choice([None, "exon"])])
            else:
                s.append(["reopen"])
        out.append(s)
    return out


def run(ctx):
    import gffutils
    res = common.Result("C10")
    r = ctx.rng("c10")
    res.rule = ("histories of 1-8 steps over update(0-3 features, and batches of 12-15, with/without ID and Parent values "
                "forming chains up to depth 4; strategies error/warning/replace/create_unique; the features given as a file, "
                "a list, a generator, iter(list) or a map object), move (fetch, change start/end within and across bin "
                "boundaries, update with replace), delete(ids), add_relation, reopen on file "
                "databases (exhaustive to depth 2 over a 9-op alphabet + random deeper); the feature source of an update "
                "failing at every position; make_backup. histories of 2-5 steps on ONE handle whose updates fail part-way "
                "(source raising at every position before/behind the dialect peek, duplicate ids, merge_strategy='merge' "
                "clashes that commit mid-import, a line rejected for its multi-valued ID) followed by updates drawing auto "
                "ids, delete, reopen - on bases with and without stored counters (only explicit ids), on file and "
                "':memory:' databases, and on GTF databases whose inferred genes/transcripts hold auto-generated keys "
                "(id_spec 'ID' / callable / per-featuretype dict); file-level scripts "
                "with make_backup through World.step. non-trivial = distinct history with >= 2 state-changing steps")
    cmds, exp, tags = [], [], []
    pool = ["a", "b", "c", "d", "e"]
    alphabet = [
        ("update", [("e", ["d"], "exon", 5)], "error"),
        ("update", [(None, ["a"], "exon", 7), (None, [], "exon", 8)], "error"),
        ("update", [("b", ["a"], "mRNA", 99)], "replace"),
        ("update", [("c", ["a"], "exon", 3)], "create_unique"),
        ("update", [], "error"),
        ("delete", ["b"]),
        ("delete", ["zz", "d"]),
        ("addrel", "a", "d", 1),
        ("reopen",),
    ]
    histories = []
    for x in alphabet:
        histories.append([x])
        for y in alphabet:
            histories.append([x, y])
    # the features of an update as a list / generator / iter(list) / map object, fewer and more than checklines + 1 = 11
    # of them (the dialect peek of a one-shot source must hand every item on); features fetched, moved and written back
    rf = ctx.rng("c10-forms")
    for form in UPDATE_FORMS[1:]:
        for k, n in enumerate([0, 1, 10, 11, 12, 13, 15]):
            first = ("update", big_update(rf, pool[:4], n, "n"), "error", form)
            other = UPDATE_FORMS[1:][(UPDATE_FORMS.index(form) + k) % 4]
            histories.append([first, ("reopen",) if k % 2 else ("delete", ["n0", "b"]),
                              ("update", big_update(rf, pool[:4], rf.choice([2, 12, 14]), "m"), rf.choice(["error", "replace"]), other),
                              ("update", rand_update(rf, pool), "create_unique", form)])
    for k, ns in enumerate(MOVE_STARTS):
        histories.append([("move", "abcd"[k % 4], ns, ns + [50, 2 ** 17, 0, 200000][k % 4]), ("reopen",),
                          ("update", [(None, ["a"], "exon", 7)], "error", UPDATE_FORMS[k % 5]), rand_move(rf, ["a", "b", "exon_1"]),
                          ("move", "abcd"[k % 4], 10, 60)])
    # delete of an id that has NO feature row but occurs in relations (a dangling Parent value): the relations naming it go
    # too, so a feature stored under that id later does not inherit them
    for ghost_first in (True, False):
        for tail in (("reopen",), ("delete", ["b"])):
            h = [("update", [("k1", ["ghost"], "exon", 5), ("k2", ["k1"], "exon", 6)], "error")]
            if not ghost_first:
                h.append(("update", [("ghost", [], "gene", 1)], "error"))
                h.append(("delete", ["ghost"]))
                h.append(("update", [("k3", ["ghost"], "exon", 7)], "error"))
            h += [("delete", ["ghost"]), tail, ("update", [("ghost", [], "gene", 2)], "error"),
                  ("update", [("k4", ["ghost"], "exon", 9)], "error")]
            histories.append(h)
    nrand = 60 if not ctx.thorough else 800
    for _ in range(nrand):
        h = []
        for _ in range(r.randrange(3, 9)):
            k = r.random()
            if k < 0.5:
                feats = rand_update(r, pool) if r.random() < 0.85 else big_update(r, pool, r.randrange(12, 16), "x%d_" % len(h))
                h.append(("update", feats, r.choice(["error", "warning", "replace", "create_unique"]),
                          r.choice(UPDATE_FORMS)))
            elif k < 0.58:
                h.append(rand_move(r, pool + ["exon_1"]))
            elif k < 0.7:
                h.append(("delete", r.sample(pool + ["exon_1", "exon_2", "zz"], r.choice([1, 1, 2]))))
            elif k < 0.85:
                h.append(("addrel", r.choice(pool), r.choice(pool), r.choice([1, 2])))
            else:
                h.append(("reopen",))
        histories.append(h)
    if not ctx.thorough:
        histories = histories[:: 1]
    cfg0 = dbside.Cfg()
    for hi, hist in enumerate(histories):
        changing = play(ctx, "%d" % hi, hist, res, cmds, exp, tags)
        if changing >= 2:
            res.nontriv(repr(hist))
        if len(res.samples) < 2 and len(hist) > 2:
            res.sample({"history": [list(map(str, s)) for s in hist]})

    # backup completeness, also when the source fails at every position ------------------------------------
    for fail_at in [None, 0, 1, 2, 3]:
        for op in ("update", "delete"):
            check_backup(ctx, {"scenario": "backup", "op": op, "fail_at": fail_at, "base": BASE_LINES,
                               "input": BACKUP_LINES, "delete_ids": ["b", "c", "d"], "config": cfg0.to_json(),
                               "no_shrink": True}, res)
        # checklines=0 (the peek takes one item): the source fails DURING the import, not while the peek is taken
        check_backup(ctx, {"scenario": "backup", "op": "update", "fail_at": fail_at, "checklines": 0, "base": BASE_LINES,
                           "input": BACKUP_LINES, "delete_ids": [], "config": cfg0.to_json(), "no_shrink": True}, res)

    # histories with updates that FAIL part-way: keys never recycle (oracle) + World.step with residue (model) -------
    scripts = []
    nfaulty = 25 if not ctx.thorough else 400
    fh = faulty_histories(r, nfaulty)
    fcases = [{"scenario": "faulty_history", "base": FAULTY_BASE, "input": hist, "config": cfg0.to_json()} for hist in fh]
    # ... on a base whose features all have explicit ids (the counters are EMPTY when the first update starts), and the
    # rejected updates on both bases; the same on ':memory:' databases (one shared connection: what a failed update
    # wrote stays visible on the handle)
    some = fh[: len(fh) - nfaulty] + fh[len(fh) - nfaulty:][:: 3]
    fcases += [{"scenario": "faulty_history", "base": BASE_LINES, "input": hist, "config": cfg0.to_json()}
               for hist in some + rejected_histories()]
    fcases += [{"scenario": "faulty_history", "base": FAULTY_BASE, "input": hist, "config": cfg0.to_json()}
               for hist in rejected_histories()]
    for base in (BASE_LINES, FAULTY_BASE):
        fcases += [{"scenario": "faulty_history", "base": base, "input": hist, "config": cfg0.to_json(), "dbfn": "memory"}
                   for hist in rejected_histories() + fh[:7] + fh[len(fh) - nfaulty:][1:: 4]]
    # GTF databases imported with inference on under an id_spec that leaves the inferred genes / transcripts with
    # auto-generated keys, then updates with id-less gene / transcript lines (file and :memory:)
    for ki, spec in enumerate(GTF_IDSPECS):
        gcfg = dbside.Cfg(idspec=spec)
        ucfg = dbside.Cfg(idspec=spec, disG=True, disT=True)
        for hist in (gtf_histories() if ki == 0 else gtf_histories()[:3]):
            for dbfn in ("file", "memory"):
                fcases.append({"scenario": "faulty_history", "base": GTF_BASE, "input": hist, "config": gcfg.to_json(),
                               "update_config": ucfg.to_json(), "fmt": "gtf", "dbfn": dbfn})
    for hi, case in enumerate(fcases):
        if play_faulty(ctx, case, res, scripts) >= 2:
            res.nontriv("faulty" + repr((case["base"], case.get("dbfn"), case["config"]["idspec"], case["input"])))
        if hi == 0:
            res.sample({"faulty_history": case["input"]})

    # make_backup at file level: World.step keeps the pre-operation file under '<path>.bak' ---------------------------
    for bi, steps in enumerate(backup_scripts(r, 6 if not ctx.thorough else 60)):
        rw = worldside.RealWorld(os.path.join(ctx.scratch, "bw%d" % bi, "w"), os.path.join(ctx.scratch, "bw%d" % bi, "in"))
        rw.create("main.db", FAULTY_BASE, cfg0, True)
        rw.connect("main.db")
        for st in steps:
            res.evaluations += 1
            if st[0] == "update":
                rw.update([feat_line(*f) for f in st[1]], dbside.Cfg(strategy=st[2]), st[5], fail_at=st[3], checklines=st[4])
            elif st[0] == "delete":
                rw.delete(st[1], st[2])
            elif st[0] == "addrel":
                rw.addrel(st[1], st[2], st[3])
            elif st[0] == "count":
                rw.count(st[1])
            else:
                rw.reopen()
        rw.finish()
        res.count("world_backup_scripts")
        scripts.append((rw, repr(steps)))

    # unit layer: `load` of a database whose counters are NOT empty, then an update that draws more keys ---------------
    for li in range(3 if not ctx.thorough else 20):
        first = [feat_line(None, [], r.choice(["exon", "mRNA"]), 10 + i) for i in range(r.randrange(1, 5))] + [feat_line("p", [])]
        more = [feat_line(None, ["p"], r.choice(["exon", "mRNA", "CDS"]), 50 + i) for i in range(r.randrange(1, 4))]
        for old in [x for x in os.listdir(ctx.scratch) if x.startswith("load")]:
            os.unlink(os.path.join(ctx.scratch, old))
        dbfn = os.path.join(ctx.scratch, "load%d.db" % li)
        db, rep = dbside.py_create(dbside.write_lines(os.path.join(ctx.scratch, "l.gff3"), first), cfg0, dbfn=dbfn)
        db.conn.commit()
        if r.random() < 0.5:
            db = gffutils.FeatureDB(dbfn)
        res.evaluations += 1
        inp = repr({"loaded": first, "update": more})
        cmds.append(dbside.cmd_load(db)); exp.append("ok"); tags.append(("load (counters not empty)", inp))
        cmds.append("dump"); exp.append(dbside.dump(db)); tags.append(("tables after load", inp))
        try:
            db.update(dbside.write_lines(os.path.join(ctx.scratch, "lu.gff3"), more), make_backup=False, **cfg0.update_kwargs())
            got = "ok"
        except Exception as ex:
            got = "err " + dbside.err_name(ex)
        cmds.append(dbside.cmd_update(more, cfg0)); exp.append(got); tags.append(("update after load", inp))
        cmds.append("dump"); exp.append(dbside.dump(db)); tags.append(("tables after load + update", inp))
        res.count("load_with_counters_then_update")

    wout = ctx.model([rw.command() for rw, _ in scripts])
    if wout is not None:
        for (rw, desc), reply in zip(scripts, wout):
            worldside.compare_world(res, "World.step history", desc, rw, reply)
    out = ctx.model(cmds)
    if out is not None:
        for c, m, e, (comp, inp) in zip(cmds, out, exp, tags):
            res.corr_checked += 1
            if m != e:
                res.corr_disagreements.append((comp, inp[:900], m[:600], e[:600]))
    res.assumptions = ["one merge configuration per update; ids free of tab", "a failed update's effect on the main file is "
                       "not specified by the property beyond the backup (sqlite transaction behaviour)",
                       "after a FAILED update the reference continues from the content actually observed (once the failed "
                       "importer is garbage-collected); a key counts as handed out when it was in the database at some "
                       "point; reopening directly after a failed update that left rows behind is not judged (the counters "
                       "of that update were never stored: see unjudged_observations)",
                       "a feature fetched, moved and written back with merge_strategy='replace' is stored like the same "
                       "feature line imported afresh (the reference for its row, bin included, is a fresh import on the "
                       "same tree)",
                       "':memory:' databases (one shared connection) are judged by the same key rules as file databases, "
                       "except after a 'reopen' (FeatureDB(connection)) that directly follows a failed update which left "
                       "uncommitted rows behind"]
    common.shrink_first_failure(res, lambda case: judge(ctx, case))
    return res


def replay(ctx, payload):
    return common.replay_failure("C10", payload, lambda case: judge(ctx, case))
