"""C18 - coordinate conventions of exports: length, sequence and BED12.

correspondence: FeatureDB.bed12 / convert.to_bed12 / Feature.sequence / len(Feature) vs the Lean model
(GffModel/Export.lean), unit layer (tables loaded from the real database).
oracle (real code only): field arithmetic written from the property text (`bed_oracle`; `judge_bed12`, replayable).
"""
import hashlib
import os

import common
import dbside
import gen_db
from common import enc, dec
from pyside import enc_list

TRUSTED = ["pyfaidx slicing (0-based half-open) and reverse complement on the IUPAC codes ACGTRYKMSWBDHVN (both cases) "
           "are modelled, not verified"]
LEANCHECKER_MODULES = ["GffProofs.Props.C18"]

# The complement of a nucleotide code, written down from the IUPAC table (independent of pyfaidx and of the model):
# A<->T, C<->G, R<->Y (puRine/pYrimidine), K<->M (Keto/aMino), B<->V (not A / not T), D<->H (not C / not G);
# S (strong, C/G), W (weak, A/T) and N are their own complements; the case of a letter is kept.
_IUPAC_SRC = "ACGTRYKMSWBDHVN"
_IUPAC_DST = "TGCAYRMKSWVHDBN"
COMP = dict(zip(_IUPAC_SRC + _IUPAC_SRC.lower(), _IUPAC_DST + _IUPAC_DST.lower()))
PLAIN = "ACGTNacgtn"
IUPAC = _IUPAC_SRC + _IUPAC_SRC.lower()
# lean/GffModel/Export.lean `complement` knows the whole IUPAC table (it used to leave R/Y/K/M/B/V/D/H unchanged): every
# window is compared with the model.  With False, minus-strand windows holding one of these codes are judged by the
# oracle only.
MODEL_IUPAC_COMPLEMENT = True
MODEL_TABLE_WRONG = set("RYKMBVDHrykmbvdh")


TN_PLAIN = {"exon": "exon", "CDS": "CDS", "UTR": "UTR"}
# featuretype names of which one is a proper SUBSTRING of another (WormBase-style 'coding_exon' next to 'exon'; a short
# name inside 'exon'): a featuretype argument selects the children of exactly that type
TN_SCHEMES = [TN_PLAIN, TN_PLAIN, TN_PLAIN, {"exon": "exon", "CDS": "coding_exon", "UTR": "UTR"},
              {"exon": "exon", "CDS": "CDS", "UTR": "ex"}, {"exon": "five_prime_UTR_exon", "CDS": "CDS", "UTR": "UTR"}]


def rand_transcript(r, idx, tn=TN_PLAIN, gene=False):
    """one transcript with 0-6 exons and 0-4 CDS inside the exons; returns (lines, info).  With `gene` the transcript
    hangs under a gene line of the same extent and its exons name BOTH as Parent (Parent=t,g): each exon is then
    related to the gene at two levels (directly, and through the transcript); `info["gene"]` is the record of that
    gene, whose block / thick / thin children are the same features"""
    tid = "t%d" % idx
    strand = r.choice("+-")
    # now and then the transcript begins at the very first base of the sequence (chromStart 0 / thickStart 0)
    pos = 1 if r.random() < 0.2 else r.randrange(1, 500)
    nex = r.randrange(0, 7)
    exons = []
    for e in range(nex):
        ln = r.randrange(1, 120)
        exons.append((pos, pos + ln - 1))
        pos += ln + r.randrange(1, 200)
    span = (exons[0][0], exons[-1][1]) if exons else (pos, pos + r.randrange(0, 300))
    mism = r.random() < 0.15
    tstart, tend = span
    if mism:
        if r.random() < 0.5:
            tstart = max(1, tstart - r.randrange(1, 5))
        else:
            tend = tend + r.randrange(1, 5)
    name = r.random() < 0.7
    gid = "g%d" % idx
    attrs = [("ID", [tid])] + ([("Name", ["N" + tid])] if name else []) + ([("Parent", [gid])] if gene else [])
    score = r.choice([".", "7"])
    lines = [gen_db.gff_line("chr1", "mRNA", tstart, tend, strand, attrs, score=score)]
    if gene:
        lines.insert(0, gen_db.gff_line("chr1", "gene", tstart, tend, strand, [("ID", [gid])], score=score))
    for i, (a, b) in enumerate(exons):
        lines.append(gen_db.gff_line("chr1", tn["exon"], a, b, strand,
                                     [("ID", ["%se%d" % (tid, i)]), ("Parent", [tid, gid] if gene else [tid])]))
    cds = []
    if exons:
        for (a, b) in exons[r.randrange(0, len(exons)):][: r.randrange(0, 5)]:
            # inside the exon; often from the exon's first base / up to its last base (the whole exon is coding)
            ca = a if r.random() < 0.35 else r.randrange(a, b + 1)
            cb = b if r.random() < 0.35 else r.randrange(ca, b + 1)
            cds.append((ca, cb))
    for i, (a, b) in enumerate(cds):
        lines.append(gen_db.gff_line("chr1", tn["CDS"], a, b, strand, [("ID", ["%sc%d" % (tid, i)]), ("Parent", [tid])]))
    if exons and not gene and tn is TN_PLAIN and r.random() < 0.15:
        # the same exon line twice, without an ID attribute (two stored features, exon_<n> and exon_<n+1>): two blocks
        a, b = exons[-1][1] + 10, exons[-1][1] + 40
        for _ in range(2):
            lines.append(gen_db.gff_line("chr1", "exon", a, b, strand, [("Parent", [tid])]))
        exons = exons + [(a, b), (a, b)]
        if not mism:
            tend = b
            lines[0] = gen_db.gff_line("chr1", "mRNA", tstart, tend, strand, attrs, score=score)
    utr = []
    if exons and r.random() < 0.4:
        utr = [exons[0]]
        lines.append(gen_db.gff_line("chr1", tn["UTR"], exons[0][0], exons[0][1], strand,
                                     [("ID", ["%su" % tid]), ("Parent", [tid])]))
    nhead = 2 if gene else 1
    head, tail = lines[:nhead], lines[nhead:]
    r.shuffle(tail)                              # children in arbitrary file order (e.g. transcription order on '-')
    lines = head + tail
    info = {"id": tid, "start": tstart, "end": tend, "strand": strand, "exons": exons, "cds": cds, "utr": utr,
            "name": "N" + tid if name else None, "score": score, "tn": dict(tn)}
    if gene:
        info["gene"] = dict(info, id=gid, name=None)
    return lines, info


def feats_of(info, types):
    """the generator's record of the transcript's children of the given featuretypes, ascending (start, end)"""
    tn = info.get("tn", TN_PLAIN)
    table = {tn["exon"]: info["exons"], tn["CDS"]: info["cds"], tn["UTR"]: info["utr"]}
    out = []
    for t in dict.fromkeys(types or []):
        out += [tuple(x) for x in table.get(t, [])]
    return sorted(out)


def start_ties(feats):
    """two features with the same start and different ends: `ORDER BY start` leaves their order open"""
    return any(a[0] == b[0] and a[1] != b[1] for a, b in zip(feats, feats[1:]))


def bed_oracle(info, block, thick, thin, name_field, got):
    """returns None or a description; got = string or ('raised', exc name).  `block` may name several featuretypes
    (the documented block_featuretype=["exon", "CDS"]): the blocks are then all those children in ascending order -
    nested blocks included - and "the blocks span the feature" is what the property text says about a returned line:
    the first block starts at chromStart and the LAST block (the one that starts last) ends at chromEnd."""
    blocks = feats_of(info, block)
    blocks = blocks or [(info["start"], info["end"])]
    spans = blocks[0][0] == info["start"] and blocks[-1][1] == info["end"]
    if isinstance(got, tuple):
        if not spans and got[1] == "ValueError":
            return None
        if thick and thin and got[1] == "ValueError":
            return None
        return "raised %s" % got[1] + ("" if spans else " (blocks do not span the feature, ValueError expected)")
    if not spans:
        return "no ValueError although the blocks do not span the feature"
    f = got.split("\t")
    if len(f) != 12:
        return "not twelve tab-separated fields"
    if f[0] != "chr1" or int(f[1]) != info["start"] - 1 or int(f[2]) != info["end"]:
        return "chrom/chromStart/chromEnd wrong: %r" % f[:3]
    if name_field == "ID":
        wn = info["id"]
    elif name_field == "Name":
        wn = info["name"] or "."
    else:
        wn = "."
    if f[3] != wn:
        return "name field %r, expected %r" % (f[3], wn)
    if f[5] != info["strand"]:
        return "strand"
    if int(f[9]) != len(blocks):
        return "blockCount %s, expected %d" % (f[9], len(blocks))
    sizes = [int(x) for x in f[10].split(",")]
    starts = [int(x) for x in f[11].split(",")]
    if sizes != [b - a + 1 for a, b in blocks]:
        return "blockSizes %r" % sizes
    if starts != [a - 1 - (info["start"] - 1) for a, b in blocks] or starts[0] != 0 or starts != sorted(starts):
        return "blockStarts %r" % starts
    if (info["start"] - 1) + starts[-1] + sizes[-1] != info["end"]:
        return "last block does not end at chromEnd"
    tk = feats_of(info, thick)
    if thick and tk:
        if int(f[6]) != tk[0][0] - 1 or int(f[7]) != tk[-1][1]:
            return "thickStart/thickEnd %r not taken from the thick features" % f[6:8]
    return None


def directed_transcripts():
    """transcripts at the edges the random generator reaches only now and then (each with its generator record):
    coding region beginning at base 1 of the sequence on either strand (thickStart 0); single-exon transcript with an
    internal CDS (with block_featuretype=["exon", "CDS"] the block that starts last ends before the transcript does:
    the blocks do not span the feature); two exons whose CDS reach the exon ends (nested blocks that do span it);
    CDS nested at the transcript start only"""
    specs = [("dA", "+", (1, 450), [(1, 120), (300, 450)], [(1, 120), (300, 400)]),
             ("dB", "-", (1, 500), [(1, 200), (350, 500)], [(1, 200), (350, 420)]),
             ("dC", "-", (2000, 2600), [(2000, 2600)], [(2100, 2400)]),
             ("dD", "+", (5000, 5800), [(5000, 5300), (5500, 5800)], [(5100, 5300), (5510, 5800)]),
             ("dE", "+", (7000, 7900), [(7000, 7300), (7500, 7900)], [(7100, 7200), (7600, 7700)]),
             ("dF", "+", (1, 90), [(1, 90)], [(1, 30)])]
    lines, infos = [], []
    for tid, strand, (ts, te), exons, cds in specs:
        lines.append(gen_db.gff_line("chr1", "mRNA", ts, te, strand, [("ID", [tid]), ("Name", ["N" + tid])]))
        for i, (a, b) in enumerate(exons):
            lines.append(gen_db.gff_line("chr1", "exon", a, b, strand, [("ID", ["%se%d" % (tid, i)]), ("Parent", [tid])]))
        for i, (a, b) in enumerate(cds):
            lines.append(gen_db.gff_line("chr1", "CDS", a, b, strand, [("ID", ["%sc%d" % (tid, i)]), ("Parent", [tid])]))
        infos.append({"id": tid, "start": ts, "end": te, "strand": strand, "exons": exons, "cds": cds, "utr": [],
                      "name": "N" + tid, "score": "."})
    return lines, infos


def judge_bed12(ctx, res, case, db=None):
    """one bed12 call judged by `bed_oracle`; case = the file's lines, the generator's record of the transcript and the
    arguments.  Returns what the real code returned (string or ('raised', name)) and the reply text for the model;
    (None, None) when the oracle cannot judge the call (block features tied on their start)"""
    info, block, thick, thin = case["info"], case["block_featuretype"], case["thick_featuretype"], case["thin_featuretype"]
    if db is None:
        path = dbside.write_lines(os.path.join(ctx.scratch, "c18-replay.gff3"), case["input"])
        db, rep = dbside.py_create(path, dbside.Cfg())
        if db is None:
            common.fail(res, case, "create_db_raised", "create_db raised: " + rep)
            return None, None
    if start_ties(feats_of(info, block)) or start_ties(feats_of(info, thick)):
        return None, None
    arg = db[info["id"]] if case["argument"] == "Feature" else info["id"]
    # a featuretype argument naming one featuretype may be given as a plain string (the documented form)
    asstr = lambda v: v[0] if (case.get("featuretype_as") == "str" and v and len(v) == 1) else v
    try:
        got = db.bed12(arg, block_featuretype=asstr(block), thick_featuretype=asstr(thick), thin_featuretype=asstr(thin),
                       name_field=case["name_field"])
        gm = "ok " + enc(got)
    except Exception as ex:
        got = ("raised", type(ex).__name__)
        gm = "err " + dbside.err_name(ex)
    why = bed_oracle(info, block, thick, thin, case["name_field"], got)
    if why:
        kind = ("bed12_raised" if why.startswith("raised") else "bed12_no_valueerror" if why.startswith("no ValueError")
                else "bed12_fields_wrong")
        common.fail(res, case, kind, "bed12: " + why, error=(got[1] if isinstance(got, tuple) else None), returned=got)
    return got, gm


def run(ctx):
    import gffutils
    from gffutils import convert
    from gffutils.feature import Feature
    res = common.Result("C18")
    r = ctx.rng("c18")
    res.rule = ("transcripts with 0-6 exons and 0-4 CDS on either strand (every run: transcripts whose coding region begins at "
                "base 1 of the sequence, and block_featuretype lists of two featuretypes giving nested blocks that do / do "
                "not span the transcript), spans matching or not, Name present or absent, "
                "block/thick/thin featuretype choices, id or Feature argument; (start, end, strand, use_strand) windows on a "
                "random 500-base ACGTN reference, on a reference holding each of the 30 IUPAC codes (both cases) once "
                "(every single-base window on '-') and on a random 300-base IUPAC reference for sequence(); len(). "
                "non-trivial = distinct (transcript, option) call, distinct minus-strand window with an ambiguity code")
    cmds, exp, tags = [], [], []
    nsets = 25 if not ctx.thorough else 300
    BLOCKS = [["exon"], ["CDS"], ["exon", "CDS"], ["CDS", "exon"]]
    for si in range(-1, nsets):
        lines, infos = [], []
        if si < 0:
            lines, infos = directed_transcripts()
        else:
            tn = TN_SCHEMES[si % len(TN_SCHEMES)]
            for t in range(r.randrange(1, 5)):
                l, info = rand_transcript(r, t, tn=tn, gene=(si % 3 == 1 and t % 2 == 0))
                lines += l
                infos.append(info)
                if "gene" in info:
                    infos.append(info["gene"])           # bed12 of the gene: its exons are related to it at two levels
        path = dbside.write_lines(os.path.join(ctx.scratch, "c18.gff3"), lines)
        db, rep = dbside.py_create(path, dbside.Cfg())
        if db is None:
            res.oracle_failures.append(("create_db raised: " + rep, {"lines": lines}))
            continue
        cmds.append(dbside.cmd_load(db)); exp.append("ok"); tags.append(("load", ""))
        for info in infos:
            if si < 0:
                # every block list x thick CDS / exon x id / Feature, and the thin form
                options = [(block, thick, None, nf, af) for block in BLOCKS for thick in (["CDS"], ["exon"])
                           for nf, af in (("ID", False), ("Name", True))]
                options += [(block, None, ["UTR"], "absent", False) for block in BLOCKS[:3]]
            else:
                options = []
                tn = info.get("tn", TN_PLAIN)
                E, C, U = tn["exon"], tn["CDS"], tn["UTR"]
                for _ in range(4):
                    block = r.choice([[E], [E], [C], [E, C]])
                    mode = r.choice(["thick", "thick", "thin", "both"])
                    thick = r.choice([[C], [E]]) if mode in ("thick", "both") else None
                    thin = [U] if mode in ("thin", "both") else None
                    options.append((block, thick, thin, r.choice(["ID", "Name", "absent"]), r.random() < 0.5))
            for oi, (block, thick, thin, nf, as_feature) in enumerate(options):
                case = {"scenario": "bed12", "input": lines, "info": info, "transcript": info["id"],
                        "block_featuretype": block, "thick_featuretype": thick, "thin_featuretype": thin, "name_field": nf,
                        "argument": "Feature" if as_feature else "id", "no_shrink": True,
                        "featuretype_as": "str" if (oi + si) % 2 == 0 else "list"}
                res.count("bed12_featuretype_args_as_" + case["featuretype_as"])
                if info.get("tn", TN_PLAIN) != TN_PLAIN:
                    res.count("bed12_featuretype_names_substrings_of_one_another")
                if info["id"].startswith("g"):
                    res.count("bed12_of_gene_blocks_related_at_two_levels")
                got, gm = judge_bed12(ctx, res, case, db=db)
                if gm is None:
                    res.count("bed12_block_features_tied_on_start(not judged)")
                    continue
                res.evaluations += 1
                res.nontriv((si, info["id"], str(block), str(thick), str(thin), nf, as_feature))
                res.count("bed12_block_" + "+".join(block))
                if len(block) > 1 and len(feats_of(info, block)) > 1:
                    fb = feats_of(info, block)
                    spans = fb[0][0] == info["start"] and fb[-1][1] == info["end"]
                    res.count("bed12_nested_blocks_" + ("spanning" if spans else "last_block_ends_before_chromEnd"))
                if info["start"] == 1 and info["cds"] and min(info["cds"])[0] == 1 and thick == [info.get("tn", TN_PLAIN)["CDS"]]:
                    res.count("bed12_thickStart_0")
                cmds.append("bed12 %s %s %s %s %s ~" % (enc(info["id"]), enc_list(block), enc_list(thick or []),
                                                        enc_list(thin or []), enc(nf)))
                exp.append(gm); tags.append(("bed12", repr({k: v for k, v in case.items() if k != "info"})))
            # to_bed12
            try:
                got = convert.to_bed12(info["id"] if r.random() < 0.5 else db[info["id"]], db,
                                       child_type=info.get("tn", TN_PLAIN)["exon"], name_field="ID")
                f = got.rstrip("\n").split("\t")
                ex = info["exons"]
                ok = (len(f) == 12 and int(f[1]) == info["start"] - 1 and int(f[2]) == info["end"] and f[3] == info["id"]
                      and int(f[9]) == len(ex) and (not ex or [int(x) for x in f[10].split(",")] == [b - a + 1 for a, b in ex]))
                if not ok:
                    res.oracle_failures.append(("to_bed12 fields wrong", {"lines": lines, "transcript": info["id"], "returned": got}))
                gm = "ok " + enc(got)
            except Exception as exn:
                gm = "err " + dbside.err_name(exn)
            res.evaluations += 1
            cmds.append("tobed12 %s %s %s" % (enc(info["id"]), enc(info.get("tn", TN_PLAIN)["exon"]), enc("ID"))); exp.append(gm)
            tags.append(("to_bed12", repr((lines, info["id"]))))
            # len
            ft = db[info["id"]]
            if len(ft) != info["end"] - info["start"] + 1:
                res.oracle_failures.append(("len(feature) != end - start + 1", {"feature": str(ft)}))
        if len(res.samples) < 2:
            res.sample({"lines": lines[:6]})
    # history on ONE FeatureDB object: the transcript is looked up (db[id], bed12), then stretched over a newly attached
    # exon by add_relation(..., parent_func=...) (which stores what the function returns), then bed12 again: the line
    # must be that of the transcript and blocks as they are stored now
    rh = ctx.rng("c18", "history: add_relation rewrites the transcript")
    for hi in range(12 if not ctx.thorough else 120):
        strand = rh.choice("+-")
        pos = rh.randrange(1, 300)
        exons = []
        for e in range(rh.randrange(2, 6)):
            ln = rh.randrange(5, 90)
            exons.append((pos, pos + ln - 1))
            pos += ln + rh.randrange(1, 150)
        tid = "h%d" % hi
        early = {"id": tid, "start": exons[0][0], "end": exons[-2][1], "strand": strand, "exons": exons[:-1], "cds": [],
                 "utr": [], "name": "N" + tid, "score": ".", "tn": dict(TN_PLAIN)}
        late = dict(early, end=exons[-1][1], exons=exons)
        hl = [gen_db.gff_line("chr1", "mRNA", early["start"], early["end"], strand, [("ID", [tid]), ("Name", ["N" + tid])])]
        for i, (a, b) in enumerate(exons[:-1]):
            hl.append(gen_db.gff_line("chr1", "exon", a, b, strand, [("ID", ["%se%d" % (tid, i)]), ("Parent", [tid])]))
        hl.append(gen_db.gff_line("chr1", "exon", exons[-1][0], exons[-1][1], strand, [("ID", [tid + "new"])]))
        hp = dbside.write_lines(os.path.join(ctx.scratch, "c18h.gff3"), hl)
        hdb, hrep = dbside.py_create(hp, dbside.Cfg())
        if hdb is None:
            res.oracle_failures.append(("create_db raised: " + hrep, {"lines": hl}))
            continue
        hcase = {"scenario": "bed12_history", "input": hl, "transcript": tid, "no_shrink": True}
        steps = []
        try:
            if hi % 3 != 2:
                hdb[tid]; steps.append("db[%r]" % tid)
            if hi % 3 != 1:
                got0 = hdb.bed12(tid if hi % 2 else hdb[tid], thick_featuretype="exon", name_field="Name"); steps.append("bed12")
                why0 = bed_oracle(early, ["exon"], ["exon"], None, "Name", got0)
                if why0:
                    common.fail(res, hcase, "bed12_fields_wrong", "bed12 (before the history): " + why0, returned=got0)

            def stretch(parent, child):
                parent.end = max(parent.end, child.end)
                return parent
            hdb.add_relation(tid, tid + "new", 1, parent_func=stretch); steps.append("add_relation(parent_func=stretch)")
            arg = tid if hi % 2 == 0 else hdb[tid]
            try:
                got1 = hdb.bed12(arg, thick_featuretype="exon", name_field="Name")
            except Exception as ex:
                got1 = ("raised", type(ex).__name__)
            why1 = bed_oracle(late, ["exon"], ["exon"], None, "Name", got1)
            res.evaluations += 1
            res.count("bed12_after_add_relation_rewrote_the_transcript")
            if why1:
                common.fail(res, dict(hcase, steps=steps), "bed12_stale_after_rewrite",
                            "bed12 after the transcript was rewritten in place by add_relation(parent_func=...): " + why1,
                            returned=got1, error=(got1[1] if isinstance(got1, tuple) else None))
        except Exception as ex:
            common.fail(res, dict(hcase, steps=steps), "history_raised", "the history raised %r" % ex,
                        error=dbside.err_name(ex))
    # sequence ----------------------------------------------------------------------------------------
    def seq_case(ref, a, b, strand, us, stream):
        case = {"scenario": "sequence", "stream": stream, "reference": ref, "seqid": "chrR", "start": a, "end": b,
                "strand": strand, "use_strand": us, "no_shrink": True}
        got = judge_sequence(ctx, res, case)
        res.evaluations += 1
        res.count("sequence_" + stream)
        window = ref[a - 1:b]
        if us and strand == "-" and any(c in MODEL_TABLE_WRONG for c in window):
            res.count("sequence_minus_window_with_RYKMBVDH")
            res.nontriv(("seq-iupac", stream, a, b))
            if not MODEL_IUPAC_COMPLEMENT:
                res.count("sequence_not_sent_to_model(Export.complement lacks RYKMBVDH)")
                return
        if isinstance(got, str):
            cmds.append("seq %s %s %d %d %s %d" % (enc(ref), enc("chrR"), a, b, enc(strand), 1 if us else 0))
            exp.append("ok " + enc(got)); tags.append(("Feature.sequence", repr((stream, ref if len(ref) < 80 else "", a, b, strand, us))))

    ref = "".join(r.choice(PLAIN) for _ in range(500))
    for i in range(300 if not ctx.thorough else 3000):
        a = r.randrange(1, 501)
        b = r.randrange(a, 501)
        seq_case(ref, a, b, r.choice("+-."), r.random() < 0.7, "acgtn")
    # references with IUPAC ambiguity codes in both cases (legal FASTA; the reverse complement maps R<->Y, K<->M, B<->V,
    # D<->H and keeps S, W, N).  (i) every code once, in random order: every single-base window and every window
    # of a few bases on the minus strand; (ii) a random 300-base reference over the 30 codes.
    r3 = ctx.rng("c18", "iupac")
    codes = list(IUPAC)
    r3.shuffle(codes)
    ref2 = "".join(codes)
    for a in range(1, len(ref2) + 1):
        seq_case(ref2, a, a, "-", True, "iupac_each_code")
    for i in range(60 if not ctx.thorough else 465):
        a = r3.randrange(1, len(ref2) + 1)
        b = r3.randrange(a, len(ref2) + 1)
        seq_case(ref2, a, b, r3.choice("--+."), r3.random() < 0.8, "iupac_each_code")
    ref3 = "".join(r3.choice(IUPAC) for _ in range(300))
    for i in range(150 if not ctx.thorough else 2000):
        a = r3.randrange(1, 301)
        b = min(300, a + int(r3.expovariate(0.05))) if i % 2 else r3.randrange(a, 301)
        seq_case(ref3, a, b, r3.choice("--+."), r3.random() < 0.8, "iupac_random")
    # one FASTA path whose content changes between calls (lengths 500 / 300 / 30 in turn)
    for i in range(9 if not ctx.thorough else 60):
        rr = [ref, ref3, ref2][i % 3]
        a = r3.randrange(1, len(rr) + 1)
        b = r3.randrange(a, len(rr) + 1)
        seq_case(rr, a, b, r3.choice("+-"), True, "reused_path")
    out = ctx.model(cmds)
    if out is not None:
        for c, m, e, (comp, inp) in zip(cmds, out, exp, tags):
            res.corr_checked += 1
            if m != e:
                res.corr_disagreements.append((comp, inp[:900], m[:300], e[:300]))
    res.assumptions = ["block / thick / thin children have pairwise different starts (SQL leaves ties unordered): a call whose "
                       "block features (of several featuretypes) tie on their start with different ends is not judged",
                       "with several block featuretypes 'the blocks span the feature' is read as the property text puts it for "
                       "a returned line: first block starting at chromStart, the block that starts last ending at chromEnd",
                       "reference sequences over the IUPAC nucleotide codes ACGTRYKMSWBDHVN in both cases (no U, gap or "
                       "other symbols: pyfaidx refuses to complement those); 1 <= start <= end <= len(sequence)",
                       "exactly one of thick_featuretype / thin_featuretype is given (both -> ValueError; neither -> the "
                       "code raises UnboundLocalError, outside the property's 'all block/thick/thin choices')"]
    return res


REUSED = [0]


def judge_sequence(ctx, res, case):
    """the sequence clause on one (reference, start, end, strand, use_strand); returns what the real code returned"""
    from gffutils.feature import Feature
    ref, a, b = case["reference"], case["start"], case["end"]
    fa = os.path.join(ctx.scratch, "ref-%s.fa" % hashlib.sha1(ref.encode()).hexdigest()[:12])
    if case.get("stream") == "reused_path":
        # ONE file name whose content is replaced between calls (a regenerated reference): an index built for the earlier
        # content is older than the file and must not be used for the new one
        fa = os.path.join(ctx.scratch, "ref-reused.fa")
        REUSED[0] += 1
        if os.path.exists(fa):
            os.unlink(fa)
    if not os.path.exists(fa):
        with open(fa, "w") as fh:
            width = 60
            if case.get("stream") == "reused_path":
                # the regenerated file is laid out differently: another line width, now and then another record first
                width = [60, 50, 70, 35][REUSED[0] % 4]
                if REUSED[0] % 3 == 1:
                    fh.write(">other\n" + "ACGT" * (7 + REUSED[0]) + "\n")
            fh.write(">%s\n" % case["seqid"])
            for i in range(0, len(ref), width):
                fh.write(ref[i:i + width] + "\n")
    if case.get("stream") == "reused_path":
        import time
        t = time.time() + 10 * REUSED[0]              # strictly newer than any index written so far
        os.utime(fa, (t, t))
    f = Feature(seqid=case["seqid"], start=a, end=b, strand=case["strand"])
    want = ref[a - 1:b]
    if case["use_strand"] and case["strand"] == "-":
        want = "".join(COMP[c] for c in reversed(want))
    try:
        got = f.sequence(fa, use_strand=case["use_strand"])
    except Exception as ex:
        common.fail(res, case, "sequence_raised", "sequence() raised %r" % ex, error=dbside.err_name(ex), expected=want)
        return ("raised", type(ex).__name__)
    if got != want or len(got) != len(f) or len(f) != b - a + 1:
        common.fail(res, case, "sequence_wrong",
                    "sequence() is not bases start..end (reverse-complemented on '-'%s)"
                    % (": IUPAC ambiguity codes in the window" if any(c not in PLAIN for c in ref[a - 1:b]) else ""),
                    returned=got, expected=want, window=ref[a - 1:b])
    return got


def judge(ctx, case):
    res = common.Result("C18")
    if case.get("scenario") == "sequence":
        judge_sequence(ctx, res, case)
        res.evaluations = 1
    elif case.get("scenario") == "bed12":
        judge_bed12(ctx, res, case)
        res.evaluations = 1
    return res


def replay(ctx, payload):
    inp = payload.get("input")
    if isinstance(inp, dict) and inp.get("scenario") in ("sequence", "bed12"):
        return common.replay_failure("C18", payload, lambda case: judge(ctx, case))
    res = common.Result("C18")
    print("replay:", payload.get("what"), payload.get("input"))
    return res
