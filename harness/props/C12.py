"""C12 - genomic binning is sound.

correspondence: `bins.bins` vs GffModel.Bins.bins on exhaustive boundary pairs + random pairs, both
conventions, both modes; `Feature.bin` vs the model.  constants of bins.py vs the model's.
oracle (independent of the model): interval arithmetic on bin extents, written from the property text.
"""
import itertools

import os
import common

TRUSTED = ["Python int semantics of >> (arithmetic shift) = Int.shiftRight (validated by the correspondence)"]
TRANSLATION_TIE = "bins"        # vcheck: harness/gentie.py (bins.py translated to Lean, proved equal to the model)
LEANCHECKER_MODULES = ["GffProofs.Props.C12"]

M = 2 ** 29
SIZES = [2 ** (17 + 3 * k) for k in range(5)]
OFFS = [4681, 585, 73, 9, 1]


def bin_extent(b):
    """0-based half-open extent of bin id b, or None if b is not a bin of the 5-level scheme."""
    for k in range(5):
        n = M // SIZES[k]
        if OFFS[k] <= b < OFFS[k] + n:
            i = b - OFFS[k]
            return (i * SIZES[k], (i + 1) * SIZES[k], k)
    return None


def source_literals():
    import ast
    import gffutils.bins as B_
    out = set()
    try:
        tree = ast.parse(open(B_.__file__, encoding="utf-8").read())
        import sys as _sys
        _sys.path.insert(0, os.path.join(common.VERIF, "tools"))
        import py2lean
        env = {k: v for k, v in py2lean.module_constants(tree).items() if isinstance(v, int)}
        for n in ast.walk(tree):
            if isinstance(n, ast.Constant) and isinstance(n.value, int) and not isinstance(n.value, bool):
                out.add(n.value)
            elif isinstance(n, (ast.BinOp, ast.UnaryOp)):
                try:
                    out.add(py2lean.const_int(n, env))        # a constant subexpression such as 2**29 or 10**15 + 7
                except Exception:
                    pass
    except Exception:
        pass
    for name in dir(B_):
        v = getattr(B_, name)
        if isinstance(v, int) and not isinstance(v, bool):
            out.add(v)
    return sorted(c for c in out if abs(c) < 10 ** 30)


def coords(ctx, n_target):
    pts = set()
    for d in (-2, -1, 0, 1, 2):
        pts.add(0 + d)
        pts.add(M + d)
    r = ctx.rng("coords")
    per_level = max(4, n_target // 30)
    for k in range(5):
        n = M // SIZES[k]
        mults = set([0, 1, 2, n - 1, n, n // 2, 7, 8, 9, 63, 64, 65, 511, 512, 513])
        mults = {m for m in mults if 0 <= m <= n}
        while len(mults) < min(n + 1, per_level):
            mults.add(r.randrange(0, n + 1))
        for m in mults:
            for d in (-2, -1, 0, 1, 2):
                pts.add(m * SIZES[k] + d)
    # every integer literal / integer module constant of the bins.py imported NOW, +-2: a threshold written into the source
    # is a boundary of its behaviour whether or not it is one of the scheme's (directed search for a failing input)
    lits = source_literals()
    for c in lits:
        for d in (-2, -1, 0, 1, 2):
            pts.add(c + d)
    pts = sorted(pts)
    if len(pts) > n_target:
        keep = set(pts[:8] + pts[-8:])
        keep.update(x for x in pts if any(abs(x - c) <= 2 for c in lits))
        keep.update(x for x in pts if abs(x) <= 2 or abs(x - M) <= 2)
        rest = [x for x in pts if x not in keep]
        r.shuffle(rest)
        keep.update(rest[: n_target - len(keep)])
        pts = sorted(keep)
    return pts


def canon(v):
    if isinstance(v, bool):
        return "o %r" % v
    if isinstance(v, int):
        return "i %d" % v
    if isinstance(v, (set, frozenset)):
        return "s " + " ".join(str(x) for x in sorted(v))
    return "o %r" % (v,)


def oracle(s, e, fmt, one, got):
    """None if the property holds for this call, else a description."""
    co = 1 if fmt == "gff" else 0
    in_range = (co <= s) and s < M and 0 <= e < M
    if one:
        if not isinstance(got, int) or isinstance(got, bool):
            return "one=True did not return one integer bin: %r" % (got,)
        if not in_range:
            return None if got == 1 else "out-of-range coordinates did not map to bin 1: %r" % got
        ext = bin_extent(got)
        if ext is None:
            return "not a bin of the 5-level scheme: %r" % got
        lo, hi, k = ext
        a = s - co            # 0-based first position ; last position is e-1 ; following base is e
        if a <= e - 1 and not (lo <= a and e - 1 < hi):
            return "bin %d [%d,%d) does not contain the interval" % (got, lo, hi)
        # smallest bin containing the interval plus the following base
        for kk in range(5):
            if a // SIZES[kk] == e // SIZES[kk]:
                break
        if k > kk:
            return "bin %d (level %d) is coarser than the smallest bin containing interval+1 (level %d)" % (got, k, kk)
        return None
    else:
        if not isinstance(got, (set, frozenset)):
            return "one=False did not return a set: %r" % (got,)
        if not in_range:
            return None if got == {1} else "out-of-range coordinates did not map to {1}: %r" % (sorted(got),)
        a = s - co
        for b in got:
            ext = bin_extent(b)
            if ext is None:
                return "member %r is not a bin" % b
            lo, hi, k = ext
            # overlaps the interval or the base on either side: positions a-1 .. e
            if not (lo <= e and a - 1 < hi):
                return "member %d [%d,%d) overlaps neither the interval nor a neighbouring base" % (b, lo, hi)
        # every bin overlapping the interval [a, e-1] is present
        if a <= e - 1:
            for k in range(5):
                for j in (a // SIZES[k], (e - 1) // SIZES[k], (a // SIZES[k] + (e - 1) // SIZES[k]) // 2):
                    if OFFS[k] + j not in got:
                        return "bin %d (level %d) overlaps the interval but is missing" % (OFFS[k] + j, k)
            if len(got) < 1 + sum(((e - 1) // SIZES[k]) - (a // SIZES[k]) + 1 for k in range(4)):
                return "fewer bins than the interval overlaps"
        return None


def run(ctx):
    from gffutils import bins as B
    from gffutils.feature import Feature
    res = common.Result("C12")
    res.rule = ("all ordered pairs of boundary coordinates (multiples of 2^(17+3k) +-{0,1,2} for every level k, 0+-2, "
                "2^29+-2; thinned to a fixed count) x fmt in {gff,bed} x one in {True,False}, plus random pairs incl. "
                "negatives and > 2^29; overlapping pairs of intervals for the bin-in-bin-set consequence; Feature.bin. "
                "non-trivial = in-range call (not answered by an out-of-range guard), distinct by (s,e,fmt,one)")
    # constants -----------------------------------------------------------------------------
    live = "consts first_shift=%d next_shift=%d offsets=%s max_chrom=%d off_gff=%d off_bed=%d" % (
        B.FIRST_SHIFT, B.NEXT_SHIFT, "[" + ", ".join(map(str, B.OFFSETS)) + "]", B.MAX_CHROM_SIZE,
        B.COORD_OFFSETS["gff"], B.COORD_OFFSETS["bed"])
    n_pts = 300 if not ctx.thorough else 1000
    pts = coords(ctx, n_pts)
    r = ctx.rng("random")
    calls = []
    for s, e in itertools.product(pts, pts):
        for fmt in ("gff", "bed"):
            for one in (True, False):
                if not one and (e - s) > 40 * SIZES[0] and r.random() < 0.9:
                    continue  # huge sets: keep a tenth
                calls.append((s, e, fmt, one))
    n_rand = 100000 if not ctx.thorough else 1000000
    for _ in range(n_rand):
        mode = r.random()
        if mode < 0.6:
            s = r.randrange(-5, M + 5)
            e = s + int(r.expovariate(1 / 50000.0)) * r.choice([1, 1, 1, -1])
        elif mode < 0.8:
            k = r.randrange(5)
            s = r.randrange(0, M // SIZES[k] + 1) * SIZES[k] + r.randrange(-3, 4)
            e = s + r.randrange(-3, 4) + r.choice([0, SIZES[k], 2 * SIZES[k]])
        else:
            s = r.randrange(-2 * M, 3 * M)
            e = r.randrange(-2 * M, 3 * M)
        one = r.random() < 0.7 or abs(e - s) > 40 * SIZES[0]
        calls.append((s, e, r.choice(["gff", "bed"]), one))
    res.sample({"bins_calls_first": [list(c) for c in calls[:3]], "bins_calls_last": [list(c) for c in calls[-3:]]})

    lines = ["consts"] + ["bins %d %d %s %d" % (s, e, fmt, 1 if one else 0) for s, e, fmt, one in calls]
    mout = ctx.model(lines)
    if mout is not None:
        res.constants_checked = {"live": live, "model": mout[0], "equal": live == mout[0]}
        res.corr_checked += 1
        if live != mout[0]:
            res.corr_disagreements.append(("constants of bins.py", "consts", mout[0], live))
    for idx, (s, e, fmt, one) in enumerate(calls):
        try:
            got = B.bins(s, e, fmt=fmt, one=one)
        except Exception as ex:  # bins must be total on integers
            got = "raised %r" % ex
        res.evaluations += 1
        co = 1 if fmt == "gff" else 0
        if co <= s < M and 0 <= e < M:
            res.nontriv((s, e, fmt, one))
            res.count("in_range")
        else:
            res.count("out_of_range")
        why = oracle(s, e, fmt, one, got) if not isinstance(got, str) else got
        if why:
            res.oracle_failures.append((why, {"call": "gffutils.bins.bins", "start": s, "stop": e, "fmt": fmt,
                                              "one": one, "returned": canon(got)}))
        if mout is not None:
            res.corr_checked += 1
            if canon(got) != mout[idx + 1]:
                res.corr_disagreements.append(("bins.bins", "bins %d %d %s %s" % (s, e, fmt, one), mout[idx + 1],
                                               canon(got)))

    # consequence: the bin of one interval is in the bin set of any overlapping / nesting interval -------
    npairs = 20000 if not ctx.thorough else 200000
    inr = [p for p in pts if 1 <= p < M]
    for i in range(npairs):
        if i % 2:
            fs, fe, qs, qe = (r.choice(inr) for _ in range(4))
        else:
            fs = r.randrange(1, M); fe = min(M - 1, fs + int(r.expovariate(1 / 200000.0)))
            qs = max(1, fs + r.randrange(-300000, 300000)); qe = min(M - 1, qs + int(r.expovariate(1 / 200000.0)))
        overlap = fs <= qe and qs <= fe
        within = qs <= fs and fe <= qe
        if not (overlap or within):
            continue
        if abs(qe - qs) > 2000 * SIZES[0]:
            continue
        res.evaluations += 1
        res.count("overlap_pairs")
        b = B.bins(fs, fe, one=True)
        S = B.bins(qs, qe, one=False)
        if not isinstance(S, (set, frozenset)) or b not in S:
            res.oracle_failures.append(("bin of a feature is not among the bins of an overlapping/containing query",
                                        {"feature": [fs, fe], "query": [qs, qe], "bin": canon(b), "set": canon(S)}))

    # Feature.bin always equals bins(start, end) ------------------------------------------------------
    flines, fexp = [], []
    for i in range(3000 if not ctx.thorough else 30000):
        s = r.choice(pts) if i % 2 else r.randrange(1, M)
        e = r.choice(pts) if i % 3 == 0 else s + r.randrange(0, 400000)
        if s < 1:
            s = 1 - s
        try:
            f = Feature(seqid="c", start=s, end=e)
            fb = f.bin
            tb = f.astuple()[-1]
        except Exception as ex:
            fb = tb = "raised %r" % ex
        want = B.bins(s, e, one=True)
        res.evaluations += 1
        if fb != want or tb != want or isinstance(fb, (set, str)):
            res.oracle_failures.append(("Feature.bin differs from bins(start, end)",
                                        {"start": s, "end": e, "Feature.bin": canon(fb), "astuple_bin": canon(tb),
                                         "bins": canon(want)}))
        flines.append("bins %d %d gff 1" % (s, e)); fexp.append(canon(fb))
    mo = ctx.model(flines)
    if mo is not None:
        for ln, m, g in zip(flines, mo, fexp):
            res.corr_checked += 1
            if m != g:
                res.corr_disagreements.append(("Feature.bin", ln, m, g))
    # the stored bin (astuple) follows the *current* coordinates, also after they were changed ---------------------
    for i in range(2000 if not ctx.thorough else 20000):
        a = r.choice(inr); b = a + r.randrange(0, 300000)
        a2 = r.choice(inr); b2 = a2 + r.choice([0, 1, 10, SIZES[0], r.randrange(0, 400000)])
        f = Feature(seqid="c", start=a, end=b)
        f.start, f.end = a2, b2
        res.evaluations += 1
        tb = f.astuple()[-1]
        want = B.bins(a2, b2, one=True)
        if tb != want:
            res.oracle_failures.append(("the bin written for a feature whose coordinates were changed after construction "
                                        "is not bins(start, end)", {"constructed": [a, b], "now": [a2, b2],
                                                                    "astuple_bin": canon(tb), "bins": canon(want)}))
    # features yielded by interfeatures carry the bin of their own coordinates ---------------------------------------
    import gffutils
    tiny = gffutils.create_db("chr1\t.\tgene\t1\t2\t.\t+\t.\tID=g\n", ":memory:", from_string=True)
    for i in range(600 if not ctx.thorough else 6000):
        k = r.randrange(4)
        edge = r.randrange(1, min(M // SIZES[k], 50)) * SIZES[k]
        e1 = edge + r.choice([-2, -1, 0, 1, 2])
        s2 = e1 + r.choice([2, 3, 5000, SIZES[0], SIZES[0] + 1])
        if r.random() < 0.5:
            s2 = r.randrange(1, 40) * SIZES[k] + r.choice([-1, 0, 1, 2]) + edge
            if s2 <= e1 + 1:
                continue
        f1 = Feature(seqid="chr1", featuretype="exon", start=max(1, e1 - 50), end=e1, strand="+", attributes={"ID": ["a"]})
        f2 = Feature(seqid="chr1", featuretype="exon", start=s2, end=s2 + 50, strand="+", attributes={"ID": ["b"]})
        for g in tiny.interfeatures([f1, f2]):
            res.evaluations += 1
            want = B.bins(g.start, g.end, one=True)
            if g.bin != want:
                res.oracle_failures.append(("an interfeature's bin is not bins(start, end)",
                                            {"start": g.start, "end": g.end, "Feature.bin": canon(g.bin), "bins": canon(want)}))
    # every write path of the database stores bins(start, end) with the coordinates it stores ------------------------------
    import warnings

    def stored_bins(db, when, history):
        c = db.conn.cursor()
        c.execute("SELECT id, start, end, bin FROM features")
        for fid, s_, e_, b_ in c.fetchall():
            if s_ is None or e_ is None:
                continue
            res.evaluations += 1
            want = B.bins(s_, e_, one=True)
            if b_ != want:
                res.oracle_failures.append(("the bin stored for a feature is not bins(start, end) of the coordinates stored "
                                            "with it (%s)" % when, {"id": fid, "start": s_, "end": e_, "stored_bin": b_,
                                                                    "bins": canon(want), "history": history}))
                return False
        return True

    def gl(fid, s_, e_, parent=None, ft="exon"):
        return "chr1\tsrc\t%s\t%d\t%d\t.\t+\t.\tID=%s%s" % (ft, s_, e_, fid, ";Parent=" + parent if parent else "")

    rb = ctx.rng("c12", "stored bins")
    for i in range(40 if not ctx.thorough else 400):
        k = rb.randrange(3)
        a = rb.randrange(1, 30) * SIZES[k] + rb.choice([-3, 1, 5])
        a = max(1, a)
        b = a + rb.choice([10, 100, SIZES[0] // 2])
        # the moved coordinates lie in another bin (another multiple of the bin size, or a span across a boundary)
        a2 = max(1, rb.randrange(31, 60) * SIZES[k] + rb.choice([-3, 1, 5]))
        b2 = a2 + rb.choice([10, SIZES[0] + 5, 3 * SIZES[1]])
        hist = []
        lines = [gl("g", 1, 10, ft="gene"), gl("x", a, b, "g"), gl("y", a + 20, b + 20, "g")]
        with warnings.catch_warnings():
            warnings.simplefilter("ignore")
            try:
                mode = i % 5
                if mode == 0:
                    hist.append("create_db(merge_strategy='replace') with the ID x twice, the second at other coordinates")
                    db = gffutils.create_db("\n".join(lines + [gl("x", a2, b2, "g")]) + "\n", ":memory:", from_string=True,
                                            merge_strategy="replace")
                elif mode == 4:
                    hist.append("create_db(transform=shift every feature by %d)" % (a2 - a))

                    def shift(f, d=a2 - a):
                        f.start += d
                        f.end += d
                        return f
                    db = gffutils.create_db("\n".join(lines) + "\n", ":memory:", from_string=True, transform=shift)
                else:
                    db = gffutils.create_db("\n".join(lines) + "\n", ":memory:", from_string=True)
                if not stored_bins(db, "after create_db", list(hist)):
                    continue
                if mode == 1:
                    hist.append("update([x moved to %d..%d], merge_strategy='replace')" % (a2, b2))
                    f = db["x"]
                    f.start, f.end = a2, b2
                    db.update([f], merge_strategy="replace", make_backup=False)
                elif mode == 2:
                    hist.append("add_relation('g', 'x', 2, child_func=move x to %d..%d)" % (a2, b2))

                    def move(parent, child):
                        child.start, child.end = a2, b2
                        return child
                    db.add_relation("g", "x", 2, child_func=move)
                elif mode == 3:
                    hist.append("merge_all()")
                    db.merge_all(featuretypes_groups=(["exon"],))
                stored_bins(db, "after " + hist[-1] if hist else "after create_db", list(hist))
                res.count("stored_bins_history_mode_%d" % mode)
            except Exception as ex:
                res.oracle_failures.append(("a write path raised %r" % ex, {"history": hist, "lines": lines}))
    # the set bins(..., one=False) returns belongs to the caller: changing it in place must not change later answers ----
    for (a, b) in [(0, 5), (-3, 9), (M, M + 5), (M + 7, 3), (5, -1), (1, 10), (SIZES[0], SIZES[0] + 5)]:
        first = B.bins(a, b, one=False)
        keep = set(first)
        if isinstance(first, set):
            first.update({987654, 3})
            first.discard(1)
        again = B.bins(a, b, one=False)
        res.evaluations += 1
        if again != keep:
            res.oracle_failures.append(("bins(..., one=False) answers differently after the set it returned earlier was changed "
                                        "in place by the caller", {"start": a, "stop": b, "first": canon(keep), "again": canon(again)}))
    # the module's own helpers (print_bin_sizes, with every boolean option flipped) do not disturb bins() ------------------
    import contextlib
    import inspect as _inspect
    import io
    probe = [(1, 1), (200000, 200000), (SIZES[1] - 1, SIZES[1] + 1), (1, M - 1)]
    before = [canon(B.bins(a, b, one=o)) for a, b in probe for o in (True, False)]
    for name in ("print_bin_sizes",):
        fn = getattr(B, name, None)
        if fn is None:
            continue
        try:
            params = _inspect.signature(fn).parameters
        except (TypeError, ValueError):
            params = {}
        calls = [{}] + [{k: (not v.default)} for k, v in params.items() if isinstance(v.default, bool)]
        for kw in calls:
            try:
                with contextlib.redirect_stdout(io.StringIO()):
                    fn(**kw)
            except Exception:
                pass
            after = [canon(B.bins(a, b, one=o)) for a, b in probe for o in (True, False)]
            res.evaluations += 1
            if after != before:
                res.oracle_failures.append(("bins() answers differently after a call of bins.%s(%s)" % (name, kw),
                                            {"probe": probe, "before": before, "after": after}))
                break
    # a coordinate that is exactly 0 is a coordinate (bin 1 under the GFF convention), not a missing one
    for (a, b) in [(0, 5), (0, 0), (5, 0), (0, SIZES[0] + 3)]:
        f0 = Feature(seqid="c", start=a, end=b)
        res.evaluations += 1
        if f0.bin != B.bins(a, b, one=True) or f0.astuple()[-1] != B.bins(a, b, one=True):
            res.oracle_failures.append(("Feature.bin differs from bins(start, end) for a coordinate 0",
                                        {"start": a, "end": b, "Feature.bin": canon(f0.bin), "bins": canon(B.bins(a, b, one=True))}))
    f = Feature(seqid="c", start=".", end=".")
    if f.bin is not None:
        res.oracle_failures.append(("Feature without coordinates has a bin", {"bin": canon(f.bin)}))
    res.assumptions = ["bins() is called with Python ints (gffutils converts coordinates with int())"]
    return res


def replay(ctx, payload):
    from gffutils import bins as B
    res = common.Result("C12")
    i = payload.get("input", {})
    if i.get("call") == "gffutils.bins.bins":
        got = B.bins(i["start"], i["stop"], fmt=i["fmt"], one=i["one"])
        why = oracle(i["start"], i["stop"], i["fmt"], i["one"], got)
        res.evaluations = 1
        print("replay: bins(%d, %d, fmt=%r, one=%r) -> %s : %s" % (i["start"], i["stop"], i["fmt"], i["one"], canon(got), why or "holds"))
        if why:
            res.oracle_failures.append((why, i))
    return res
