"""C17 - attribute container, JSON storage form and feature equality are coherent.

correspondence (Lean model vs the real code):
  * `helpers._jsonify` of an Attributes / of a list, byte for byte, vs Json.encodeAttrs / encodeList
    (every Unicode scalar value at least once; generated mappings)
  * `helpers._unjsonify` on generated JSON (random whitespace, every escape style, surrogate pairs, repeated
    keys, bare-string values), on mutated JSON and on a hand-written list, vs Json.decodeAttrs / decodeList
  * `Attributes` operation sequences (set / update / update-from-Attributes / constructor / del / setdefault - sent
    to the model as `set` when the key is missing and as nothing otherwise) under both settings of
    `constants.always_return_list`: `_d` and `items()` vs Attributes.set/update/view
  * `feature[key] = v` / `feature.attributes[key] = v` / `feature.attributes.setdefault(key, v)` on parsed features
    (keys include the GFF column names: `score`, `source`, `end`, ...): attributes, printed line, `feature[key]`
  * `helpers.merge_attributes` on plain dicts and on Attributes objects, both settings, numeric_sort on/off
  * the decimal grammar of numeric_sort (and, on the Python side, that `float` orders that grammar like the
    exact values do)
  * `Feature == Feature`, `!=`
oracle (real code only, written from the property text): see `run`.

`constants.always_return_list` is a process-wide global: every use goes through `setting(...)`, which
restores it.
"""
import contextlib
import copy
import json as stdjson
import re
from fractions import Fraction

import common
import pyside
from common import dec, enc

TRUSTED = [
    "simplejson 4.1 dumps(separators=(',',':'), ensure_ascii=True) / loads: modelled at text level in "
    "GffModel/Json.lean, validated by the correspondence (all code points; generated + malformed JSON)",
    "float() on decimals with at most 15 digits is injective and monotone (IEEE double, correctly rounded): "
    "numeric_sort is modelled by exact comparison; checked on the Python side on generated pairs",
    "sorted()/set() of str: total order by code point; copy.deepcopy copies list values",
    "Python's str hash is a function of the text (hash_of_eq is stated for an arbitrary such function)",
]
LEANCHECKER_MODULES = ["GffProofs.Props.C17"]

DEC_RE = re.compile(r"-?[0-9]+(\.[0-9]+)?\Z")


def is_dec(s):
    """the decimal grammar of the model: -?D+(.D+)? with at most 15 digits in total"""
    return bool(DEC_RE.match(s)) and sum(c.isdigit() for c in s) <= 15 and s.isascii()


@contextlib.contextmanager
def setting(al):
    from gffutils import constants
    old = constants.always_return_list
    constants.always_return_list = al
    try:
        yield
    finally:
        constants.always_return_list = old


# ----------------------------------------------------------------------------------------------
# wire format

def pv(v):
    if isinstance(v, str):
        return "S" + enc(v)
    return ("T" if isinstance(v, tuple) else "L") + pyside.enc_list(v)


def pd(d):
    items = list(d.items()) if hasattr(d, "items") else list(d)
    if not items:
        return "_"
    return ";".join(enc(k) + "=" + pv(v) for k, v in items)


def has_surrogate(s):
    return any(0xD800 <= ord(c) <= 0xDFFF for c in s)


# ----------------------------------------------------------------------------------------------
# generators

SPECIAL = ['"', "\\", "/", "\b", "\f", "\n", "\r", "\t", "\x00", "\x01", "\x1f", " ", "~", "\x7f", "\x80", "\xa0",
           "\xe9", "\xef", "\xbb", "\xbf", "\u2028", "\u2029", "\ud7ff", "\ue000", "\ufeff", "\ufffe", "\uffff",
           "\U00010000", "\U0001f600", "\U000e0001", "\U0010ffff", "u", "n", ",", ":", "[", "]", "{", "}", "0", "d"]


def rand_char(r):
    x = r.random()
    if x < 0.45:
        return r.choice("abcxyzABC0189_-. ")
    if x < 0.8:
        return r.choice(SPECIAL)
    if x < 0.9:
        c = r.randrange(0, 0x10000)
        while 0xD800 <= c <= 0xDFFF:
            c = r.randrange(0, 0x10000)
        return chr(c)
    return chr(r.randrange(0x10000, 0x110000))


def rand_str(r, maxlen=6):
    return "".join(rand_char(r) for _ in range(r.choice([0, 1, 1, 2, 3, maxlen])))


KEYPOOL = ["ID", "Name", "Parent", "gene_id", "k", "j", "x", "", "é", "a b", "\U0001f600"]
VALPOOL = ["a", "b", "c", "gene1", "x", "y", "", "B", "é", "10", "9", "ab"]


def rand_key(r):
    return r.choice(KEYPOOL) if r.random() < 0.7 else rand_str(r, 4)


def rand_list(r, pool=None, maxn=4):
    n = r.choice([0, 1, 1, 1, 2, 2, 3, maxn])
    return [(r.choice(pool) if pool and r.random() < 0.7 else rand_str(r)) for _ in range(n)]


def rand_pyval(r, pool=None, tuples=True):
    x = r.random()
    if x < 0.3:
        return r.choice(pool) if pool and r.random() < 0.7 else rand_str(r)
    if tuples and x < 0.4:
        return tuple(rand_list(r, pool))
    return rand_list(r, pool)


def rand_pydict(r, pool=None, tuples=True, maxkeys=4):
    d = {}
    for _ in range(r.choice([0, 1, 2, 2, 3, maxkeys])):
        d[rand_key(r)] = rand_pyval(r, pool, tuples)
    return d


def rand_attrs(r):
    """dict str -> list of str (the stored shape)"""
    d = {}
    for _ in range(r.choice([0, 1, 2, 3, 5])):
        d[rand_key(r)] = rand_list(r)
    return d


NUMPOOL = ["0", "-0", "0.0", "00", "1", "01", "1.0", "1.00", "-1", "10", "9", "2", "2.5", "-2.5", "-10", "100",
           "1.5", "0.5", "12", "3", "999999999999999", "0.00000000000001", "-0.5", "5", "4.2"]
NONNUM = ["", "a", "1a", "x1", "1.2.3", "--1", "-", "1,5", "one", "0x10", "é", "1 2"]


def rand_dec(r):
    if r.random() < 0.6:
        return r.choice(NUMPOOL)
    ni = r.randrange(1, 15)
    nf = r.randrange(0, 16 - ni)
    s = "".join(r.choice("0123456789") for _ in range(ni))
    if nf:
        s += "." + "".join(r.choice("0123456789") for _ in range(nf))
    return ("-" if r.random() < 0.3 else "") + s


def float_accepts(s):
    try:
        float(s)
        return True
    except ValueError:
        return False


def rand_numval(r, p_non=0.08):
    if r.random() < p_non:
        s = r.choice(NONNUM)
        assert not float_accepts(s) or is_dec(s)
        return s
    return rand_dec(r)


# JSON text with a random surface form -------------------------------------------------------

NAMED = {'"': '\\"', "\\": "\\\\", "\b": "\\b", "\f": "\\f", "\n": "\\n", "\r": "\\r", "\t": "\\t", "/": "\\/"}


def uesc(n, r):
    h = "%04x" % n
    x = r.random()
    if x < 0.3:
        h = h.upper()
    elif x < 0.5:
        h = "".join(c.upper() if r.random() < 0.5 else c for c in h)
    return "\\u" + h


def json_str(s, r):
    out = ['"']
    for c in s:
        o = ord(c)
        must = c in '"\\' or o < 0x20
        if c in NAMED and (must or r.random() < 0.3) and r.random() < 0.8:
            out.append(NAMED[c])
        elif must or r.random() < 0.25:
            if o < 0x10000:
                out.append(uesc(o, r))
            else:
                o -= 0x10000
                out.append(uesc(0xD800 + (o >> 10), r) + uesc(0xDC00 + (o & 0x3FF), r))
        else:
            out.append(c)
    out.append('"')
    return "".join(out)


def ws(r):
    return "".join(r.choice(" \t\n\r") for _ in range(r.choice([0, 0, 0, 1, 1, 2])))


def json_array(l, r):
    if not l:
        return "[" + ws(r) + "]"
    return "[" + ",".join(ws(r) + json_str(x, r) + ws(r) for x in l) + "]"


def json_object(pairs, r):
    """pairs: list of (key, str | list of str); keys may repeat"""
    if not pairs:
        return ws(r) + "{" + ws(r) + "}" + ws(r)
    body = ",".join(ws(r) + json_str(k, r) + ws(r) + ":" + ws(r) +
                    (json_str(v, r) if isinstance(v, str) else json_array(v, r)) + ws(r) for k, v in pairs)
    return ws(r) + "{" + body + "}" + ws(r)


MUT_CHARS = list('"\\[]{}:,u0dD8 \x01x/-1.eE') + ["\\ud800", "\\udc00", "\\uD83D", "null", "true", "1", "[]", "{}",
                                                       "\ufeff", "\xef\xbb\xbf", "\x0b", "\x0c", "\xa0"]


def mutate(t, r):
    for _ in range(r.choice([1, 1, 2])):
        i = r.randrange(0, len(t) + 1)
        x = r.random()
        if x < 0.35 and t:
            i = min(i, len(t) - 1)
            t = t[:i] + t[i + 1:]
        elif x < 0.75:
            t = t[:i] + r.choice(MUT_CHARS) + t[i:]
        elif t:
            i = min(i, len(t) - 1)
            t = t[:i] + r.choice(MUT_CHARS) + t[i + 1:]
    return t


HAND_JSON = [
    '{}', ' { } ', '{"a":[]}', '{"a":["x"]}', '{"a": ["x"] }', '{"a":"x"}', '{"a":["x"],"a":["y"]}',
    '{"a":["x"],"b":["y"],"a":"z"}', '{"":[""]}', '[]', '[ ]', '["a","b"]', '["a",]', '[,"a"]', '{"a":["x"],}',
    '{,}', '{"a"}', '{"a":}', '{"a":["x"]', '{"a":["x"]}}', '{"a":["x"]} x', '{"a":[["x"]]}', '{"a":[1]}',
    '{"a":1}', '{"a":null}', '{"a":[null]}', '{"a":{"b":["c"]}}', '{"a":[true]}', '{1:["x"]}', "{'a':['x']}",
    '{"a":["\\u00e9\\u00E9"]}', '{"a":["\\ud83d\\ude00"]}', '{"a":["\\uD83D\\uDE00"]}', '{"a":["\\ud83d"]}',
    '{"a":["\\ude00"]}', '{"a":["\\ud83d\\u0041"]}', '{"a":["\\ud83dx"]}', '{"a":["\\ude00\\ud83d"]}',
    '{"a":["\\ud83d\\ud83d\\ude00"]}', '{"a":["\\ud83d\\uZZZZ"]}', '{"a":["\\ud83d\\ude0"]}', '{"a":["\\u12"]}',
    '{"a":["\\u 123"]}', '{"a":["\\u+123"]}', '{"a":["\\u-123"]}', '{"a":["\\u0x1"]}', '{"a":["\\u1_23"]}',
    '{"a":["\\x41"]}', '{"a":["\\a"]}', '{"a":["\\/"]}', '{"a":["\\"]}', '{"a":["\t"]}', '{"a":["\x1f"]}',
    '{"a":["\x7f"]}', '{"a":["\x00"]}', '{"a":["\\u0000"]}', '\ufeff{"a":["x"]}', '\ufeff\ufeff{}',
    '\xef\xbb\xbf{"a":[]}', '\xef\xbb{}', ' \ufeff{}', '\x0c{}', '{}\x0c', '\xa0{}', '{}\n\r\t ', '\n{\n"a"\n:\n[\n"x"\n,\n"y"\n]\n}\n',
    '', ' ', '"a"', 'null', '1', '{"a":["x"] "b":["y"]}', '{"a":["x"],,"b":["y"]}', '{"a" "x"}', '{"a"::["x"]}',
    '{"a":["x" "y"]}', '{"a":["x",,"y"]}', '[["a","b"]]', '[["a",["b"]]]', '{"a":["\\ud800\\udc00"]}',
    '{"a":["\\udbff\\udfff"]}', '{"a":["\\ud7ff\\ue000\\uffff"]}', '{"a":["\\uDBFF\\uDFFF\\uD800\\uDC00"]}',
    '{"a":["\\ud83d\\\\ude00"]}', '{"a":["\\\\ud83d\\ude00"]}', '{"a\\u0000b":["\\u001f"]}', '{"a":["NaN"]}', '{"a":[NaN]}',
    '{"a":[Infinity]}', '{"a":[-1]}', '{"a":[1.5e3]}', '{"a":["x"]}\ufeff', '{"a":\n["x"]}', '{"a"\t:["x"]}',
    '{ "a" : [ "x" , "y" ] , "b" : [ ] }', '[ "x" , "y" ]', '["x"', '["x"]]', '"', '{"', '{"a', '{"a"', '{"a":[', '{"a":["',
]


# ----------------------------------------------------------------------------------------------
# implementation side

def in_shape_obj(o):
    """o: ("obj", pairs) as produced by the pairs hook - every pair counts, also one that a repeated key overrides"""
    if not (isinstance(o, tuple) and len(o) == 2 and o[0] == "obj"):
        return False
    for k, v in o[1]:
        if not isinstance(k, str) or has_surrogate(k):
            return False
        if isinstance(v, str):
            if has_surrogate(v):
                return False
        elif isinstance(v, list):
            if not all(isinstance(x, str) and not has_surrogate(x) for x in v):
                return False
        else:
            return False
    return True


def in_shape_list(o):
    return isinstance(o, list) and all(isinstance(x, str) and not has_surrogate(x) for x in o)


def impl_jsondec(text, isattr=True):
    """`ok <attrs|list>` when loads() gives an object of the modelled shape, else `none` (+ why)"""
    from gffutils import helpers
    try:
        obj = helpers.json.loads(text, object_pairs_hook=lambda pairs: ("obj", pairs))
    except helpers.json.JSONDecodeError:
        return "none", "JSONDecodeError"
    if isattr:
        if not in_shape_obj(obj):
            return "none", "shape"
        a = helpers._unjsonify(text, isattributes=True)
        return "ok " + pyside.enc_attrs(a), "ok"
    if not in_shape_list(obj):
        return "none", "shape"
    return "ok " + pyside.enc_list(helpers._unjsonify(text)), "ok"


def mk_arg(kind, d):
    from gffutils.attributes import Attributes
    d = copy.deepcopy(d)
    return Attributes(d) if kind == "a" else d


def snapshot(x):
    """everything observable about a merge_attributes argument"""
    if hasattr(x, "_d"):
        return ("Attributes", [(k, type(v).__name__, list(v)) for k, v in x._d.items()])
    return ("dict", [(k, type(v).__name__, v if isinstance(v, str) else list(v)) for k, v in x.items()])


def impl_mattr(k1, k2, d1, d2, num, al):
    from gffutils import helpers
    a1, a2 = mk_arg(k1, d1), mk_arg(k2, d2)
    s1, s2 = snapshot(a1), snapshot(a2)
    with setting(al):
        try:
            got = helpers.merge_attributes(a1, a2, numeric_sort=num)
            out = "ok " + pyside.enc_attrs(got)
        except Exception as ex:
            got = ex
            out = "err " + pyside.err_name(ex)
    return out, got, (snapshot(a1) == s1 and snapshot(a2) == s2)


def values_of(d, k):
    v = d[k]
    return [v] if isinstance(v, str) else list(v)


def merge_oracle(d1, d2, num):
    """the property text: per key the sorted duplicate-free union; keys of the first argument first"""
    keys = list(d1) + [k for k in d2 if k not in d1]
    out = {}
    for k in keys:
        vals = set()
        if k in d1:
            vals.update(values_of(d1, k))
        if k in d2:
            vals.update(values_of(d2, k))
        if num and all(is_dec(v) for v in vals):
            out[k] = sorted(vals, key=lambda v: (Fraction(v), v))
        else:
            out[k] = sorted(vals)
    return out


def apply_ops_impl(ops, al):
    """ops on a fresh Attributes -> (`ok store items` | `err E`, object)"""
    from gffutils.attributes import Attributes
    a = Attributes()
    with setting(al):
        try:
            for op in ops:
                if op[0] == "set":
                    a[op[1]] = copy.deepcopy(op[2])
                elif op[0] == "upd":
                    a.update(copy.deepcopy(op[1]))
                elif op[0] == "upa":
                    a.update(Attributes(copy.deepcopy(op[1])))
                elif op[0] == "new":
                    a = Attributes(copy.deepcopy(op[1]))
                elif op[0] == "del":
                    del a[op[1]]
                elif op[0] == "sdf":
                    a.setdefault(op[1], copy.deepcopy(op[2]))
            return "ok %s %s" % (pd(a._d), pd(a.items())), a
        except Exception as ex:
            return "err " + pyside.err_name(ex), None


def lower_setdefault(ops):
    """the model has no setdefault op.  Attributes inherits setdefault from MutableMapping (`try: return self[key]` /
    `except KeyError: self[key] = default`), i.e. it is a `set` when the key is missing at that point and nothing
    otherwise: the same sequence with every ("sdf", k, v) rewritten that way (a `del` of a missing key ends it)"""
    keys, out = set(), []
    for op in ops:
        if op[0] == "sdf":
            if op[1] in keys:
                continue
            op = ("set", op[1], op[2])
        if op[0] == "set":
            keys.add(op[1])
        elif op[0] in ("upd", "upa"):
            keys.update(op[1].keys())
        elif op[0] == "new":
            keys = set(op[1].keys())
        elif op[0] == "del":
            if op[1] not in keys:
                out.append(op)
                break
            keys.discard(op[1])
        out.append(op)
    return out


def ops_cmd(ops, al):
    ws_ = []
    for op in lower_setdefault(ops):
        if op[0] == "set":
            ws_.append("set/%s/%s" % (enc(op[1]), pv(op[2])))
        elif op[0] in ("upd", "upa", "new"):
            ws_.append("%s/%s" % (op[0], pd(op[1])))
        else:
            ws_.append("del/%s" % enc(op[1]))
    return "aops %d %s" % (1 if al else 0, " ".join(ws_))


def ref_apply(ops):
    """the property text as a reference: a scalar is wrapped into a one-item list, sequences are kept"""
    ref = {}
    for op in ops:
        if op[0] == "set":
            ref[op[1]] = [op[2]] if isinstance(op[2], str) else op[2]
        elif op[0] in ("upd", "upa"):
            for k, v in op[1].items():
                ref[k] = [v] if isinstance(v, str) else v
        elif op[0] == "new":
            ref = {k: ([v] if isinstance(v, str) else v) for k, v in op[1].items()}
        elif op[0] == "del":
            if op[1] not in ref:
                return None
            del ref[op[1]]
        elif op[0] == "sdf":
            # "however they were set": a default stored for a missing key is wrapped like any other value that is set
            if op[1] not in ref:
                ref[op[1]] = [op[2]] if isinstance(op[2], str) else op[2]
    return ref


LINE_KEYS = ["ID", "Name", "Parent", "Note", "k1", "a_b", "Alias", "tag"]
LINE_VALCH = "abcXYZ019_.:-"


def rand_line(r):
    a = r.randrange(1, 100000)
    cols = [r.choice(["chr1", "2L", "X"]), r.choice(["src", ".", "FlyBase"]), r.choice(["gene", "mRNA", "exon"]),
            str(a), str(a + r.randrange(0, 5000)), r.choice([".", "0.5"]), r.choice("+-."), r.choice(".012")]
    keys = r.sample(LINE_KEYS + (COLUMN_KEYS[:8] if r.random() < 0.3 else []), r.choice([0, 1, 2, 3, 4]))
    parts = []
    for k in keys:
        vals = []
        for _ in range(r.choice([1, 1, 1, 2, 3])):
            v = "".join(r.choice(LINE_VALCH) for _ in range(r.randrange(1, 6)))
            if r.random() < 0.1:
                v += r.choice(["%2C", "%3B", "%3D", "%25", " x"])
            vals.append(v)
        parts.append(k + "=" + ",".join(vals))
    return "\t".join(cols + [";".join(parts)])


def seq_of_str(v):
    return isinstance(v, (list, tuple)) and all(isinstance(x, str) for x in v)


class Failures:
    """routes an oracle failure: recorded finding (known_findings.json) or violation"""

    def __init__(self, res):
        self.res = res
        self.known = {k["key"] for k in common.load_findings("C17")}
        self.counts = {}

    def add(self, what, payload, key=None):
        tag = key or "other"
        self.counts[tag] = self.counts.get(tag, 0) + 1
        if key and key in self.known:
            self.res.known_hits.setdefault(key, payload)
            return
        if self.counts[tag] <= 25:
            payload = dict(payload)
            if key:
                payload["finding"] = key
            self.res.oracle_failures.append((what, payload))


# ----------------------------------------------------------------------------------------------

def check_ops(F, res, ops, al):
    """oracle for one operation sequence on a fresh Attributes.  returns (the reply for the correspondence, whether
    the case is non-trivial: a scalar or a one-item list in the store)"""
    from gffutils import helpers
    ref = ref_apply(ops)
    out, a = apply_ops_impl(ops, al)
    res.evaluations += 1
    payload = {"kind": "ops", "ops": repr(ops), "always_return_list": al}
    if ref is None:
        if a is not None:
            F.add("deleting a missing key did not raise", payload)
        return out, False
    if a is None:
        F.add("Attributes operation raised " + out, payload)
        return out, False
    with setting(True):
        stored = [(k, a[k]) for k in a.keys()]
    with setting(False):
        viewed = [(k, a[k]) for k in a.keys()]
        js_f = helpers._jsonify(a)
    with setting(True):
        stored2 = [(k, a[k]) for k in a.keys()]
        js_t = helpers._jsonify(a)
    if [k for k, _ in stored] != list(ref.keys()) or any(
            not seq_of_str(v) or type(v) is not type(ref[k]) or v != ref[k] for k, v in stored):
        F.add("stored attribute values are not the sequences that were set (scalar -> one-item list)",
              dict(payload, stored=repr(stored), expected=repr(ref)))
    for (k, v), (_, w) in zip(stored, viewed):
        want = v[0] if (type(v) is list and len(v) == 1) else v
        if w != want or type(w) is not type(want):
            F.add("always_return_list=False changes more (or less) than the view of one-item lists",
                  dict(payload, key=k, stored=repr(v), viewed=repr(w)))
    if stored2 != stored or js_f != js_t:
        F.add("reading under always_return_list=False changed the stored values", payload)
    # the other read accessors are views of the same store: values(), iteration, len(), str()
    for al2, items in ((True, stored), (False, viewed)):
        with setting(al2):
            vals, it, n, txt = a.values(), list(iter(a)), len(a), str(a)
        if vals != [v for _, v in items] or it != [k for k, _ in items] or n != len(items) \
                or txt != "\n".join("%s: %s" % (k, v) for k, v in items):
            F.add("values() / iteration / len() / str() disagree with items() under always_return_list=%s" % al2,
                  dict(payload, items=repr(items), values=repr(vals), keys=repr(it), length=n))
    return out, any(isinstance(v, str) or (isinstance(v, list) and len(v) == 1) for k, v in stored)


COLUMN_KEYS = ["seqid", "source", "featuretype", "start", "end", "score", "strand", "frame", "attributes", "extra"]
HOWS = ["feature", "mapping", "setdefault"]


def lower_feature_sets(line, sets):
    """the (key, value) assignments the sets amount to on the feature parsed from `line`: setdefault is an assignment
    when the key is missing at that point and nothing otherwise"""
    from gffutils.feature import feature_from_line
    keys = set(feature_from_line(line).attributes.keys())
    out = []
    for how, k, v in sets:
        if how == "setdefault" and k in keys:
            continue
        keys.add(k)
        out.append((k, v))
    return out


def check_feature_sets(F, res, line, sets, al, source="parsed"):
    """oracle: on a feature obtained by parsing `line` (source 'parsed') or read back from a database made of that line
    ('db'), values set through the Feature (`f[k] = v`), through its mapping (`f.attributes[k] = v`) or with the mapping's
    setdefault are stored in the mapping as sequences of strings (a scalar wrapped), under every key - also keys spelled
    like a GFF column - and `f[k]` / `f.attributes[k]` show them (one-item lists unwrapped under always_return_list=False).
    returns (attributes, printed line, [(key, f[key])] under the setting - the first and the last in protocol form) or None"""
    import gffutils
    from gffutils.feature import feature_from_line
    payload = {"kind": "feature-set", "line": line, "sets": repr(sets), "always_return_list": al, "source": source}
    db = None
    if source == "db":
        try:                    # making the database is not what is judged here
            with setting(True):
                db = gffutils.create_db(line + "\n", ":memory:", from_string=True, id_spec=lambda feat: "feat1")
        except Exception:
            res.count("db_feature_skipped_create_db_raised")
            return None
    res.evaluations += 1
    try:
        if source == "db":
            with setting(al):
                f = next(iter(db.all_features()))
        else:
            f = feature_from_line(line)
        ref = {k: list(v) for k, v in f.attributes._d.items()}
        for how, k, v in sets:
            with setting(al):
                if how == "feature":
                    f[k] = copy.deepcopy(v)
                elif how == "mapping":
                    f.attributes[k] = copy.deepcopy(v)
                else:
                    f.attributes.setdefault(k, copy.deepcopy(v))
            if how != "setdefault" or k not in ref:
                ref[k] = [v] if isinstance(v, str) else v
        with setting(True):
            stored = [(k, f[k]) for k in f.attributes.keys()]
            stored_m = [(k, f.attributes[k]) for k in f.attributes.keys()]
        with setting(al):
            viewed = [(k, f[k]) for k in f.attributes.keys()]
            viewed_m = [(k, f.attributes[k]) for k in f.attributes.keys()]
    except Exception as ex:
        F.add("setting / reading attributes of a %s feature raised %r" % (source, ex), payload)
        return None
    for name, st in (("feature[key]", stored), ("feature.attributes[key]", stored_m)):
        if [k for k, _ in st] != list(ref.keys()) or any(not seq_of_str(v) or list(v) != list(ref[k]) for k, v in st):
            F.add("values set through the Feature / its attributes mapping are not stored as sequences of strings "
                  "(read through %s)" % name, dict(payload, stored=repr(st), expected=repr(ref)))
            break
    for name, st, vw in (("feature[key]", stored, viewed), ("feature.attributes[key]", stored_m, viewed_m)):
        for (k, v), (_, w) in zip(st, vw):
            want = v[0] if (not al and type(v) is list and len(v) == 1) else v
            if w != want:
                F.add("%s under always_return_list=%s is not the expected view" % (name, al),
                      dict(payload, key=k, stored=repr(v), viewed=repr(w)))
                break
    try:
        with setting(True):
            printed = str(f)
    except Exception as ex:
        printed = "!" + pyside.err_name(ex)
    try:
        attrs_enc = pyside.enc_attrs(f.attributes)
    except Exception as ex:
        attrs_enc = "!" + pyside.err_name(ex)
    try:
        viewed_enc = pd(viewed)
    except Exception as ex:
        viewed_enc = "!" + pyside.err_name(ex)
    return attrs_enc, printed, viewed_enc


def check_merge_case(F, res, case, out, got, unchanged):
    """oracle for one merge_attributes call"""
    k1, k2, d1, d2, num, al = case
    payload = {"kind": "merge", "k1": k1, "k2": k2, "attr1": d1, "attr2": d2, "numeric_sort": num,
               "always_return_list": al, "returned": repr(got)[:300]}
    aliased = case_aliased(d1) or case_aliased(d2)
    key = None
    if not al and k1 == "a":
        key = "D7"          # reads an Attributes through the always_return_list view (helpers.py L385-398)
    if not unchanged:
        F.add("merge_attributes modified an argument", payload, key)
        return
    want = merge_oracle(d1, d2, num)
    if isinstance(got, Exception):
        F.add("merge_attributes raised %s instead of returning the union" % type(got).__name__, payload, key)
        return
    ok = (isinstance(got, dict) and list(got.keys()) == list(want.keys())
          and all(type(got[k]) is list and got[k] == want[k] for k in want))
    if not ok:
        payload["expected"] = want
        F.add("merge_attributes is not the per-key sorted duplicate-free union of both arguments", payload,
              key or ("D19_alias" if aliased else None))


def case_aliased(d):
    seen = set()
    for v in d.values():
        if isinstance(v, list):
            if id(v) in seen:
                return True
            seen.add(id(v))
    return False


def run(ctx):
    import gffutils
    from gffutils import constants, helpers
    from gffutils.attributes import Attributes
    from gffutils.feature import Feature, feature_from_line
    res = common.Result("C17")
    F = Failures(res)
    r = ctx.rng("c17")
    T = ctx.thorough
    res.rule = ("(1) Attributes/Feature set-get: random op sequences (set / update / constructor / del / setdefault; "
                "scalar/list/tuple values, any Unicode) on fresh containers, on parsed features and on features read from "
                "a database (through feature[key], feature.attributes[key] and attributes.setdefault; keys present in "
                "the line, new ones and keys spelled like a GFF column), both settings of always_return_list; (2) JSON: every Unicode scalar value through _jsonify, generated mappings through "
                "_jsonify/_unjsonify/astuple/Feature(...)/a database, generated + mutated + hand-written JSON through "
                "_unjsonify; (3) merge_attributes on pairs with shared keys and colliding values, dict/Attributes "
                "arguments, both settings, numeric_sort on/off; (4) pairs of Features with equal and unequal printed "
                "lines. non-trivial = distinct input that exercises the clause (a scalar or one-item list for the "
                "switch, a character needing an escape for JSON, a shared key for merge_attributes, a pair for ==)")
    if constants.always_return_list is not True:
        raise common.Infra("constants.always_return_list is not at its default at the start of the check")
    cmds, exp, tags = [], [], []

    def corr(cmd, expected, comp, inp):
        cmds.append(cmd); exp.append(expected); tags.append((comp, inp))

    # ------------------------------------------------------------------------------------------------
    # (1) container: wrap on set, view switch
    n_ops = 2500 if not T else 25000
    for i in range(n_ops):
        ops = []
        for _ in range(r.choice([1, 2, 3, 5])):
            x = r.random()
            if x < 0.5:
                ops.append(("set", rand_key(r), rand_pyval(r, VALPOOL)))
            elif x < 0.65:
                ops.append(("upd", rand_pydict(r, VALPOOL)))
            elif x < 0.8:
                ops.append(("upa", rand_pydict(r, VALPOOL)))
            elif x < 0.87:
                ops.append(("new", rand_pydict(r, VALPOOL)))
            elif x < 0.93:
                ops.append(("del", rand_key(r)))
            else:
                # setdefault: missing and existing keys, scalar / list / tuple defaults
                ops.append(("sdf", rand_key(r), rand_pyval(r, VALPOOL)))
        for al in (True, False):
            out, nt = check_ops(F, res, ops, al)
            corr(ops_cmd(ops, al), out, "Attributes ops (always_return_list=%s)" % al, repr(ops))
            if nt:
                res.nontriv(("ops", repr(ops), al))
        if any(op[0] == "sdf" for op in ops):
            res.count("attributes_op_sequences_with_setdefault")
        res.count("attributes_op_sequences")
        if i < 2:
            res.sample({"ops": repr(ops), "store": repr(ref_apply(ops))})

    # features obtained by parsing or from a database: set through the Feature, through the mapping and with the
    # mapping's setdefault; attribute keys include the names of the GFF columns (FlyBase has `score=11` in column 9)
    n_f = 600 if not T else 6000
    for i in range(n_f):
        line = rand_line(r)
        present = [p_.split("=")[0] for p_ in line.split("\t")[8].split(";") if p_]
        sets = []
        for _ in range(r.choice([0, 1, 2, 3, 4])):
            x = r.random()
            k = r.choice(COLUMN_KEYS) if x < 0.3 else r.choice(present) if (x < 0.45 and present) else \
                r.choice(LINE_KEYS + ["new1", "é"])
            sets.append((r.choice(HOWS), k, rand_pyval(r, VALPOOL)))
        for source in (("parsed", "db") if i % 4 == 0 else ("parsed",)):
            for al in (True, False):
                got = check_feature_sets(F, res, line, sets, al, source)
                res.count("%s_features_with_sets" % source, 0 if al else 1)
                if got is None or source != "parsed":
                    continue
                attrs_enc, printed, viewed = got
                # the Feature model keeps the strings of a value, not whether it is a list or a tuple: Feature-level
                # correspondence on scalars and lists (tuples are covered at the Attributes level above)
                if not any(isinstance(v, tuple) for _, _, v in sets):
                    corr("fops %d %s %s" % (1 if al else 0, enc(line), " ".join(enc(k) + "/" + pv(v) for k, v in lower_feature_sets(line, sets))),
                         "ok %s %s %s" % (attrs_enc, enc(printed), viewed),
                         "Feature.__setitem__/__getitem__/attributes.setdefault", repr((line, sets, al)))
                if sets:
                    res.nontriv(("fset", line, repr(sets), al))
        for how, k, _ in sets:
            res.count("feature_set_via_" + how)
            if k in COLUMN_KEYS:
                res.count("feature_set_key_named_like_a_column")
    # directed: the eight column names (and `attributes`) as attribute keys, read from the line and set every way
    for k in COLUMN_KEYS:
        for line in ("chr2L\tFlyBase\tmRNA\t7529\t9484\t.\t+\t.\tID=FBtr0300689;score_text=Strongly Supported;%s=11" % k,
                     "chr2L\tFlyBase\tmRNA\t7529\t9484\t3\t+\t.\tID=x"):
            for how in HOWS:
                for v in ("12", ["3prime", "partial"]):
                    sets = [(how, k, v), ("feature", "Note", "curated")]
                    for source in ("parsed", "db"):
                        for al in (True, False):
                            got = check_feature_sets(F, res, line, sets, al, source)
                            if got is not None and source == "parsed":
                                corr("fops %d %s %s" % (1 if al else 0, enc(line), " ".join(
                                    enc(k2) + "/" + pv(v2) for k2, v2 in lower_feature_sets(line, sets))),
                                     "ok %s %s %s" % (got[0], enc(got[1]), got[2]),
                                     "Feature.__setitem__/__getitem__/attributes.setdefault (column-named key)",
                                     repr((line, sets, al)))

    # the switch must not change what parsing stores, nor the printed line ------------------------------------
    n_p = 300 if not T else 3000
    for i in range(n_p):
        line = rand_line(r)
        with setting(True):
            f_t = feature_from_line(line)
            store_t = [(k, list(v)) for k, v in f_t.attributes._d.items()]
            print_t = str(f_t)
        with setting(False):
            f_f = feature_from_line(line)
            print_f_of_t = str(f_t)
        with setting(True):
            store_f = [(k, list(f_f.attributes[k])) for k in f_f.attributes.keys()]
        res.evaluations += 1
        payload = {"kind": "parse-view", "line": line}
        if store_f != store_t:
            F.add("parsing under always_return_list=False stores other values than under True (the switch must only "
                  "change how one-item lists are viewed)", dict(payload, stored_true=repr(store_t),
                                                               stored_false=repr(store_f)), "D7_parse")
        if print_f_of_t != print_t:
            F.add("str(feature) depends on always_return_list (the switch must only change how one-item lists are "
                  "viewed)", dict(payload, printed_true=print_t, printed_false=print_f_of_t), "D7_print")
        res.count("parse_under_both_settings")

    # ------------------------------------------------------------------------------------------------
    # (2) JSON
    # every Unicode scalar value
    cps = [c for c in range(0x110000) if not 0xD800 <= c <= 0xDFFF]
    if not T:
        cps = [c for c in cps if c < 0x3100 or c % 251 == 0 or (c & 0xFFFF) in (0, 1, 0xFFFE, 0xFFFF)
               or 0xD700 <= c <= 0xE100 or 0xFE00 <= c <= 0x10100 or c >= 0x10FF00]
    chunk = 1500
    for i in range(0, len(cps), chunk):
        s = "".join(chr(c) for c in cps[i:i + chunk])
        a = Attributes({"k": [s]})
        text = helpers._jsonify(a)
        corr("jsonenc " + pyside.enc_attrs(a), "ok " + enc(text), "_jsonify (all code points)",
             "U+%04X.." % cps[i])
        res.evaluations += 1
        back = helpers._unjsonify(text, isattributes=True)
        if back._d != {"k": [s]} or stdjson.loads(text) != {"k": [s]}:
            F.add("JSON text -> back is not the identity", {"kind": "json", "attributes": {"k": [s[:50]]},
                                                            "first_code_point": cps[i]})
        corr("jsondec " + enc(text), "ok " + pyside.enc_attrs(a), "_unjsonify (all code points)", "U+%04X.." % cps[i])
    res.count("code_points_through_json", len(cps))

    n_j = 2500 if not T else 25000
    for i in range(n_j):
        d = rand_attrs(r)
        if r.random() < 0.2:
            d = {k: (tuple(v) if r.random() < 0.5 else v) for k, v in d.items()}
        a = Attributes(copy.deepcopy(d))
        extra = rand_list(r)
        al = r.random() < 0.5
        with setting(al):
            text = helpers._jsonify(a)
            back = helpers._unjsonify(text, isattributes=True)
            etext = helpers._jsonify(extra)
            eback = helpers._unjsonify(etext)
            f = Feature(seqid="c", start=1, end=2, attributes=copy.deepcopy(a), extra=list(extra))
            t = f.astuple()
            g = Feature(seqid="c", start=1, end=2, attributes=t[9], extra=t[10])
        res.evaluations += 1
        payload = {"kind": "json", "attributes": repr(d), "extra": extra, "always_return_list": al, "text": text}
        with setting(True):
            ok = (list(back.keys()) == list(d.keys())
                  and all(type(back[k]) is list and back[k] == list(d[k]) for k in d)
                  and list(g.attributes.keys()) == list(d.keys())
                  and all(g.attributes[k] == list(d[k]) for k in d))
        try:
            ind = stdjson.loads(text)
            ok_ind = list(ind.items()) == [(k, list(v)) for k, v in d.items()]
        except ValueError:
            ok_ind = False
        if not ok or not ok_ind or t[9] != text:
            F.add("attributes -> JSON text -> attributes is not the identity (content or key order)", payload)
        if eback != extra or g.extra != extra or t[10] != etext or stdjson.loads(etext) != extra:
            F.add("extra -> JSON text -> extra is not the identity", payload)
        corr("jsonenc " + pyside.enc_attrs(a), "ok " + enc(text), "_jsonify(attributes)", repr(d))
        corr("jsonencl " + pyside.enc_list(extra), "ok " + enc(etext), "_jsonify(extra)", repr(extra))
        if any(ord(c) > 0x7E or ord(c) < 0x20 or c in '"\\' for k, v in d.items() for s in [k] + list(v) for c in s):
            res.nontriv(("json", text))
        if i < 2:
            res.sample({"attributes": repr(d), "json": text})
    res.count("json_round_trips", n_j)

    # decode: generated surface forms, mutations, hand-written
    n_d = 3000 if not T else 30000
    texts = []
    for i in range(n_d):
        pairs = [(rand_key(r), (rand_str(r) if r.random() < 0.15 else rand_list(r))) for _ in range(r.choice([0, 1, 2, 3]))]
        t = json_object(pairs, r)
        if r.random() < 0.05:
            t = r.choice(["\ufeff", "\xef\xbb\xbf"]) + t
        texts.append(("obj", t, pairs))
        if r.random() < 0.6:
            texts.append(("obj", mutate(t, r), None))
        l = rand_list(r)
        t = ws(r) + json_array(l, r) + ws(r)
        texts.append(("list", t, l))
        if r.random() < 0.4:
            texts.append(("list", mutate(t, r), None))
    for t in HAND_JSON:
        texts.append(("obj", t, None))
        texts.append(("list", t, None))
    for kind, t, src in texts:
        if has_surrogate(t):
            continue
        isattr = kind == "obj"
        out, why = impl_jsondec(t, isattr)
        res.count("decode_" + why)
        res.evaluations += 1
        corr(("jsondec " if isattr else "jsondecl ") + enc(t), out, "_unjsonify", t)
        if src is not None:
            # oracle: a valid surface form of `src` decodes to `src` (dict(pairs) for repeated keys)
            if isattr:
                want = {}
                for k, v in src:
                    want[k] = [v] if isinstance(v, str) else v
                try:
                    got = helpers._unjsonify(t, isattributes=True)
                    good = list(got._d.items()) == list(want.items())
                except Exception as ex:
                    good, got = False, ex
            else:
                want = src
                try:
                    got = helpers._unjsonify(t)
                    good = got == want
                except Exception as ex:
                    good, got = False, ex
            if not good:
                F.add("_unjsonify of valid JSON text does not give the content it was written from",
                      {"kind": "json-decode", "text": t, "expected": repr(want), "got": repr(got)[:300]})
            res.nontriv(("dec", t))

    # a database stores and returns the attributes unchanged ----------------------------------------------------
    n_db = 6 if not T else 40
    for i in range(n_db):
        feats, wants = [], {}
        for j in range(8):
            d = rand_attrs(r)
            d = {k: v for k, v in d.items() if k != "ID"}
            fid = "f%d_%d" % (i, j)
            f = feature_from_line("chr1\tsrc\tgene\t%d\t%d\t.\t+\t.\tID=%s" % (10 * j + 1, 10 * j + 5, fid))
            for n, (k, v) in enumerate(d.items()):
                # scalars for one-item lists through either door: the database must hand back lists
                val = v[0] if (len(v) == 1 and n % 2) else list(v)
                if n % 3 == 0:
                    f[k] = val
                else:
                    f.attributes[k] = val
            wants[fid] = [("ID", [fid])] + [(k, list(v)) for k, v in d.items()]
            feats.append(f)
        try:
            db = gffutils.create_db(feats, ":memory:")
            for fid, want in wants.items():
                res.evaluations += 1
                for al in (True, False):
                    with setting(al):
                        g = db[fid]
                    with setting(True):
                        got = [(k, g.attributes[k]) for k in g.attributes.keys()]
                    if got != want or not all(type(v) is list for _, v in got):
                        F.add("attributes read back from a database differ from what was stored",
                              {"kind": "db", "id": fid, "expected": repr(want), "got": repr(got),
                               "always_return_list": al})
        except Exception as ex:
            F.add("create_db / lookup raised %r" % ex, {"kind": "db", "features": [str(f) for f in feats]})
        res.count("databases")

    # ------------------------------------------------------------------------------------------------
    # (3) merge_attributes
    n_m = 2500 if not T else 30000
    for i in range(n_m):
        num = r.random() < 0.5
        pool = None
        if num:
            pool_n = [rand_numval(r) for _ in range(6)]
            mk = lambda: r.choice(pool_n) if r.random() < 0.8 else rand_numval(r)
        else:
            mk = lambda: r.choice(VALPOOL) if r.random() < 0.7 else rand_str(r)
        keys = r.sample(KEYPOOL, 4)

        def mkdict(kind):
            d = {}
            for k in keys:
                if r.random() < 0.65:
                    if kind == "d" and r.random() < 0.25:
                        d[k] = mk()
                    else:
                        d[k] = [mk() for _ in range(r.choice([0, 1, 1, 2, 3, 4]))]
            return d
        k1, k2 = r.choice("da"), r.choice("da")
        d1, d2 = mkdict(k1), mkdict(k2)
        allvals = [v for d in (d1, d2) for k in d for v in values_of(d, k)]
        if num and any((not is_dec(v)) and float_accepts(v) for v in allvals):
            res.count("skipped_float_literal_outside_grammar")
            continue
        for al in (True, False):
            case = (k1, k2, d1, d2, num, al)
            out, got, unchanged = impl_mattr(*case)
            res.evaluations += 1
            check_merge_case(F, res, case, out, got, unchanged)
            corr("mattr %s %s %s %s %d %d" % (k1, k2, pd(d1), pd(d2), num, al), out,
                 "merge_attributes(%s,%s,numeric_sort=%s,always_return_list=%s)" % (k1, k2, num, al), repr((d1, d2)))
            # the repaired behaviour (setting pinned) is what the current code does under True
            if al:
                corr("mattrfixed %s %s %s %s %d" % (k1, k2, pd(d1), pd(d2), num), out,
                     "merge_attributes (pinned model)", repr((d1, d2)))
            if set(d1) & set(d2):
                res.nontriv(("merge", repr(d1), repr(d2), num, al, k1, k2))
            res.count("merge_%s%s_%s" % (k1, k2, "list" if al else "single"))
        if i < 2:
            res.sample({"attr1": d1, "attr2": d2, "numeric_sort": num, "merged": repr(got)[:200]})
    # hand-written: the docstring example, empty, disjoint, value objects shared between keys
    hand = [("d", "d", {"a": ["5", "4.2"]}, {"a": ["10"]}, True), ("d", "d", {}, {}, False),
            ("a", "a", {"ID": ["x"]}, {"ID": ["y"]}, False), ("a", "a", {"ID": ["x"]}, {"Name": ["y"]}, False),
            ("a", "d", {"ID": ["x", "z"]}, {"ID": "y"}, False), ("d", "a", {"ID": "x"}, {"ID": ["x"]}, False),
            ("a", "a", {"k": []}, {"k": []}, True), ("d", "d", {"k": ["-0", "0", "0.0"]}, {"k": ["00"]}, True),
            ("d", "d", {"k": ["10", "9", "x"]}, {"k": ["1"]}, True)]
    for k1, k2, d1, d2, num in hand:
        for al in (True, False):
            case = (k1, k2, d1, d2, num, al)
            out, got, unchanged = impl_mattr(*case)
            res.evaluations += 1
            check_merge_case(F, res, case, out, got, unchanged)
            corr("mattr %s %s %s %s %d %d" % (k1, k2, pd(d1), pd(d2), num, al), out, "merge_attributes (hand)",
                 repr((d1, d2)))
    # one list object bound to two keys of an argument (e.g. after `f['Name'] = f['ID']`)
    for k1 in "da":
        shared = ["b"]
        d1 = {"x": ["a"], "y": ["c"]}
        a1 = mk_arg(k1, d1)
        a2 = mk_arg(k1, {"x": ["b"]})
        with setting(True):
            a2["y"] = a2["x"]
            s1, s2 = snapshot(a1), snapshot(a2)
            try:
                got = helpers.merge_attributes(a1, a2)
            except Exception as ex:
                got = ex
            unchanged = snapshot(a1) == s1 and snapshot(a2) == s2
        res.evaluations += 1
        want = {"x": ["a", "b"], "y": ["b", "c"]}
        if got != want or not unchanged:
            F.add("merge_attributes is not the per-key union when one list object is the value of two keys of an "
                  "argument (e.g. after f['Name'] = f['ID'])",
                  {"kind": "merge-alias", "class": "Attributes" if k1 == "a" else "dict",
                   "attr1": d1, "attr2": "{'x': L, 'y': L} with L = ['b'] (one object)", "returned": repr(got),
                   "expected": want}, "D19_alias")
        del shared

    # ------------------------------------------------------------------------------------------------
    # numeric grammar
    n_n = 1500 if not T else 15000
    strs = NUMPOOL + NONNUM + ["+1", " 1", "1 ", "1.", ".5", "1e5", "inf", "nan", "1_0", "١", "1234567890123456",
                               "123456789012345", "12345678.12345678", "1234567.12345678", "-", "-.5", "-1.", "1..2"]
    strs += [rand_numval(r, 0.2) for _ in range(n_n)]
    for s in strs:
        k = "num %d" % (Fraction(s) * 10 ** 15) if is_dec(s) else "nonnum"
        corr("numkey " + enc(s), k, "decimal grammar of numeric_sort", s)
        if is_dec(s) and not float_accepts(s):
            res.corr_disagreements.append(("float() rejects a string of the decimal grammar", s, "num", "ValueError"))
    decs = [s for s in strs if is_dec(s)]
    for _ in range(n_n * 2):
        a, b = r.choice(decs), r.choice(decs)
        res.corr_checked += 1
        if ((float(a), a) < (float(b), b)) != ((Fraction(a), a) < (Fraction(b), b)):
            res.corr_disagreements.append(("float order vs exact order on the decimal grammar", repr((a, b)),
                                           "exact", "float"))

    # ------------------------------------------------------------------------------------------------
    # (4) equality and hash
    n_e = 1500 if not T else 15000
    for i in range(n_e):
        l1 = rand_line(r)
        x = r.random()
        if x < 0.3:
            l2 = l1
        elif x < 0.7:
            cols = l1.split("\t")
            j = r.randrange(0, 9)
            cols[j] = r.choice([cols[j], cols[j] + "x" if j not in (3, 4) else str(int(cols[j]) + 1), "."])
            l2 = "\t".join(cols)
        else:
            l2 = rand_line(r)
        f, g = feature_from_line(l1), feature_from_line(l2)
        y = r.random()
        if y < 0.1:
            g.id = "other-id"; g.file_order = 7; g.bin = 1
        elif y < 0.2:
            # two database features under different keys (e.g. exon_1 / exon_2 of a duplicated line)
            f.id = "exon_1"; g.id = "exon_2"; g.file_order = 7
        elif y < 0.35:
            g = Feature(*g.astuple()[1:11])          # the database route: JSON attributes
        elif y < 0.45 and g.attributes:
            k = r.choice(list(g.attributes.keys()))
            g[k] = r.choice([g.attributes._d[k], list(g.attributes._d[k]) + ["zz"], "v"])
        elif y < 0.5:
            g.dialect = dict(g.dialect, **{"trailing semicolon": True})
        elif y < 0.68 and y >= 0.62:
            # the same columns and the same attributes in ANOTHER KEY ORDER, both parsed with one and the same dialect
            # (as all features of one database are): the printed lines differ, so the Features are not equal
            try:
                f = feature_from_line(l1)
                ks = list(f.attributes.keys())
                if len(ks) >= 2:
                    g = feature_from_line(l1, dialect=f.dialect)
                    f = feature_from_line(l1, dialect=f.dialect)
                    first = ks[0]
                    v = g.attributes._d.pop(first)
                    g.attributes._d[first] = v                  # same keys and values, the first key now last
                    res.count("eq_same_attributes_other_key_order")
            except Exception:
                pass
        elif y < 0.62:
            # both objects are hashed first (as members of a set / keys of a dict would be), then g is changed THROUGH
            # ITS attributes MAPPING, a value list or its extra list - not through g.<field> = ... or g[key] = ... :
            # equality and hash must follow the printed line as it is now
            hash(f); hash(g); {f: 1, g: 2}
            how = r.choice(["mapping_set", "list_append", "mapping_del", "extra_append", "mapping_update", "undo"])
            ks = list(g.attributes.keys())
            if how == "mapping_set" or not ks:
                g.attributes["added"] = ["1"]
            elif how == "list_append":
                g.attributes[r.choice(ks)].append("zz")
            elif how == "mapping_del":
                del g.attributes[r.choice(ks)]
            elif how == "extra_append":
                g.extra.append("x")
            elif how == "mapping_update":
                g.attributes.update({r.choice(ks): ["u"]})
            else:
                g.attributes["tmp"] = ["t"]
                hash(g)
                del g.attributes["tmp"]            # back to the line it printed before
            if how != "undo":
                try:
                    f = feature_from_line(str(g))      # a fresh object that (normally) prints what g prints NOW
                except Exception:
                    pass
            res.count("eq_hash_after_edit_through_mapping_" + how)
        res.evaluations += 1
        try:
            sf, sg = str(f), str(g)
            eq, ne = (f == g), (f != g)
        except Exception as ex:
            F.add("printing / comparing two Features raised %r" % ex, {"kind": "eq", "line1": l1, "line2": l2, "edit": y})
            continue
        payload = {"kind": "eq", "line1": l1, "line2": l2, "str1": sf, "str2": sg}
        if eq is not (sf == sg) or ne is not (sf != sg) or not (f == f):
            F.add("Feature == / != disagrees with equality of the printed lines", dict(payload, eq=eq, ne=ne))
        if eq and hash(f) != hash(g):
            F.add("equal Features hash differently", payload)
        if len({f, g}) != (1 if sf == sg else 2):
            F.add("a set of two Features does not collapse exactly the equal ones", payload)
        res.count("pairs_equal" if sf == sg else "pairs_unequal")
        res.nontriv(("eq", sf, sg))
        if y >= 0.68:     # unedited pairs of parsed lines: the model parses and prints both
            corr("feq %s %s" % (enc(l1), enc(l2)), "ok %d %d" % (eq, ne), "Feature.__eq__/__ne__", repr((l1, l2)))

    # the stored JSON text follows in-place changes of a value list (no stale serialisation) -----------------------------
    import simplejson
    from gffutils import helpers as _h
    for i in range(300 if not ctx.thorough else 3000):
        keys = r.sample(["ID", "Parent", "Note", "k"], r.randrange(1, 4))
        d = {k: ["v%d" % r.randrange(5) for _ in range(r.randrange(1, 3))] for k in keys}
        text = simplejson.dumps(d, separators=(",", ":"))
        f = Feature(seqid="c", start=1, end=2, attributes=text)          # as fetched from a database
        first = f.astuple()[9]
        k = r.choice(keys)
        op = r.choice(["append", "sort", "pop", "setitem0"])
        lst = f.attributes[k]
        if op == "append":
            lst.append("added")
        elif op == "sort":
            lst.sort(reverse=True)
        elif op == "pop" and len(lst) > 1:
            lst.pop()
        else:
            lst[0] = "changed"
        second = f.astuple()[9]
        want = simplejson.dumps(f.attributes._d, separators=(",", ":"))
        res.evaluations += 1
        if first != text or second != want or _h._unjsonify(second, isattributes=True)._d != f.attributes._d:
            F.add("the JSON text written for a feature does not follow an in-place change of a value list",
                  {"kind": "json_stale", "json": text, "key": k, "op": op, "written": second, "expected": want})

    # ------------------------------------------------------------------------------------------------
    out = ctx.model(cmds)
    if out is not None:
        for c, m, e, (comp, inp) in zip(cmds, out, exp, tags):
            res.corr_checked += 1
            if m != e:
                res.corr_disagreements.append((comp, inp[:400], m[:400], e[:400]))
    if constants.always_return_list is not True:
        raise common.Infra("constants.always_return_list was not restored")
    res.extra["finding_counts"] = F.counts
    # report order: anything unexpected first, then D7 (merge_attributes), then the other places that read an
    # Attributes through the view, then the aliasing case; one of each kind before the rest
    prio = {None: 0, "D7": 1, "D7_parse": 2, "D7_print": 3, "D19_alias": 4}
    firsts, rest, seen = [], [], set()
    for w, p_ in sorted(res.oracle_failures, key=lambda x: (prio.get(x[1].get("finding"), 0), len(repr(x[1])))):
        k = p_.get("finding")
        (rest if k in seen else firsts).append((w, p_))
        seen.add(k)
    res.oracle_failures = firsts + rest
    res.assumptions = [
        "strings are sequences of Unicode scalar values (no lone surrogates): a Python str can hold one, JSON text can "
        "spell one (\\ud800), the model's strings cannot; such inputs are outside the domain",
        "features 'obtained by parsing or from a database' carry an Attributes object; a Feature constructed by hand "
        "with a plain dict as attributes keeps that dict (no wrapping) and is outside the property",
        "a tuple set as a value stays a tuple in the container (a sequence of strings, as the property asks) and comes "
        "back from JSON as a list: compared as sequences",
        "merge_attributes: values are strings or lists of strings (tuples inside the arguments are outside the model); "
        "numbers for numeric_sort are the decimals -?D+(.D+)? with at most 15 digits in total - inf, nan, exponents, "
        "underscores, signs '+', '.5', '5.', surrounding whitespace, non-ASCII digits and longer digit strings are "
        "accepted by float() but unmodelled and kept out of the generator",
        "the Lean Feature model (featureFromLine, print) is the behaviour under always_return_list=True; the "
        "correspondences that print or parse run under True, the view switch is modelled for Attributes, "
        "Feature.__getitem__ and merge_attributes",
        "JSON texts that loads() accepts but that are not an object of strings / arrays of strings (numbers, null, "
        "nesting) are outside the shape gffutils writes: the model answers `none` for them as for invalid JSON",
    ]
    return res


def replay(ctx, payload):
    from gffutils import helpers
    from gffutils.feature import feature_from_line
    res = common.Result("C17")
    F = Failures(res)
    F.known = set()
    i = payload.get("input", {})
    kind = i.get("kind")
    print("replay:", payload.get("what"))
    if kind == "merge":
        case = (i["k1"], i["k2"], i["attr1"], i["attr2"], i["numeric_sort"], i["always_return_list"])
        out, got, unchanged = impl_mattr(*case)
        res.evaluations = 1
        print("  merge_attributes(%s(%r), %s(%r), numeric_sort=%r) under always_return_list=%r -> %r ; arguments unchanged: %r"
              % ("Attributes" if case[0] == "a" else "dict", case[2], "Attributes" if case[1] == "a" else "dict",
                 case[3], case[4], case[5], got, unchanged))
        print("  expected:", merge_oracle(case[2], case[3], case[4]))
        check_merge_case(F, res, case, out, got, unchanged)
    elif kind == "parse-view":
        line = i["line"]
        with setting(True):
            f = feature_from_line(line)
            st, pt = dict(f.attributes._d), str(f)
        with setting(False):
            g = feature_from_line(line)
            pf = str(f)
        sf = dict(g.attributes._d)
        res.evaluations = 1
        print("  line %r\n  stored under True: %r\n  stored under False: %r\n  printed under True: %r\n  printed under False: %r"
              % (line, st, sf, pt, pf))
        if st != sf:
            F.add("parsing under always_return_list=False stores other values", i)
        if pt != pf:
            F.add("str(feature) depends on always_return_list", i)
    elif kind == "ops":
        import ast
        ops, al = ast.literal_eval(i["ops"]), i["always_return_list"]
        out, a = apply_ops_impl(ops, al)
        print("  operations on a fresh Attributes under always_return_list=%r: %r\n  store now: %r\n  expected store: %r"
              % (al, ops, None if a is None else a._d, ref_apply(ops)))
        check_ops(F, res, ops, al)
    elif kind == "feature-set":
        import ast
        sets, al, source = ast.literal_eval(i["sets"]), i["always_return_list"], i.get("source", "parsed")
        if sets and len(sets[0]) == 2:           # the older form: (key, value), alternately through the Feature / the mapping
            sets = [("feature" if j % 2 == 0 else "mapping", k, v) for j, (k, v) in enumerate(sets)]
        print("  %s feature of line %r, always_return_list=%r\n  sets (how, key, value): %r" % (source, i["line"], al, sets))
        got = check_feature_sets(F, res, i["line"], sets, al, source)
        if got is not None:
            print("  attributes now (key/values as code points): %s\n  printed: %r" % (got[0], got[1]))
    else:
        print("  input:", i)
    for w, p_ in res.oracle_failures[:3]:
        print("  now:", w, {k: v for k, v in p_.items() if k in ("stored", "expected", "viewed", "key")})
    print("replay: verdict: the recorded oracle %s on this tree (%s)" % ("fails" if res.oracle_failures else "holds", common.repo_dir()))
    return res
