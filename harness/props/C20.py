"""C20 - concurrent imports are independent and leave no temp files.

proof part (Lean, GffModel/Conc.lean): for every number of processes, every schedule and every choice of fresh temp
names, each import reads back exactly what it wrote and the temp directory ends as it began.
tie to the code: (i) trace conformance - one real GFF3 and one real GTF import under a Python audit hook: the temp-file
operations must be an instance of the model's program (a uniquely named file created, written, read, unlinked; nothing
else left) - also for a flat GFF3 without Parent attributes and a two-level gene -> mRNA GFF3, whose intermediate file
stays empty (`judge`, replayable); (ii) real schedules: N processes (below and above the core count), staggered starts, mixed GFF3/GTF inputs,
one shared temp dir - each database equals the solitary run's, directory empty afterwards; N concurrent readers.
"""
import json
import multiprocessing
import os
import subprocess
import sys
import time

import common
import conctrace
import dbside
import gen_db
import worldside

TRUSTED = ["the OS scheduler, sqlite file locking and tempfile.NamedTemporaryFile uniqueness (O_EXCL) are runtime "
           "behaviour: sampled, not modelled beyond 'mkstemp returns an unused name'"]
LEANCHECKER_MODULES = ["GffProofs.Props.C20"]

WORKER = r'''
import sys, os, time, json
sys.path.insert(0, %(harness)r)
job = json.loads(sys.argv[1])
os.environ["TMPDIR"] = job["tmp"]
import tempfile
tempfile.tempdir = job["tmp"]
import warnings
warnings.simplefilter("ignore")
sys.stderr = open(os.devnull, "w")
import gffutils, dbside, conctrace


def wait_for(paths, limit=60.0):
    t0 = time.time()
    while time.time() - t0 < limit:
        if any(os.path.exists(p) for p in paths):
            return True
        time.sleep(0.002)
    return False


class PausingTextFactory(object):
    # decodes like str, but blocks once, on the first value sqlite hands it (a public create_db argument)
    def __init__(self, in_window, go_on):
        self.in_window, self.go_on, self.fired = in_window, go_on, False

    def __call__(self, b):
        if not self.fired:
            self.fired = True
            open(self.in_window, "w").close()
            wait_for([self.go_on])
        return b.decode("utf-8")


time.sleep(job.get("delay", 0))
if job["mode"] == "import":
    kwargs = dict(force=True, merge_strategy="create_unique")
    kwargs.update(job.get("kwargs", {}))
    if job.get("pause"):
        kwargs["text_factory"] = PausingTextFactory(*job["pause"])
    if job.get("wait_for"):
        wait_for(job["wait_for"])
        time.sleep(job.get("linger", 0))
    trace = conctrace.Trace(job["tmp"]) if job.get("trace") else None
    try:
        try:
            db = gffutils.create_db(job["inp"], job["out"], **kwargs)
            db.conn.commit()
            if trace is not None:
                trace.mark("done")
            print(dbside.dump(gffutils.FeatureDB(job["out"])))
        except Exception as ex:
            print("raised %%s: %%s" %% (type(ex).__name__, ex))
    finally:
        if trace is not None:
            with open(job["trace"], "w") as fh:
                json.dump(trace.stop(), fh)
        if job.get("done_flag"):
            open(job["done_flag"], "w").close()
else:
    db = gffutils.FeatureDB(job["inp"])
    n = len(list(db.all_features()))
    print(dbside.dump(db))
'''


def job_args(py, worker, **job):
    return [py, worker, json.dumps(job)]


NOINFER = {"disable_infer_genes": True, "disable_infer_transcripts": True}


def make_inputs(r, scratch, k):
    """import jobs: (path, extra create_db arguments)"""
    jobs = []
    for i in range(k):
        if i % 2 == 0:
            nodes = gen_db.rand_gff3_graph(r, n=r.randrange(5, 40), dangling=True)
            lines = gen_db.graph_lines(nodes)
            p = os.path.join(scratch, "in%d.gff3" % i)
        else:
            recs = []
            while not any(x["ftype"] == "exon" for x in recs):
                recs = gen_db.rand_gtf_forest(r, ngenes=r.randrange(1, 4))
            lines = gen_db.gtf_lines(recs)
            p = os.path.join(scratch, "in%d.gtf" % i)
        dbside.write_lines(p, lines)
        jobs.append((p, {}))
    # GTF files that carry their gene and transcript lines, imported the documented way for such files: both
    # inference steps disabled (the importer returns early from _update_relations)
    for i in range(2):
        recs = []
        while not any(x["ftype"] == "exon" for x in recs):
            recs = gen_db.rand_gtf_forest(r, explicit=True, ngenes=r.randrange(1, 4))
        p = os.path.join(scratch, "in_explicit%d.gtf" % i)
        dbside.write_lines(p, gen_db.gtf_lines(recs))
        jobs.append((p, dict(NOINFER)))
    # ... and with one of the two steps disabled
    jobs.append((jobs[1][0], {"disable_infer_genes": True}))
    jobs.append((jobs[3][0], {"disable_infer_transcripts": True}))
    # a GTF without any exon line (nothing to infer): the intermediate file must still be removed
    p = os.path.join(scratch, "in_cdsonly.gtf")
    dbside.write_lines(p, [gen_db.gtf_line("chr1", "CDS", 10 + 50 * i, 40 + 50 * i, "+", [("gene_id", ["G"]), ("transcript_id", ["T%d" % (i % 2)])])
                           for i in range(6)])
    jobs.append((p, {}))
    # GFF3 inputs with fewer than three hierarchy levels - in EVERY run, whatever the random graphs above look like: a
    # flat file (no Parent attribute at all) and a two-level file (gene -> mRNA only).  No second-level relation is
    # written for them: the intermediate file stays empty, and must be removed all the same.  And a plain three-level one.
    p = os.path.join(scratch, "in_flat.gff3")
    dbside.write_lines(p, ["##gff-version 3", gen_db.gff_line("chr1", "region", 1, 5000, ".", [("ID", ["r1"])])] +
                       [gen_db.gff_line("chr1", "repeat", 100 + 200 * i, 200 + 200 * i, "+-"[i % 2], [("ID", ["rep%d" % i])])
                        for i in range(r.randrange(2, 6))])
    jobs.append((p, {}))
    p = os.path.join(scratch, "in_twolevel.gff3")
    lines = ["##gff-version 3"]
    for g in range(r.randrange(1, 4)):
        lines.append(gen_db.gff_line("chr1", "gene", 1000 * g + 100, 1000 * g + 900, "+-"[g % 2], [("ID", ["g%d" % g])]))
        for t in range(r.randrange(1, 3)):
            lines.append(gen_db.gff_line("chr1", "mRNA", 1000 * g + 100 + 50 * t, 1000 * g + 900, "+-"[g % 2],
                                         [("ID", ["g%dt%d" % (g, t)]), ("Parent", ["g%d" % g])]))
    dbside.write_lines(p, lines)
    jobs.append((p, {}))
    p = os.path.join(scratch, "in_threelevel.gff3")
    dbside.write_lines(p, ["##gff-version 3", gen_db.gff_line("chr1", "gene", 100, 900, "+", [("ID", ["g1"])]),
                           gen_db.gff_line("chr1", "mRNA", 100, 900, "+", [("ID", ["t1"]), ("Parent", ["g1"])]),
                           gen_db.gff_line("chr1", "exon", 100, 300, "+", [("ID", ["e1"]), ("Parent", ["t1"])]),
                           gen_db.gff_line("chr1", "exon", 500, 900, "+", [("ID", ["e2"]), ("Parent", ["t1"])])])
    jobs.append((p, {}))
    return jobs


# positions in make_inputs(r, scratch, 8)
I_EXPLICIT, I_INFER_T_ONLY, I_CDSONLY, I_FLAT, I_TWOLEVEL, I_THREELEVEL = 8, 10, 12, 13, 14, 15


def trace_conformance(ctx, res, path, tag, kwargs=None, expect_tempfile=True):
    """run one import in-process under an audit hook; check the temp-file protocol.  returns the recorded trace
    (conctrace events) and the final listing of the import's temp directory"""
    import tempfile
    import gffutils
    tmpdir = os.path.join(ctx.scratch, "trace_" + tag)
    os.makedirs(tmpdir, exist_ok=True)
    old = tempfile.tempdir
    tempfile.tempdir = tmpdir
    os.environ["TMPDIR"] = tmpdir
    trace = conctrace.Trace(tmpdir)
    try:
        db = gffutils.create_db(path, os.path.join(ctx.scratch, "trace_%s.db" % tag), force=True,
                                merge_strategy="create_unique", **(kwargs or {}))
        trace.mark("done")
    finally:
        raw = trace.stop()
        tempfile.tempdir = old
        os.environ["TMPDIR"] = ctx.scratch
    events = [(e["kind"], e["name"], e["mode"]) if e["kind"] == "open" else (e["kind"], e["name"])
              for e in raw if e["kind"] != "done"]
    left = os.listdir(tmpdir)
    names = sorted(set(e[1] for e in events if e[0] in ("open", "unlink")))
    ok = True
    why = None
    if left:
        ok, why = False, "intermediate file(s) left in the temp directory: %r" % left
    for nm in names:
        seq = [e for e in events if e[1] == nm and e[0] in ("open", "unlink")]
        kinds = [(e[0], e[2] if e[0] == "open" else None) for e in seq]
        # written: opened for writing by name, or created by mkstemp (O_EXCL) and written through the descriptor it
        # returned (os.fdopen) - no by-name event exists for that write
        wrote = any(k == "open" and m and ("w" in m or "x" in m or "+" in m) for k, m in kinds) or \
            any(e[0] == "mkstemp" and e[1] == nm for e in events)
        read = any(k == "open" and m and m.startswith("r") for k, m in kinds)
        unl = [i for i, (k, m) in enumerate(kinds) if k == "unlink"]
        if not (wrote and read and len(unl) == 1 and unl[0] == len(kinds) - 1):
            ok, why = False, "temp file %r does not follow create -> write -> read -> unlink: %r" % (nm, kinds)
    if not names and expect_tempfile:
        ok, why = False, "no temp file operation was observed (the model's program has one per import)"
    res.extra.setdefault("trace_conformance", {})[tag] = {"events": [list(e) for e in events][:12], "conforms": ok}
    if not ok:
        with open(path) as fh:
            text = fh.read()
        case = {"scenario": "tempfile_protocol", "input": text.split("\n")[:-1] if text.endswith("\n") else text.split("\n"),
                "file_name": os.path.basename(path), "arguments": kwargs or {}, "expect_tempfile": expect_tempfile,
                "no_shrink": True}
        common.fail(res, case, "tempfile_protocol_deviates",
                    "temp-file protocol of a single import deviates from the model's program: " + why,
                    events=[list(e) for e in events][:20], left=left)
    res.evaluations += 1
    return raw, left


REPLAYED = [0]


def judge(ctx, case):
    """one solitary in-process import under the audit hook (scenario `tempfile_protocol`)"""
    res = common.Result("C20")
    if case.get("scenario") == "tempfile_protocol":
        REPLAYED[0] += 1
        path = dbside.write_lines(os.path.join(ctx.scratch, "replay%d_%s" % (REPLAYED[0], case.get("file_name", "in.gff3"))),
                                  case["input"])
        trace_conformance(ctx, res, path, "replay%d" % REPLAYED[0], case.get("arguments") or {},
                          expect_tempfile=case.get("expect_tempfile", True))
    return res


def conc_case(label, traces, payloads, dir0, final):
    """one replay of real traces through the model: (label, protocol command, expected reply)"""
    schedule, views, outputs, finished = conctrace.schedule_of(traces, [f for f, _ in final], set(dir0))
    cmd = worldside.cmd_conc(payloads, dir0, schedule)
    want = "ok %s %s %s %s" % (";".join("%s/%s" % (worldside.enc_names(a), worldside.enc_names(h)) for a, h in views) or "_",
                               worldside.enc_dir(dict(final)),
                               ",".join(common.enc(o) for o in outputs) if outputs else "_", "1" if finished else "0")
    return label, cmd, want, schedule


def read_dir(d):
    out = []
    for f in sorted(os.listdir(d)):
        try:
            with open(os.path.join(d, f)) as fh:
                out.append((f, fh.read()))
        except OSError:
            out.append((f, ""))
    return out


FOREIGN = {"foreign.gffutils": "someone else's file\n"}


def run(ctx):
    res = common.Result("C20")
    r = ctx.rng("c20")
    res.rule = ("process counts 2, cores/2, cores, 2 x cores (quick: up to 12; thorough: up to 2 x cores, three rounds) with "
                "staggered start offsets 0-30 ms, mixed GFF3/GTF inputs of 5-40 lines (GTF also with one or both inference "
                "steps disabled; in every run a flat GFF3 without Parent attributes, a two-level gene -> mRNA GFF3 and a "
                "three-level GFF3), separate outputs, one shared temp dir; forced interleavings (one import parked between "
                "writing and re-reading its intermediate file while another import runs to completion); then 2-8 "
                "concurrent readers per database. non-trivial = distinct (round, process) whose import goes "
                "through the temp-file pass")
    ncpu = multiprocessing.cpu_count()
    worker = os.path.join(ctx.scratch, "c20_worker.py")
    shared = os.path.join(ctx.scratch, "shared_tmp")
    os.makedirs(shared, exist_ok=True)
    with open(worker, "w") as fh:
        fh.write(WORKER % {"harness": os.path.join(common.VERIF, "harness")})
    py = sys.executable
    inputs = make_inputs(r, ctx.scratch, 8)
    conc = []           # (label, command, expected reply, schedule) for the Conc correspondence
    # (i) trace conformance, and the same traces as a sequential three-process schedule of the model
    seq = [(inputs[0], "gff3"), (inputs[1], "gtf"), (inputs[I_CDSONLY], "gtf_without_exons"),
           (inputs[I_INFER_T_ONLY], "gtf_infer_transcripts_only"), (inputs[I_FLAT], "gff3_flat_no_parent_attribute"),
           (inputs[I_TWOLEVEL], "gff3_two_levels_gene_mRNA"), (inputs[I_THREELEVEL], "gff3_three_levels")]
    traces = [trace_conformance(ctx, res, p, tag, kw)[0] for (p, kw), tag in seq]
    again = [trace_conformance(ctx, res, p, tag + "_again", kw)[0] for (p, kw), tag in seq]
    payloads = [next((o[4] for o in conctrace.program_of(ev) if o[1] == "read"), None) for ev in again]
    if all(x is not None for x in payloads):
        # the imports ran one after the other, each in an empty directory of its own: one schedule over one directory
        conc.append(conc_case("sequential in-process imports", traces, payloads, {}, []))
    trace_conformance(ctx, res, inputs[I_EXPLICIT][0], "gtf_inference_disabled", inputs[I_EXPLICIT][1], expect_tempfile=False)
    # solitary runs
    solo = {}
    for i, (p, kw) in enumerate(inputs):
        out = os.path.join(ctx.scratch, "solo%d.db" % i)
        q = subprocess.run(job_args(py, worker, mode="import", tmp=shared, inp=p, out=out, kwargs=kw),
                           stdout=subprocess.PIPE, stderr=subprocess.DEVNULL, text=True, timeout=600)
        solo[i] = q.stdout.strip()
        if not solo[i].startswith("ok "):
            raise common.Infra("solitary import failed for %s %r" % (p, kw))
        if os.listdir(shared):
            res.oracle_failures.append(("a solitary import left files in the temp directory",
                                        {"input": p, "arguments": kw, "lines": open(p).read().split("\n")[:60],
                                         "left": os.listdir(shared)}))
            for f in os.listdir(shared):
                os.unlink(os.path.join(shared, f))
        res.evaluations += 1
    counts = sorted(set([2, max(2, ncpu // 2), min(ncpu, 12)] + ([ncpu, 2 * ncpu] if ctx.thorough else [])))
    rounds = 1 if not ctx.thorough else 3
    for rd in range(rounds):
        for n in counts:
            procs = []
            for j in range(n):
                k = (j + rd) % len(inputs) if j % 3 else rd % len(inputs)   # some share the same input
                if n >= 4 and j >= n - 2:
                    k = (I_FLAT, I_TWOLEVEL)[n - 1 - j]      # every batch of >= 4 imports has the flat and the two-level GFF3
                p, kw = inputs[k]
                out = os.path.join(ctx.scratch, "par_%d_%d_%d.db" % (rd, n, j))
                delay = r.choice([0, 0, 0.005, 0.01, 0.03])
                procs.append((k, out, subprocess.Popen(job_args(py, worker, mode="import", tmp=shared, inp=p, out=out,
                                                                kwargs=kw, delay=delay),
                                                       stdout=subprocess.PIPE, stderr=subprocess.DEVNULL, text=True)))
            for k, out, pr in procs:
                try:
                    so, _ = pr.communicate(timeout=900)
                except subprocess.TimeoutExpired:
                    pr.kill()
                    raise common.Infra("concurrent import timed out")
                res.evaluations += 1
                res.nontriv((rd, n, out))
                if so.strip() != solo[k]:
                    res.oracle_failures.append(("a concurrent import differs from the solitary run",
                                                {"input": inputs[k][0], "arguments": inputs[k][1], "processes": n, "round": rd,
                                                 "result": so.strip()[:200],
                                                 "differs_at": next((i for i, (a, b) in enumerate(zip(so, solo[k])) if a != b), -1)}))
            left = os.listdir(shared)
            res.count("processes_%d" % n)
            if left:
                res.oracle_failures.append(("intermediate files left in the shared temp directory after all imports finished",
                                            {"processes": n, "left": left}))
                for f in left:
                    os.unlink(os.path.join(shared, f))
    # forced interleavings: import B is parked (by its text_factory, a public create_db argument sqlite calls for every
    # text value it reads) inside _update_relations, between writing and re-reading its intermediate file; import A
    # starts then, runs to completion, and only then B goes on.  Deterministic: no timing involved.
    parked = [dbside.write_lines(os.path.join(ctx.scratch, "parked.gff3"),
                                 ["##gff-version 3"] + gen_db.graph_lines(gen_db.rand_gff3_graph(r, n=12, dangling=False))),
              dbside.write_lines(os.path.join(ctx.scratch, "parked.gtf"), gen_db.gtf_lines(
                  [dict(ftype=ft, gene="G%d" % g, transcript="G%dT%d" % (g, t), start=100 * t + 10 * e + 1, end=100 * t + 10 * e + 8,
                        seqid="chr1", strand="+") for g in range(2) for t in range(2) for e in range(3) for ft in ("exon", "CDS")]))]
    shared2 = os.path.join(ctx.scratch, "shared_tmp_forced")
    flags = os.path.join(ctx.scratch, "flags")
    os.makedirs(shared2, exist_ok=True)
    os.makedirs(flags, exist_ok=True)
    for f, c in FOREIGN.items():
        with open(os.path.join(shared2, f), "w") as fh:
            fh.write(c)
    solo_parked = {}
    for bi, bp in enumerate(parked):
        q = subprocess.run(job_args(py, worker, mode="import", tmp=shared2, inp=bp, out=os.path.join(ctx.scratch, "solo_parked%d.db" % bi),
                                    trace=os.path.join(flags, "solo_parked%d.json" % bi)),
                           stdout=subprocess.PIPE, stderr=subprocess.DEVNULL, text=True, timeout=600)
        solo_parked[bi] = q.stdout.strip()
        if not solo_parked[bi].startswith("ok "):
            raise common.Infra("solitary import failed for %s" % bp)
    combos = [(bi, ai) for bi in range(2) for ai in ((0, 1) if not ctx.thorough else (0, 1, 8, 9, 11, I_FLAT, I_TWOLEVEL))]
    for ci, (bi, ai) in enumerate(combos):
        tag = "forced%d" % ci
        in_window, a_done, b_done = (os.path.join(flags, "%s_%s" % (tag, x)) for x in ("b_in_window", "a_done", "b_done"))
        tb, ta = os.path.join(flags, tag + "_b.json"), os.path.join(flags, tag + "_a.json")
        pb = subprocess.Popen(job_args(py, worker, mode="import", tmp=shared2, inp=parked[bi], out=os.path.join(ctx.scratch, tag + "_b.db"),
                                       pause=[in_window, a_done], done_flag=b_done, trace=tb),
                              stdout=subprocess.PIPE, stderr=subprocess.DEVNULL, text=True)
        pa = subprocess.Popen(job_args(py, worker, mode="import", tmp=shared2, inp=inputs[ai][0], kwargs=inputs[ai][1],
                                       out=os.path.join(ctx.scratch, tag + "_a.db"), wait_for=[in_window, b_done],
                                       # in the first combination the parked import's intermediate file has been lying
                                       # there untouched for more than a second when the other import starts
                                       linger=1.3 if ci == 0 else 0, done_flag=a_done, trace=ta),
                              stdout=subprocess.PIPE, stderr=subprocess.DEVNULL, text=True)
        try:
            so_a, _ = pa.communicate(timeout=300)
            so_b, _ = pb.communicate(timeout=300)
        except subprocess.TimeoutExpired:
            pa.kill(); pb.kill()
            raise common.Infra("forced interleaving timed out")
        res.evaluations += 2
        res.nontriv(("forced", bi, ai))
        describe = {"parked_import": parked[bi], "parked_lines": open(parked[bi]).read().split("\n"),
                    "other_import": inputs[ai][0], "other_arguments": inputs[ai][1],
                    "other_lines": open(inputs[ai][0]).read().split("\n")[:60]}
        if so_b.strip() != solo_parked[bi]:
            res.oracle_failures.append(("an import that was between writing and re-reading its intermediate file while another "
                                        "import ran to completion differs from the solitary run",
                                        dict(describe, result=so_b.strip()[:300])))
        if so_a.strip() != solo[ai]:
            res.oracle_failures.append(("an import that ran while another import was parked inside its temp-file pass differs "
                                        "from the solitary run", dict(describe, result=so_a.strip()[:300])))
        final = read_dir(shared2)
        left = [f for f, _ in final if f not in FOREIGN]
        if left:
            res.oracle_failures.append(("intermediate files left in the shared temp directory after the forced interleaving",
                                        dict(describe, left=left)))
            for f in left:
                os.unlink(os.path.join(shared2, f))
        try:
            tr_b, tr_a = json.load(open(tb)), json.load(open(ta))
            tr_solo = json.load(open(os.path.join(flags, "solo_parked%d.json" % bi)))
        except (OSError, ValueError):
            raise common.Infra("forced interleaving: trace file missing")
        ob, oa = conctrace.program_of(tr_b), conctrace.program_of(tr_a)
        tw = next((o[0] for o in ob if o[1] == "write"), None)
        trd = next((o[0] for o in ob if o[1] == "read"), None)
        inside = bool(oa) and tw is not None and trd is not None and all(tw < o[0] < trd for o in oa)
        res.count("forced_interleaving_" + ("achieved" if inside else "second import has no temp-file pass" if not oa else "NOT_achieved"))
        # the same run through the model: process 0 = parked import, process 1 = the other one
        pay_b = next((o[4] for o in conctrace.program_of(tr_solo) if o[1] == "read"), None)
        pay_a = payloads[ai] if ai in (0, 1) else None
        if pay_a is None and oa:
            pay_a = next((o[4] for o in oa if o[1] == "read"), None)
        if pay_b is not None and (pay_a is not None or not oa):
            trs = [tr_b] + ([tr_a] if oa else [])
            conc.append(conc_case("forced interleaving %r" % describe["parked_import"], trs,
                                  [pay_b] + ([pay_a] if oa else []), FOREIGN, final))
        for f, c in FOREIGN.items():            # whatever happened, the next combination starts from the same directory
            with open(os.path.join(shared2, f), "w") as fh:
                fh.write(c)
    # workers FORKED from this process (gffutils already imported here): module-level state is inherited by the children
    import tempfile
    import gffutils

    def forked_import(args):
        path, kw, out, delay = args
        import time as _t
        _t.sleep(delay)
        tempfile.tempdir = shared
        os.environ["TMPDIR"] = shared
        import warnings as _w
        _w.simplefilter("ignore")
        try:
            d = gffutils.create_db(path, out, force=True, merge_strategy="create_unique", **kw)
            d.conn.commit()
            return dbside.dump(gffutils.FeatureDB(out))
        except Exception as ex:
            return "raised %r" % ex
    try:
        fctx = multiprocessing.get_context("fork")
    except ValueError:
        fctx = None
    if fctx is not None:
        old_td = tempfile.tempdir
        for rd in range(1 if not ctx.thorough else 4):
            n = min(ncpu, 8)
            jobs = [((j + rd) % len(inputs), os.path.join(ctx.scratch, "fork_%d_%d.db" % (rd, j)), r.choice([0, 0, 0.005]))
                    for j in range(n)]
            def child(job):
                so_ = forked_import((inputs[job[0]][0], inputs[job[0]][1], job[1], job[2]))
                with open(job[1] + ".dump", "w") as fh_:
                    fh_.write(so_)
            procs_ = [fctx.Process(target=child, args=(job,)) for job in jobs]
            for p__ in procs_:
                p__.start()
            for p__ in procs_:
                p__.join(600)
            outs = []
            for job in jobs:
                try:
                    outs.append(open(job[1] + ".dump").read())
                except OSError:
                    outs.append("worker died")
            for (k_, out_, _), so in zip(jobs, outs):
                res.evaluations += 1
                res.nontriv(("fork", rd, out_))
                if so != solo[k_]:
                    res.oracle_failures.append(("an import in a forked worker differs from the solitary run",
                                                {"input": inputs[k_][0], "arguments": inputs[k_][1], "workers": n, "result": so[:200]}))
            left = os.listdir(shared)
            res.count("forked_workers_%d" % n)
            if left:
                res.oracle_failures.append(("intermediate files left in the shared temp directory after forked imports finished",
                                            {"workers": n, "left": left}))
                for f in left:
                    os.unlink(os.path.join(shared, f))
        tempfile.tempdir = old_td
        os.environ["TMPDIR"] = ctx.scratch
    # concurrent readers
    for ki, k in enumerate([2, 6, 4] if not ctx.thorough else [2, 8, ncpu, 2 * ncpu, 5]):
        # the last round reads a GTF-derived database (input 1), the others a GFF3-derived one
        which = 1 if ki == (2 if not ctx.thorough else 4) else 0
        target = os.path.join(ctx.scratch, "solo%d.db" % which)
        want = solo[which]
        procs = [subprocess.Popen(job_args(py, worker, mode="read", tmp=shared, inp=target), stdout=subprocess.PIPE,
                                  stderr=subprocess.DEVNULL, text=True) for _ in range(k)]
        for pr in procs:
            so, _ = pr.communicate(timeout=600)
            res.evaluations += 1
            if so.strip() != want:
                res.oracle_failures.append(("a concurrent reader did not observe the full content", {"readers": k}))
        res.count("readers_%d" % k)
    # D15: from_string=True leaks one temp file per import (recorded known finding; C20's claim is for path inputs)
    import gffutils
    import tempfile
    d15 = os.path.join(ctx.scratch, "d15")
    os.makedirs(d15, exist_ok=True)
    old = tempfile.tempdir
    tempfile.tempdir = d15
    try:
        gffutils.create_db("chr1\t.\tgene\t1\t9\t.\t+\t.\tID=g\n", ":memory:", from_string=True)
    finally:
        tempfile.tempdir = old
    if os.listdir(d15):
        res.known_hits["D15"] = {"left": os.listdir(d15)}
    # the recorded real traces replayed through Conc.step (GffModel/Conc.lean): directory and held names after every
    # step, final directory, what every process read back, all finished
    out = ctx.model([c[1] for c in conc])
    if out is not None:
        for (label, cmd, want, schedule), got in zip(conc, out):
            res.corr_checked += 1
            if got != want:
                res.corr_disagreements.append(("Conc.step replay of a real schedule (%s)" % label, repr(schedule)[:700],
                                               got[:900], want[:900]))
    res.extra["conc_schedules"] = [{"label": c[0], "schedule": [list(x) for x in c[3]]} for c in conc][:6]
    res.sample({"process_counts": counts, "rounds": rounds,
                "inputs": [(os.path.basename(p), kw) for p, kw in inputs]})
    res.assumptions = ["imports take their input from a path (the from_string form leaks its own copy: known finding D15)",
                       "separate output files; one shared TMPDIR",
                       "Conc replay: one intermediate file per import (the one it opens for writing); the model's atomic "
                       "`write` is the open-for-writing of the real run, so only NAMES are compared while imports are under "
                       "way, contents at the read-back and at the end"]
    return res


def replay(ctx, payload):
    p = payload.get("input")
    if isinstance(p, dict) and p.get("scenario") == "tempfile_protocol" and "kind" in p:
        return common.replay_failure("C20", payload, lambda case: judge(ctx, case))
    res = common.Result("C20")
    print("replay:", payload.get("what"), payload.get("input"))
    return res
