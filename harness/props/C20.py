"""C20 - concurrent imports are independent and leave no temp files.

proof part (Lean, GffModel/Conc.lean): for every number of processes, every schedule and every choice of fresh temp
names, each import reads back exactly what it wrote and the temp directory ends as it began.
tie to the code: (i) trace conformance - one real GFF3 and one real GTF import under a Python audit hook: the temp-file
operations must be an instance of the model's program (a uniquely named file created, written, read, unlinked; nothing
else left); (ii) real schedules: N processes (below and above the core count), staggered starts, mixed GFF3/GTF inputs,
one shared temp dir - each database equals the solitary run's, directory empty afterwards; N concurrent readers.
"""
import multiprocessing
import os
import subprocess
import sys
import time

import common
import dbside
import gen_db

TRUSTED = ["the OS scheduler, sqlite file locking and tempfile.NamedTemporaryFile uniqueness (O_EXCL) are runtime "
           "behaviour: sampled, not modelled beyond 'mkstemp returns an unused name'"]
LEANCHECKER_MODULES = ["GffProofs.Props.C20"]

WORKER = r'''
import sys, os, time, json
sys.path.insert(0, %(harness)r)
os.environ["TMPDIR"] = %(tmp)r
import tempfile
tempfile.tempdir = %(tmp)r
import warnings
warnings.simplefilter("ignore")
sys.stderr = open(os.devnull, "w")
import gffutils, dbside
mode, inp, out, delay = sys.argv[1], sys.argv[2], sys.argv[3], float(sys.argv[4])
time.sleep(delay)
if mode == "import":
    db = gffutils.create_db(inp, out, force=True, merge_strategy="create_unique")
    db.conn.commit()
    print(dbside.dump(gffutils.FeatureDB(out)))
else:
    db = gffutils.FeatureDB(inp)
    n = len(list(db.all_features()))
    print(dbside.dump(db))
'''


def make_inputs(r, scratch, k):
    paths = []
    for i in range(k):
        if i % 2 == 0:
            nodes = gen_db.rand_gff3_graph(r, n=r.randrange(5, 40), dangling=True)
            lines = gen_db.graph_lines(nodes)
            p = os.path.join(scratch, "in%d.gff3" % i)
        else:
            recs = []
            while not recs:
                recs = gen_db.rand_gtf_forest(r, ngenes=r.randrange(1, 4))
            lines = gen_db.gtf_lines(recs)
            p = os.path.join(scratch, "in%d.gtf" % i)
        dbside.write_lines(p, lines)
        paths.append(p)
    # a GTF without any exon line (nothing to infer): the intermediate file must still be removed
    p = os.path.join(scratch, "in_cdsonly.gtf")
    dbside.write_lines(p, [gen_db.gtf_line("chr1", "CDS", 10 + 50 * i, 40 + 50 * i, "+", [("gene_id", ["G"]), ("transcript_id", ["T%d" % (i % 2)])])
                           for i in range(6)])
    paths.append(p)
    return paths


def trace_conformance(ctx, res, path, tag):
    """run one import in-process under an audit hook; check the temp-file protocol"""
    import tempfile
    import gffutils
    tmpdir = os.path.join(ctx.scratch, "trace_" + tag)
    os.makedirs(tmpdir, exist_ok=True)
    events = []

    def hook(event, args):
        if event == "open":
            p = args[0]
            if isinstance(p, str) and os.path.dirname(os.path.abspath(p)) == tmpdir:
                events.append(("open", os.path.basename(p), args[1]))
        elif event in ("os.remove", "os.unlink"):
            p = args[0]
            if isinstance(p, str) and os.path.dirname(os.path.abspath(p)) == tmpdir:
                events.append(("unlink", os.path.basename(p)))
        elif event == "tempfile.mkstemp":
            events.append(("mkstemp", os.path.basename(str(args[0]))))
    old = tempfile.tempdir
    tempfile.tempdir = tmpdir
    os.environ["TMPDIR"] = tmpdir
    if not getattr(trace_conformance, "_installed", False):
        sys.addaudithook(lambda e, a: trace_conformance._hook(e, a) if trace_conformance._hook else None)
        trace_conformance._installed = True
    trace_conformance._hook = hook
    try:
        db = gffutils.create_db(path, os.path.join(ctx.scratch, "trace_%s.db" % tag), force=True,
                                merge_strategy="create_unique")
    finally:
        trace_conformance._hook = None
        tempfile.tempdir = old
        os.environ["TMPDIR"] = ctx.scratch
    left = os.listdir(tmpdir)
    names = sorted(set(e[1] for e in events if e[0] in ("open", "unlink")))
    ok = True
    why = None
    if left:
        ok, why = False, "intermediate file(s) left in the temp directory: %r" % left
    for nm in names:
        seq = [e for e in events if e[1] == nm and e[0] in ("open", "unlink")]
        kinds = [(e[0], e[2] if e[0] == "open" else None) for e in seq]
        wrote = any(k == "open" and m and ("w" in m or "x" in m or "+" in m) for k, m in kinds)
        read = any(k == "open" and m and m.startswith("r") for k, m in kinds)
        unl = [i for i, (k, m) in enumerate(kinds) if k == "unlink"]
        if not (wrote and read and len(unl) == 1 and unl[0] == len(kinds) - 1):
            ok, why = False, "temp file %r does not follow create -> write -> read -> unlink: %r" % (nm, kinds)
    if not names:
        ok, why = False, "no temp file operation was observed (the model's program has one per import)"
    res.extra.setdefault("trace_conformance", {})[tag] = {"events": [list(e) for e in events][:12], "conforms": ok}
    if not ok:
        res.oracle_failures.append(("temp-file protocol of a single import deviates from the model's program: " + why,
                                    {"input": path, "events": [list(e) for e in events][:20]}))
    res.evaluations += 1
    return names


def run(ctx):
    res = common.Result("C20")
    r = ctx.rng("c20")
    res.rule = ("process counts 2, cores/2, cores, 2 x cores (quick: up to 12; thorough: up to 2 x cores, three rounds) with "
                "staggered start offsets 0-30 ms, mixed GFF3/GTF inputs of 5-40 lines, separate outputs, one shared temp "
                "dir; then 2-8 concurrent readers per database. non-trivial = distinct (round, process) whose import goes "
                "through the temp-file pass")
    ncpu = multiprocessing.cpu_count()
    worker = os.path.join(ctx.scratch, "c20_worker.py")
    shared = os.path.join(ctx.scratch, "shared_tmp")
    os.makedirs(shared, exist_ok=True)
    with open(worker, "w") as fh:
        fh.write(WORKER % {"harness": os.path.join(common.VERIF, "harness"), "tmp": shared})
    py = sys.executable
    inputs = make_inputs(r, ctx.scratch, 8)
    # (i) trace conformance
    trace_conformance(ctx, res, inputs[0], "gff3")
    trace_conformance(ctx, res, inputs[1], "gtf")
    trace_conformance(ctx, res, inputs[-1], "gtf_without_exons")
    # solitary runs
    solo = {}
    for i, p in enumerate(inputs):
        out = os.path.join(ctx.scratch, "solo%d.db" % i)
        q = subprocess.run([py, worker, "import", p, out, "0"], stdout=subprocess.PIPE, stderr=subprocess.DEVNULL,
                           text=True, timeout=600)
        solo[p] = q.stdout.strip()
        if not solo[p].startswith("ok "):
            raise common.Infra("solitary import failed for %s" % p)
    if os.listdir(shared):
        res.oracle_failures.append(("a solitary import left files in the temp directory", {"left": os.listdir(shared)}))
    counts = sorted(set([2, max(2, ncpu // 2), min(ncpu, 12)] + ([ncpu, 2 * ncpu] if ctx.thorough else [])))
    rounds = 1 if not ctx.thorough else 3
    for rd in range(rounds):
        for n in counts:
            procs = []
            for j in range(n):
                p = inputs[(j + rd) % len(inputs)] if j % 3 else inputs[rd % len(inputs)]   # some share the same input
                out = os.path.join(ctx.scratch, "par_%d_%d_%d.db" % (rd, n, j))
                delay = r.choice([0, 0, 0.005, 0.01, 0.03])
                procs.append((p, out, subprocess.Popen([py, worker, "import", p, out, str(delay)],
                                                       stdout=subprocess.PIPE, stderr=subprocess.DEVNULL, text=True)))
            for p, out, pr in procs:
                try:
                    so, _ = pr.communicate(timeout=900)
                except subprocess.TimeoutExpired:
                    pr.kill()
                    raise common.Infra("concurrent import timed out")
                res.evaluations += 1
                res.nontriv((rd, n, out))
                if so.strip() != solo[p]:
                    res.oracle_failures.append(("a concurrent import differs from the solitary run",
                                                {"input": p, "processes": n, "round": rd,
                                                 "differs_at": next((i for i, (a, b) in enumerate(zip(so, solo[p])) if a != b), -1)}))
            left = os.listdir(shared)
            res.count("processes_%d" % n)
            if left:
                res.oracle_failures.append(("intermediate files left in the shared temp directory after all imports finished",
                                            {"processes": n, "left": left}))
                for f in left:
                    os.unlink(os.path.join(shared, f))
    # workers FORKED from this process (gffutils already imported here): module-level state is inherited by the children
    import tempfile
    import gffutils

    def forked_import(args):
        path, out, delay = args
        import time as _t
        _t.sleep(delay)
        tempfile.tempdir = shared
        os.environ["TMPDIR"] = shared
        import warnings as _w
        _w.simplefilter("ignore")
        try:
            d = gffutils.create_db(path, out, force=True, merge_strategy="create_unique")
            d.conn.commit()
            return dbside.dump(gffutils.FeatureDB(out))
        except Exception as ex:
            return "raised %r" % ex
    try:
        fctx = multiprocessing.get_context("fork")
    except ValueError:
        fctx = None
    if fctx is not None:
        old_td = tempfile.tempdir
        for rd in range(1 if not ctx.thorough else 4):
            n = min(ncpu, 8)
            jobs = [(inputs[(j + rd) % len(inputs)], os.path.join(ctx.scratch, "fork_%d_%d.db" % (rd, j)), r.choice([0, 0, 0.005]))
                    for j in range(n)]
            def child(job):
                so_ = forked_import(job)
                with open(job[1] + ".dump", "w") as fh_:
                    fh_.write(so_)
            procs_ = [fctx.Process(target=child, args=(job,)) for job in jobs]
            for p__ in procs_:
                p__.start()
            for p__ in procs_:
                p__.join(600)
            outs = []
            for job in jobs:
                try:
                    outs.append(open(job[1] + ".dump").read())
                except OSError:
                    outs.append("worker died")
            for (p_, out_, _), so in zip(jobs, outs):
                res.evaluations += 1
                res.nontriv(("fork", rd, out_))
                if so != solo[p_]:
                    res.oracle_failures.append(("an import in a forked worker differs from the solitary run",
                                                {"input": p_, "workers": n, "result": so[:200]}))
            left = os.listdir(shared)
            res.count("forked_workers_%d" % n)
            if left:
                res.oracle_failures.append(("intermediate files left in the shared temp directory after forked imports finished",
                                            {"workers": n, "left": left}))
                for f in left:
                    os.unlink(os.path.join(shared, f))
        tempfile.tempdir = old_td
        os.environ["TMPDIR"] = ctx.scratch
    # concurrent readers
    for k in ([2, 6] if not ctx.thorough else [2, 8, ncpu, 2 * ncpu]):
        target = os.path.join(ctx.scratch, "solo0.db")
        want = solo[inputs[0]]
        procs = [subprocess.Popen([py, worker, "read", target, "-", "0"], stdout=subprocess.PIPE,
                                  stderr=subprocess.DEVNULL, text=True) for _ in range(k)]
        for pr in procs:
            so, _ = pr.communicate(timeout=600)
            res.evaluations += 1
            if so.strip() != want:
                res.oracle_failures.append(("a concurrent reader did not observe the full content", {"readers": k}))
        res.count("readers_%d" % k)
    # D15: from_string=True leaks one temp file per import (recorded known finding; C20's claim is for path inputs)
    import gffutils
    import tempfile
    d15 = os.path.join(ctx.scratch, "d15")
    os.makedirs(d15, exist_ok=True)
    old = tempfile.tempdir
    tempfile.tempdir = d15
    try:
        gffutils.create_db("chr1\t.\tgene\t1\t9\t.\t+\t.\tID=g\n", ":memory:", from_string=True)
    finally:
        tempfile.tempdir = old
    if os.listdir(d15):
        res.known_hits["D15"] = {"left": os.listdir(d15)}
    res.sample({"process_counts": counts, "rounds": rounds, "inputs": [os.path.basename(p) for p in inputs]})
    res.assumptions = ["imports take their input from a path (the from_string form leaks its own copy: known finding D15)",
                       "separate output files; one shared TMPDIR"]
    return res


def replay(ctx, payload):
    res = common.Result("C20")
    print("replay:", payload.get("what"), payload.get("input"))
    return res
