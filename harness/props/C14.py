"""C14 - directives are all kept in order; comments, blanks and FASTA are not features.

generated: interleavings of directive / comment / blank / feature lines, 0-14 features before each
directive (below and above the inspection window), with and without a `##FASTA` / `>` tail; supplied as a
path, as a gzip path (a .gz path is a path: opened in binary mode, no newline translation) and as a string
(from_string=True); LF and CRLF line ends in every form; checklines varied around every directive position;
dialect inferred (peek) or supplied (no peek).

oracle (real code only, written from the property text): classify every line by hand; compare with
  * DataIterator.directives after a full iteration and the features it yields,
  * db.directives after create_db and after reopening gffutils.FeatureDB(path),
  * the number of features stored.
correspondence: `file` (GffModel.Iter.runFile: dialect, directives, features), `dbdirs` (GffModel.IterMore
createDbDirectives: the directive list as a shared Python list object, both variants of `_custom_iter` L127:
the implementation must agree with ONE of them on every case - which one is written into the evidence) and
`classify` (every string up to length 3 over {# > x space tab} plus FASTA look-alikes, observed through the
real iterator on a plain LF file and on a gzip CRLF file; judged by the oracle alike).
directed(): (a) correspondence only - files without any feature line (empty, blank, comments / directives only,
FASTA only) in all forms: DataIterator vs `file`, create_db vs `create` (same error kind, EmptyInputError);
(b) a database imported from a file WITH directives is updated (inputs with and without ## lines, empty, FASTA
first) and reopened after every update: db.directives vs the model (`create`/`update`/`reopen`/`dump`); the oracle
judges only what C14 states - the directives of the original import are all still there, in order.
"""
import gzip
import itertools
import os
import warnings

import common
import pyside
from common import enc

TRUSTED = [
    "text-mode line iteration of open() and the line iteration of gzip.open(); textwrap.dedent leaves text "
    "without common leading whitespace unchanged (from_string=True) - exercised, not modelled",
    "sqlite returns the rows of `SELECT directive FROM directives` in insertion (rowid) order",
    "CPython drops the suspended `_custom_iter` generator of the peek when peek() returns (no later append)",
]
LEANCHECKER_MODULES = ["GffProofs.Props.C14"]

FORMS = ("path", "gz", "string")
GFF3_ATTR = "ID=%s;Name=n%d"
GTF_ATTR = 'gene_id "g%d"; transcript_id "t%d";'

DIRECTIVES = ["##gff-version 3", "##sequence-region chr1 1 100000", "##", "###", "## spaced out ", "##FASTA ",
              "##fasta", "##species http://x/y?a=b;c", "##déjà vu", "##>not-a-header", "##\tdata",
              # characters str.splitlines() takes for line boundaries although no file reader does
              "##form\x0cfeed", "##sep\u2028arator two", "##nel\x85x", "##gs\x1dx\x0by"]
COMMENTS = ["#c", "#", "# a comment", "#!x", "#>", "#\t1\t2", "#c\x0cd e", "#u\u2029v", "#f\x1cchr1\tsrc\tgene"]
FASTA_TAILS = [
    ["##FASTA", ">chr1", "ACGTACGT", "##after-fasta", "#c", ""],
    ["##FASTA"],
    [">chr1 some description", "ACGT", "##not-a-directive"],
    [">"],
    ["##FASTA", "##again", "chr9\tsrc\tgene\t1\t2\t.\t+\t.\tID=zz;Name=zz"],
    [">x", "chr9\tsrc\tgene\t1\t2\t.\t+\t.\tID=zz;Name=zz", "##late"],
]


def feature_line(fmt, i):
    a = 100 * i + 1
    if fmt == "gtf":
        return "chr1\tsrc\texon\t%d\t%d\t.\t+\t.\t%s" % (a, a + 50, GTF_ATTR % (i // 3, i // 3))
    return "chr1\tsrc\t%s\t%d\t%d\t.\t+\t.\t%s" % (["gene", "mRNA", "exon"][i % 3], a, a + 50,
                                                  GFF3_ATTR % ("f%d" % i, i))


def hand_classify(lines):
    """the property text: (directives, feature lines)"""
    dirs, feats = [], []
    for l in lines:
        if l == "##FASTA" or l.startswith(">"):
            break
        if l.startswith("##"):
            dirs.append(l[2:])
        elif l.startswith("#") or l == "":
            pass
        else:
            feats.append(l)
    return dirs, feats


def gen_case(r, thorough):
    fmt = "gtf" if r.random() < 0.25 else "gff3"
    ndir = r.choice([1, 1, 2, 2, 3, 4])
    lines = []
    nfeat = 0
    dir_after = []          # number of features preceding each directive
    pool = list(DIRECTIVES)
    for j in range(ndir):
        k = r.choice([0, 0, 1, 1, 2, 3, 5, 9, 10, 11, 12, 14]) if j or r.random() < 0.6 else 0
        if nfeat + k > 40:
            k = 0
        for _ in range(k):
            if r.random() < 0.15:
                lines.append(r.choice(COMMENTS + [""]))
            lines.append(feature_line(fmt, nfeat))
            nfeat += 1
        d = r.choice(pool) if r.random() < 0.7 else "##d%d text %d" % (j, r.randrange(1000))
        lines.append(d)
        dir_after.append(nfeat)
        if r.random() < 0.3:
            lines.append(r.choice(COMMENTS + ["", ""]))
    for _ in range(r.choice([0, 1, 2, 3]) if nfeat else r.choice([1, 2, 3])):
        lines.append(feature_line(fmt, nfeat))
        nfeat += 1
    tail = r.choice(FASTA_TAILS) if r.random() < 0.5 else []
    lines = lines + list(tail)
    cls = set([0, 1, 2, 10, nfeat, nfeat + 2])
    for p in dir_after:
        cls.update([p - 2, p - 1, p, p + 1])
    cls = sorted(c for c in cls if c >= 0)
    if not thorough and len(cls) > 7:
        keep = set(r.sample(cls, 5)) | {0, 10}
        cls = sorted(keep)
    return fmt, lines, cls, bool(tail)


def write_text(ctx, name, lines, crlf=False, final_newline=True, gz=False):
    """writes the lines with the given line ends, byte for byte; gz=True: also <path>.gz with the same bytes"""
    nl = "\r\n" if crlf else "\n"
    text = nl.join(lines) + (nl if final_newline and lines else "")
    path = os.path.join(ctx.scratch, name)
    with open(path, "w", encoding="utf-8", newline="") as fh:
        fh.write(text)
    if gz:
        with gzip.open(path + ".gz", "wb") as fh:
            fh.write(text.encode("utf-8"))
    return path, text


def observe(ctx, lines, cl, form, supplied, tag, crlf=False, final_newline=True):
    """run the real code; returns a dict of observables"""
    import gffutils
    from gffutils import iterators
    path, text = write_text(ctx, "c14_%s.gff" % tag, lines, crlf, final_newline, gz=(form == "gz"))
    data = {"path": path, "gz": path + ".gz", "string": text}[form]
    kw = dict(checklines=cl, from_string=(form == "string"))
    if supplied is not None:
        kw["dialect"] = dict(supplied, order=list(supplied["order"]))
    out = {}
    try:
        it = iterators.DataIterator(data, **kw)
        feats = list(it)
        out["it_dialect"] = it.dialect
        out["it_directives"] = list(it.directives)
        out["it_features"] = feats
    except Exception as ex:
        out["it_error"] = pyside.err_name(ex) + ": " + str(ex)[:200]
    dbfn = os.path.join(ctx.scratch, "c14_%s.db" % tag)
    try:
        it2 = iterators.DataIterator(data, **kw)
        db = gffutils.create_db(it2, dbfn, force=True, merge_strategy="create_unique", verbose=False)
        out["db_directives_via_iterator"] = list(db.directives)
        out["iterator_directives_after_import"] = list(it2.directives)
        db = gffutils.create_db(data, dbfn, force=True, merge_strategy="create_unique", verbose=False, **kw)
        out["db_directives"] = list(db.directives)
        out["db_reopened"] = list(gffutils.FeatureDB(dbfn).directives)
        out["db_nfeatures"] = sum(1 for f in db.all_features() if f.source != "gffutils_derived")
    except Exception as ex:
        out["db_error"] = pyside.err_name(ex) + ": " + str(ex)[:200]
    return out


def judge(lines, cl, form, supplied, obs, crlf=False, final_newline=True):
    """the property, by hand.  returns list of (what, details).  The line ends of the file (crlf, final_newline) are
    part of the case but not of the judgement: a line is what precedes its line end"""
    dirs, feats = hand_classify(lines)
    bad = []
    inp = {"lines": lines, "checklines": cl, "form": form, "dialect_supplied": supplied is not None,
           "crlf": crlf, "final_newline": final_newline}
    if "it_error" in obs:
        bad.append(("DataIterator raised on a well-formed annotation: " + obs["it_error"], inp))
    else:
        if obs["it_directives"] != dirs:
            bad.append(("DataIterator.directives after a full iteration is not the list of ## lines before the FASTA "
                        "section, in order", dict(inp, expected=dirs, got=obs["it_directives"])))
        got = [[f.seqid, f.source, f.featuretype, str(f.start), str(f.end), f.score, f.strand, f.frame]
               for f in obs["it_features"]]
        want = [l.split("\t")[:8] for l in feats]
        if got != want:
            bad.append(("the features yielded are not the non-comment, non-blank lines before the FASTA section",
                        dict(inp, expected=[l for l in feats], got=got)))
    if "db_error" in obs:
        bad.append(("create_db raised on a well-formed annotation: " + obs["db_error"], inp))
    else:
        for key, label in (("db_directives", "db.directives after create_db"),
                           ("db_reopened", "FeatureDB(path).directives after reopening"),
                           ("db_directives_via_iterator", "db.directives after create_db(data=<DataIterator>)")):
            if obs[key] != dirs:
                missing = [d for d in dirs if d not in obs[key]]
                bad.append((label + " is not the list of ## lines before the FASTA section, in order"
                            + (" (missing: directives that follow feature number checklines+1 - defect D1)"
                               if missing and obs[key] == dirs[:len(obs[key])] else ""),
                            dict(inp, expected=dirs, got=obs[key], n_features=len(feats))))
                break
        if obs["iterator_directives_after_import"] != dirs:
            bad.append(("DataIterator.directives after the import differs from the ## lines",
                        dict(inp, expected=dirs, got=obs["iterator_directives_after_import"])))
        if obs["db_nfeatures"] != len(feats):
            bad.append(("the database holds %d features, the annotation has %d feature lines before the FASTA section"
                        % (obs["db_nfeatures"], len(feats)), inp))
    return bad


def shrink(ctx, lines, cl, form, supplied, crlf=False, final_newline=True):
    """greedy line deletion keeping the oracle failing, inside the domain: a candidate must still have a feature line
    and every line the property counts as a feature must be a nine-column line (deleting the `>` header of a FASTA
    tail would turn the sequence lines into "features")"""
    def fails(ls, c=None):
        feats = hand_classify(ls)[1]
        if not feats or any(l.count("\t") != 8 for l in feats):
            return False
        c = cl if c is None else c
        return bool(judge(ls, c, form, supplied, observe(ctx, ls, c, form, supplied, "shrink", crlf, final_newline),
                          crlf, final_newline))
    cur = list(lines)
    changed = True
    while changed and len(cur) > 1:
        changed = False
        for i in range(len(cur)):
            cand = cur[:i] + cur[i + 1:]
            if fails(cand):
                cur = cand
                changed = True
                break
    while cl > 0 and fails(cur) and fails(cur, cl - 1):
        cl -= 1
    return cur, cl


CLASSIFY_MODES = {"path-lf": (False, False), "gz-crlf": (True, True), "path-crlf": (False, True), "gz-lf": (True, False)}


def classify_real(ctx, s, k, mode="path-lf"):
    """observe the class of line `s` through the real iterator; mode: how the three-line file is stored (plain or
    gzip path, LF or CRLF line ends)"""
    from gffutils import iterators
    probe = "chr1\tsrc\tgene\t1\t2\t.\t+\t.\tID=p;Name=p"
    gz, crlf = CLASSIFY_MODES[mode]
    path, _ = write_text(ctx, "c14_cls.gff", [s, "##MARK", probe], crlf=crlf, gz=gz)
    if gz:
        path += ".gz"
    try:
        it = iterators.DataIterator(path, dialect=pyside.mk_dialect(order=["ID", "Name"]))
        n = 0
        try:
            for _ in it:
                n += 1
        except Exception:
            return "feature"           # the line reached the parser / Feature constructor
        d = list(it.directives)
    except Exception as ex:
        return "raised " + pyside.err_name(ex)
    if "MARK" not in d:
        return "fasta"
    if d == [s[2:], "MARK"] and s.startswith("##"):
        return "directive " + enc(s[2:])
    if d == ["MARK"] and n == 2:
        return "feature"
    if d == ["MARK"] and n == 1:
        return "skip"
    return "unclear %r %d" % (d, n)


def is_subsequence(small, big):
    it = iter(big)
    return all(any(x == y for y in it) for x in small)


def run_history(ctx, lines, cl, updates, tag, crlf=False, final_newline=True):
    """create_db(path of `lines`) into a file database, then db.update(path of u) for every u of `updates`, the
    database being reopened after every step.  -> (observations, protocol commands, expected replies, labels)"""
    import gffutils
    import dbside
    cfg = dbside.Cfg(strategy="create_unique")
    path, _ = write_text(ctx, "c14_%s.gff" % tag, lines, crlf, final_newline)
    dbfn = os.path.join(ctx.scratch, "c14_%s.db" % tag)
    db, reply = dbside.py_create(path, cfg, dbfn=dbfn, checklines=cl)
    obs = {"create": reply, "steps": []}
    cmds, exp, labels = [dbside.cmd_create(lines, cfg, checklines=cl)], [reply], ["create_db"]
    if db is None:
        return obs, cmds, exp, labels
    obs["after_import"] = list(gffutils.FeatureDB(dbfn).directives)
    for ui, u in enumerate(updates):
        upath, _ = write_text(ctx, "c14_%s_u.gff" % tag, u, crlf, final_newline)
        try:
            with warnings.catch_warnings():
                warnings.simplefilter("ignore")
                db.update(upath, make_backup=False, checklines=cl, **cfg.update_kwargs())
            got = "ok"
        except Exception as ex:
            got = "err " + pyside.err_name(ex)
        cmds.append(dbside.cmd_update(u, cfg, checklines=cl)); exp.append(got); labels.append("update %d" % ui)
        try:
            live = list(db.directives)
            db = gffutils.FeatureDB(dbfn)
            reopened = list(db.directives)
        except Exception as ex:
            obs["steps"].append({"update": got, "reopen_error": pyside.err_name(ex)})
            break
        obs["steps"].append({"update": got, "live": live, "reopened": reopened})
        cmds.append("reopen"); exp.append("ok"); labels.append("reopen after update %d" % ui)
        cmds.append("dump"); exp.append(pyside.enc_list(reopened)); labels.append("db.directives after update %d + reopen" % ui)
        if got != "ok":
            break
    return obs, cmds, exp, labels


def judge_history(lines, cl, updates, obs, crlf=False, final_newline=True):
    """what C14 says about a database that was updated afterwards: the ## lines of the ORIGINAL import are in
    db.directives after reopening, all of them and in file order (what an update does with the ## lines of ITS input
    is not stated - compared with the model only)"""
    dirs, feats = hand_classify(lines)
    inp = {"lines": lines, "checklines": cl, "form": "path", "updates": updates, "crlf": crlf,
           "final_newline": final_newline, "dialect_supplied": False}
    bad = []
    if "after_import" not in obs:
        return [("create_db raised on a well-formed annotation: " + obs["create"], inp)]
    if obs["after_import"] != dirs:
        bad.append(("FeatureDB(path).directives after reopening is not the list of ## lines before the FASTA section, in "
                    "order", dict(inp, expected=dirs, got=obs["after_import"])))
    for i, st in enumerate(obs["steps"]):
        if "reopened" in st and not is_subsequence(dirs, st["reopened"]):
            bad.append(("after db.update() number %d and reopening, db.directives no longer holds every directive of the "
                        "original import in order" % (i + 1), dict(inp, expected_kept=dirs, got=st["reopened"], step=i)))
            break
    return bad


def directed(ctx, res):
    """inputs the generator of run() excludes, found by mutating the model.  (a) files WITHOUT any feature line: only
    compared with the model (DataIterator: `file`; create_db: `create`, the same error kind - EmptyInputError).
    (b) a database whose original import had directives is updated (input with / without ## lines) and reopened:
    db.directives against the model (`create`/`update`/`reopen`/`dump`), and judged by judge_history."""
    import gffutils
    import dbside
    from gffutils import iterators
    r = ctx.rng("c14-directed")
    cmds, exp, tags = [], [], []
    # (a) ---------------------------------------------------------------------------------------------------------
    f0 = feature_line("gff3", 0)
    empties = [[], [""], ["#c"], ["##gff-version 3"], ["##gff-version 3", "#c", "", "##second"], ["", "##d1", "", "##d2", "#"],
               ["##d", "##FASTA", ">x", "ACGT", f0], [">x", f0, "##late"], ["##FASTA"], ["#c", ">", "##d"]]
    cfg = dbside.Cfg(strategy="create_unique")
    for lines in empties:
        for cl in (0, 1, 10):
            for crlf in (False, True):
                for form in FORMS:
                    path, text = write_text(ctx, "c14_emp.gff", lines, crlf, True, gz=(form == "gz"))
                    data = {"path": path, "gz": path + ".gz", "string": text}[form]
                    kw = dict(checklines=cl, from_string=(form == "string"))
                    try:
                        it = iterators.DataIterator(data, **kw)
                        fs = list(it)
                        got = "ok %s %s %d %s" % (pyside.enc_dialect(it.dialect), pyside.enc_list(it.directives), len(fs),
                                                  " / ".join(pyside.enc_feature(f) for f in fs) if fs else "_")
                    except Exception as ex:
                        got = "err " + pyside.err_name(ex)
                    cmds.append("file %d none none %s" % (cl, pyside.enc_list(lines))); exp.append(got)
                    tags.append(("DataIterator(%s) on a file without features" % form, repr((lines, cl, crlf))))
                    try:
                        db = gffutils.create_db(data, os.path.join(ctx.scratch, "c14_emp.db"), force=True,
                                                merge_strategy="create_unique", verbose=False, **kw)
                        got = "ok " + pyside.enc_dialect(db.dialect)
                    except Exception as ex:
                        got = "err " + pyside.err_name(ex)
                    res.count("corr_only_create_db_without_features_" + got.replace(" ", "_")[:24])
                    cmds.append(dbside.cmd_create(lines, cfg, checklines=cl)); exp.append(got)
                    tags.append(("create_db(%s) on a file without features" % form, repr((lines, cl, crlf))))
    # (b) ---------------------------------------------------------------------------------------------------------
    nh = 8 if not ctx.thorough else 60
    done = 0
    while done < nh:
        fmt, lines, cls, has_tail = gen_case(r, False)
        dirs, feats = hand_classify(lines)
        if not feats or not dirs:
            continue
        done += 1
        cl = r.choice(cls)
        crlf = r.random() < 0.25
        updates = []
        nf = 100
        for _ in range(r.choice([1, 1, 2, 3])):
            kind = r.choice(["features", "features", "with_directives", "with_directives", "directives_only", "empty",
                             "generated", "fasta_first"])
            fl = [feature_line(fmt, nf + j) for j in range(r.choice([1, 2, 3, 12]))]
            nf += len(fl)
            if kind == "features":
                u = fl
            elif kind == "with_directives":
                u = ["##upd-%d" % nf] + fl[:1] + [r.choice(DIRECTIVES)] + fl[1:] + ["##upd-late"]
            elif kind == "directives_only":
                u = ["##upd-only", "#c"]
            elif kind == "empty":
                u = []
            elif kind == "fasta_first":
                u = ["##upd-before-fasta", "##FASTA"] + fl
            else:
                u = gen_case(r, False)[1] if fmt == "gff3" else fl + ["##gen"]
            res.count("update_input_" + kind)
            updates.append(u)
        obs, hc, he, hl = run_history(ctx, lines, cl, updates, "hist", crlf)
        res.evaluations += 1
        res.nontriv((tuple(lines), cl, "update-history", tuple(tuple(u) for u in updates)))
        for what, inp in judge_history(lines, cl, updates, obs, crlf):
            res.oracle_failures.append((what, inp))
        if len(res.samples) < 6 and done <= 2:
            res.sample({"lines": lines, "checklines": cl, "updates": updates,
                        "db.directives after each update + reopen": [st.get("reopened") for st in obs["steps"]]})
        cmds += hc
        exp += he
        tags += [(l, repr((lines, cl, updates))) for l in hl]
    out = ctx.model(cmds)
    if out is not None:
        for c, m, e, (comp, inp) in zip(cmds, out, exp, tags):
            if c == "dump":
                m = dbside.parse_dump(m).get("directives", m)
            res.corr_checked += 1
            if m != e:
                res.corr_disagreements.append((comp, inp[:600], m[:700], e[:700]))


def check_many_directives(ctx, res):
    """a file with more than a thousand ## lines (a '###' after every gene, as GFF3 writers emit, plus distinct ones),
    before, between and after the features: db.directives and DataIterator.directives hold every one, in order"""
    import gffutils
    from gffutils import iterators
    lines, want = ["##gff-version 3"], ["gff-version 3"]
    for k in range(1003 if not ctx.thorough else 2300):
        lines.append("chr1\tsrc\tgene\t%d\t%d\t.\t+\t.\tID=g%d" % (10 * k + 1, 10 * k + 5, k))
        d = "###" if k % 3 else "##note %d" % k
        lines.append(d); want.append(d[2:])
    path = os.path.join(ctx.scratch, "c14_many.gff3")
    with open(path, "w", encoding="utf-8") as fh:
        fh.write("".join(l + "\n" for l in lines))
    case = {"scenario": "many_directives", "input": ["(%d lines, %d directives)" % (len(lines), len(want))], "no_shrink": True}
    res.evaluations += 1
    res.count("file_with_%d_directives" % len(want))
    try:
        it = iterators.DataIterator(path)
        n = sum(1 for _ in it)
        db = gffutils.create_db(path, os.path.join(ctx.scratch, "c14_many.db"), force=True)
        got_db, got_it = list(db.directives), list(it.directives)
        got_re = list(gffutils.FeatureDB(os.path.join(ctx.scratch, "c14_many.db")).directives)
    except Exception as ex:
        common.fail(res, case, "import_raised", "a file with %d directives raised %r" % (len(want), ex))
        return
    for label, got in (("DataIterator.directives", got_it), ("db.directives", got_db), ("db.directives after reopen", got_re)):
        if got != want:
            first = next((j for j, (a, b) in enumerate(zip(got, want)) if a != b), min(len(got), len(want)))
            common.fail(res, case, "many_directives_lost",
                        "%s of a file with %d ## lines is not the list of its ## lines in order" % (label, len(want)),
                        observed_length=len(got), expected_length=len(want), first_difference_at=first)
            return


def check_overlapping_iterators(ctx, res):
    """two DataIterators alive at the same time (the first kept while the second is built and read; two files read side by
    side): each one's .directives is the list of ITS file's ## lines"""
    from gffutils import iterators
    r = ctx.rng("c14", "overlapping iterators")
    for i in range(12 if not ctx.thorough else 120):
        files = []
        for j in range(2):
            nd = r.randrange(0, 4)
            lines = []
            for k in range(r.randrange(2, 6)):
                if nd and r.random() < 0.6:
                    lines.append("##file%d-directive-%d" % (j, k))
                    nd -= 1
                lines.append("chr1\tsrc\tgene\t%d\t%d\t.\t+\t.\tID=f%d_%d" % (10 * k + 1, 10 * k + 5, j, k))
            path = os.path.join(ctx.scratch, "c14_ov%d.gff3" % j)
            with open(path, "w", encoding="utf-8") as fh:
                fh.write("".join(l + "\n" for l in lines))
            files.append((path, [l[2:] for l in lines if l.startswith("##")], lines))
        mode = i % 3
        case = {"scenario": "overlapping_iterators", "input": files[0][2], "other_file": files[1][2], "mode": mode,
                "no_shrink": True}
        try:
            if mode == 0:          # first finished and kept, then the second built and read
                a = iterators.DataIterator(files[0][0]); list(a)
                b = iterators.DataIterator(files[1][0]); list(b)
            elif mode == 1:        # both built, then read one after the other
                a = iterators.DataIterator(files[0][0]); b = iterators.DataIterator(files[1][0])
                list(a); list(b)
            else:                  # read side by side
                a = iterators.DataIterator(files[0][0]); b = iterators.DataIterator(files[1][0])
                for _ in zip(a, b):
                    pass
                list(a); list(b)
            got = [list(a.directives), list(b.directives)]
        except Exception as ex:
            common.fail(res, case, "iteration_raised", "two DataIterators alive at once raised %r" % ex)
            continue
        res.evaluations += 1
        res.count("overlapping_iterators_mode_%d" % mode)
        want = [files[0][1], files[1][1]]
        if mode == 2:
            # read side by side, zip stops at the shorter file and the rest is read afterwards from the start of a fresh
            # pass: every pass resets the list, so the full pass at the end decides
            pass
        if got != want:
            common.fail(res, case, "directives_of_overlapping_iterators_mixed",
                        "the directives of two DataIterators that were alive at the same time are not those of their own "
                        "files", observed=got, expected=want)


def run(ctx):
    res = common.Result("C14")
    r = ctx.rng("c14")
    res.rule = ("files of 1-4 directives with 0-14 feature lines before each (comments and blanks sprinkled), optional "
                "FASTA tail (##FASTA or bare > header, followed by directive- and feature-looking lines); path, gzip "
                "path and from_string, LF and CRLF line ends; checklines = every directive position -2..+1, 0, 1, 2, "
                "10, n, n+2; dialect inferred or supplied; plus histories create_db + 1-3 db.update() + reopen on files "
                "with directives. non-trivial = distinct (lines, checklines, form, supplied) with at least one directive "
                "placed after the first feature or a FASTA tail")
    ncases = 45 if not ctx.thorough else 350
    cmds, exp, tags = [], [], []
    dbd_cmds = []      # (cmd_current, cmd_repaired, impl, tag)
    first_fail = None
    for ci in range(ncases):
        fmt, lines, cls, has_tail = gen_case(r, ctx.thorough)
        dirs, feats = hand_classify(lines)
        if not feats:
            continue
        crlf = (r.random() < 0.15) or ci % 4 == 3        # CRLF files: a random share plus every fourth case
        final_nl = r.random() < 0.85
        res.count("line_ends_crlf" if crlf else "line_ends_lf")
        res.count("fmt_" + fmt)
        res.count("with_fasta_tail" if has_tail else "without_fasta_tail")
        ref_dialect = None
        gz_cls = set(cls[::2])
        for cl in cls:
            for form in FORMS:
                if form == "gz" and ctx.thorough and not crlf and cl not in gz_cls:
                    continue        # thorough tier: LF gzip files on every other checklines value (time)
                for supplied_flag in ((False, True) if (cl == cls[0]) else (False,)):
                    supplied = None
                    if supplied_flag:
                        if ref_dialect is None:
                            continue
                        supplied = ref_dialect
                    tag = "%d" % (ci % 4)
                    obs = observe(ctx, lines, cl, form, supplied, tag, crlf, final_nl)
                    res.count("form_%s_%s" % (form, "crlf" if crlf else "lf"))
                    if ref_dialect is None and "it_dialect" in obs:
                        ref_dialect = obs["it_dialect"]
                    res.evaluations += 1
                    res.count("form_" + form)
                    late = any(True for l in lines[lines.index(feats[0]):] if l.startswith("##"))
                    if late or has_tail:
                        res.nontriv((tuple(lines), cl, form, supplied_flag))
                    # position of directives relative to the window
                    seen_f = 0
                    for l in lines:
                        if l == "##FASTA" or l.startswith(">"):
                            break
                        if l.startswith("##"):
                            res.count("directive_inside_window" if seen_f <= cl else "directive_after_window")
                        elif l and not l.startswith("#"):
                            seen_f += 1
                    bad = judge(lines, cl, form, supplied, obs, crlf, final_nl)
                    for what, inp in bad:
                        if first_fail is None:
                            first_fail = (what, inp, (lines, cl, form, supplied, crlf, final_nl))
                        res.oracle_failures.append((what, inp))
                    if len(res.samples) < 4 and (late or has_tail):
                        res.sample({"lines": lines, "checklines": cl, "form": form,
                                    "DataIterator.directives": obs.get("it_directives"),
                                    "db.directives": obs.get("db_directives"),
                                    "reopened": obs.get("db_reopened")})
                    # correspondence -----------------------------------------------------------------
                    L = pyside.enc_list(lines)
                    if "it_error" not in obs:
                        cmds.append("file %d %s none %s" % (cl, pyside.enc_dialect(supplied), L))
                        fs = obs["it_features"]
                        exp.append("ok %s %s %d %s" % (pyside.enc_dialect(obs["it_dialect"]),
                                                        pyside.enc_list(obs["it_directives"]), len(fs),
                                                        " / ".join(pyside.enc_feature(f) for f in fs) if fs else "_"))
                        tags.append(("DataIterator(%s): dialect, directives, features" % form,
                                     repr((lines, cl, supplied is not None))))
                    if "db_error" not in obs:
                        impl = "ok %s %s" % (pyside.enc_list(obs["db_reopened"]),
                                             pyside.enc_list(obs["iterator_directives_after_import"]))
                        dbd_cmds.append(("dbdirs current %d %d %s" % (cl, 0 if supplied else 1, L),
                                         "dbdirs repaired %d %d %s" % (cl, 0 if supplied else 1, L), impl,
                                         repr((lines, cl, form, supplied is not None))))

    # shrink the first failure into the replay payload ---------------------------------------------
    if first_fail is not None:
        what, inp, (lines, cl, form, supplied, crlf, final_nl) = first_fail
        try:
            small, scl = shrink(ctx, lines, cl, form, supplied, crlf, final_nl)
            obs = observe(ctx, small, scl, form, supplied, "min", crlf, final_nl)
            bad = judge(small, scl, form, supplied, obs, crlf, final_nl)
            if bad:
                w, i = bad[0]
                i = dict(i, shrunk_from_lines=len(lines))
                res.oracle_failures.insert(0, (w, i))
        except Exception:
            pass

    # classification: exhaustive short strings + look-alikes ---------------------------------------------
    alphabet = ["#", ">", "x", " ", "\t"]
    strings = [""]
    for n in (1, 2, 3):
        strings += ["".join(t) for t in itertools.product(alphabet, repeat=n)]
    strings += ["##FASTA", "##FASTA ", " ##FASTA", "##fasta", "#FASTA", "##FASTAX", "###FASTA", ">chr1", " >chr1",
                "x>y", "##>", "#>", ">#", "##", "###", "# #", "##é", "é", "chr1\tsrc\tgene\t1\t2\t.\t+\t.\tID=a"]
    strings += list(DIRECTIVES) + list(COMMENTS)
    modes = ["path-lf", "gz-crlf"] + (["path-crlf", "gz-lf"] if ctx.thorough else [])
    for s, mode in [(s, m) for m in modes for s in strings]:
        got = classify_real(ctx, s, 0, mode)
        if got is None:
            continue
        res.count("classify_" + mode)
        # oracle on the real classification (property text)
        if s == "##FASTA" or s.startswith(">"):
            want = "fasta"
        elif s.startswith("##"):
            want = "directive " + enc(s[2:])
        elif s.startswith("#") or s == "":
            want = "skip"
        else:
            want = "feature"
        res.evaluations += 1
        if got != want:
            res.oracle_failures.append(("a single line is not classified as the property says"
                                        + ("" if mode == "path-lf" else " (file stored as %s)" % mode),
                                        {"line": s, "expected": want, "observed": got, "mode": mode}))
        cmds.append("classify " + enc(s))
        exp.append(got)
        tags.append(("line classification (_custom_iter L137-145), file stored as " + mode, repr(s)))

    # model ----------------------------------------------------------------------------------------------
    check_overlapping_iterators(ctx, res)
    check_many_directives(ctx, res)
    out = ctx.model(cmds)
    if out is not None:
        for m, e, (comp, inp) in zip(out, exp, tags):
            res.corr_checked += 1
            if m != e:
                res.corr_disagreements.append((comp, inp[:600], m[:700], e[:700]))
    directed(ctx, res)
    variant = None
    if dbd_cmds:
        oc = ctx.model([c for c, _, _, _ in dbd_cmds])
        orp = ctx.model([c for _, c, _, _ in dbd_cmds])
        if oc is not None and orp is not None:
            dis_c = [(t, m, e) for (_, _, e, t), m in zip(dbd_cmds, oc) if m != e]
            dis_r = [(t, m, e) for (_, _, e, t), m in zip(dbd_cmds, orp) if m != e]
            informative = sum(1 for a, b in zip(oc, orp) if a != b)
            res.corr_checked += len(dbd_cmds)
            if not dis_r:
                variant = "repaired (del self.directives[:]): db.directives complete"
            elif not dis_c:
                variant = "current (self.directives = [] rebinding): defect D1 present"
            else:
                variant = "neither"
                for t, m, e in dis_r[:20]:
                    res.corr_disagreements.append(("create_db directive list (model variant `repaired`; variant "
                                                   "`current` disagrees on %d cases too)" % len(dis_c), t[:600], m[:600],
                                                   e[:600]))
            res.extra["create_db_directives"] = {
                "cases": len(dbd_cmds), "cases_where_the_two_model_variants_differ": informative,
                "implementation_agrees_with_variant": variant,
                "disagreements_with_current": len(dis_c), "disagreements_with_repaired": len(dis_r)}
    res.assumptions = [
        "every generated file has at least one feature line before the FASTA section (an annotation without features "
        "makes create_db raise EmptyInputError - excluded, C13/C01 territory)",
        "blank lines are empty strings (a line of spaces is neither a comment nor blank in the property text and is "
        "handed to the parser)",
        "line ends \\n and \\r\\n (every form, including the gzip path, which gffutils reads in binary mode), last "
        "line with or without a newline; a lone \\r is outside the domain",
        "after db.update(): the property speaks of the import; judged is only that the directives of the original "
        "import are all in db.directives, in order, after reopening - what update does with the ## lines of its own "
        "input (the real code drops them) is compared with the model only",
        "feature lines are written in one dialect with two attributes each, so that parsing cannot fail",
    ]
    return res


def replay(ctx, payload):
    res = common.Result("C14")
    inp = payload.get("input", {})
    lines = inp.get("lines")
    if lines is None:
        if "line" in inp:
            got = classify_real(ctx, inp["line"], 0, inp.get("mode", "path-lf"))
            print("replay: line %r classified as %s (expected %s)" % (inp["line"], got, inp.get("expected")))
            res.evaluations = 1
            if got != inp.get("expected"):
                res.oracle_failures.append(("a single line is not classified as the property says", inp))
        return res
    cl = inp.get("checklines", 10)
    form = inp.get("form", "path")
    if "updates" in inp:
        crlf, final_nl = bool(inp.get("crlf", False)), bool(inp.get("final_newline", True))
        obs, _, _, _ = run_history(ctx, lines, cl, inp["updates"], "replay", crlf, final_nl)
        res.evaluations = 1
        for what, i in judge_history(lines, cl, inp["updates"], obs, crlf, final_nl):
            res.oracle_failures.append((what, i))
        print("replay: %d lines, checklines=%d, %d updates -> db.directives after import %r, after each update + "
              "reopening %r; directives of the original import %r"
              % (len(lines), cl, len(inp["updates"]), obs.get("after_import"),
                 [st.get("reopened") for st in obs["steps"]], hand_classify(lines)[0]))
        return res
    supplied = None
    if inp.get("dialect_supplied"):
        from gffutils import iterators
        path, _ = write_text(ctx, "c14_rep.gff", lines)
        supplied = iterators.DataIterator(path).dialect
    crlf, final_nl = bool(inp.get("crlf", False)), bool(inp.get("final_newline", True))
    obs = observe(ctx, lines, cl, form, supplied, "replay", crlf, final_nl)
    res.evaluations = 1
    for what, i in judge(lines, cl, form, supplied, obs, crlf, final_nl):
        res.oracle_failures.append((what, i))
    print("replay: %d lines (%s line ends), checklines=%d, form=%s -> DataIterator.directives=%r db.directives=%r "
          "reopened=%r; expected %r" % (len(lines), "CRLF" if crlf else "LF", cl, form, obs.get("it_directives"),
                                        obs.get("db_directives"), obs.get("db_reopened"), hand_classify(lines)[0]))
    return res
