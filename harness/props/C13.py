"""C13 - all input forms are equivalent and dialect peeking never consumes data.

generated: annotations of 1-15 feature lines (GFF3 gene/mRNA/exon/CDS graphs, GTF exon/CDS/codon lines) written in
one dialect from an AST (so the expected columns and attributes are known without gffutils), plus a header
directive, comments and blanks.  Every annotation is supplied in all seven forms
    path, gzip path (gzip.open(..., "wt")), string (from_string=True), list of Features, one-shot generator
    (instrumented: counts next() calls), DataIterator (built with the configuration, then handed in), FeatureDB
with checklines 0..n+2 and every transform of the zoo (harness/transforms.py, wrapped in a recorder).

oracle (real code only, from the property text):
  * the feature sequence (columns, attribute dict, dialect) of every form equals the one of the path form, and
    the path form equals the AST (transform applied by hand);
  * the transform is called once per feature, in order, on the untransformed feature; exactly the features with
    a falsy result are missing;
  * a one-shot generator is advanced exactly n times, whatever checklines is;
  * create_db(data=<form>) gives the same projection (ids, columns, attributes, relations, dialect) for all forms;
  * inspect.inspect(form, look_for, limit) equals independent counts over the first `limit` records - on every
    call: each (look_for, limit) is inspected twice with the SAME caller-owned look_for list (second call on
    another form), and with look_for omitted (the default) again and again in the same process.
correspondence: `form`/`formdb` (GffModel.IterMore Input.run - the dispatch), `file`/`feats` (GffModel.Iter
runFile/runFeatures), `peeklen` (items pulled by the peek), `inspect`.
  * annotations whose lines END in white space that is data (empty / blank 10th column, a last value ending in a
    blank, a blank or '; ' behind the last attribute): the path, gzip and string forms yield the same feature
    sequence (extra columns included) and the same database.
correspondence only (`directed`, `empty_create` - inputs outside the property's domain, never judged): inspect of
start/end/stop on "." coordinates; inspect on files whose 10th/11th/12th line flips the dialect vote (inspect's
window is checklines=10); inputs that yield no feature (empty / comments-only / FASTA-only file, a transform that
drops everything): DataIterator yields nothing, create_db answers like the model's `create` (EmptyInputError).
"""
import collections
import gzip
import hashlib
import itertools
import os

import common
import dbside
import pyside
import transforms
from common import enc

TRUSTED = [
    "gzip.open / open text iteration, tempfile.NamedTemporaryFile and textwrap.dedent (from_string=True) deliver the "
    "lines that were written - exercised by the path/gzip/string forms, not modelled",
    "FeatureDB.all_features() without order_by streams the features in insertion (rowid) order with the attributes "
    "as stored (simplejson round trip) - the FeatureDB form of the model is that stream",
    "truthiness of a Feature is len(feature) != 0 (Feature has __len__, no __bool__): the model's transforms return "
    "Option Feature; the correspondence is made on features with integer start <= end (len >= 1)",
]
LEANCHECKER_MODULES = ["GffProofs.Props.C13"]

FORMS = ["path", "gz", "string", "list", "generator", "dataiterator", "featuredb"]
TRANSFORMS = ["none", "id", "dropexon", "mut", "dropmut", "dropall"]
DEFAULT_LOOK = ["featuretype", "chrom", "attribute_keys", "feature_count"]
EXTRA_FIELDS = ["seqid", "source", "start", "end", "stop", "score", "strand", "frame"]

# dialect variants: (fmt, field separator, trailing semicolon)
VARIANTS = [("gff3", ";", False), ("gff3", ";", True), ("gff3", "; ", False),
            ("gtf", "; ", True), ("gtf", "; ", False), ("gtf", ";", True)]


def esc_gff3(v):
    return "".join("%%%02X" % ord(c) if c in ";=,&%\t" else c for c in v)


class Ann:
    """an annotation: records (AST) + rendering"""

    def __init__(self, fmt, sep, trailing, records, header, noise):
        self.fmt, self.sep, self.trailing = fmt, sep, trailing
        self.records = records          # list of (cols[8], [(key, [vals])...])
        self.header = header
        self.noise = noise              # {index: [comment/blank lines before record index]}

    def attr_text(self, attrs):
        parts = []
        for k, vals in attrs:
            if self.fmt == "gtf":
                parts.append('%s "%s"' % (k, ",".join(vals)))
            else:
                parts.append("%s=%s" % (k, ",".join(esc_gff3(v) for v in vals)))
        return self.sep.join(parts) + (";" if self.trailing else "")

    def feature_lines(self):
        return ["\t".join(cols + [self.attr_text(attrs)]) for cols, attrs in self.records]

    def lines(self):
        out = list(self.header)
        fl = self.feature_lines()
        for i, l in enumerate(fl):
            out += self.noise.get(i, [])
            out.append(l)
        out += self.noise.get(len(fl), [])
        return out

    def expected(self):
        """[(seqid, source, featuretype, start, end, score, strand, frame, {key: [vals]})]"""
        return [(c[0], c[1], c[2], int(c[3]), int(c[4]), c[5], c[6], c[7], dict((k, list(v)) for k, v in a))
                for c, a in self.records]

    def payload(self):
        return {"fmt": self.fmt, "sep": self.sep, "trailing": self.trailing, "records": self.records,
                "header": self.header, "noise": {str(k): v for k, v in self.noise.items()}}

    @staticmethod
    def from_payload(p):
        return Ann(p["fmt"], p["sep"], p["trailing"], [(list(c), [(k, list(v)) for k, v in a]) for c, a in p["records"]],
                   list(p["header"]), {int(k): v for k, v in p["noise"].items()})


def gen_ann(r, n):
    fmt, sep, trailing = r.choice(VARIANTS)
    recs = []
    pos = 1

    def cols(ft, a, b, strand="+", frame="."):
        return [r.choice(["chr1", "chr1", "chr2"]) if not recs else recs[0][0][0], r.choice(["src", "src", "."]), ft,
                str(a), str(b), r.choice([".", ".", "0.5"]), strand, frame]
    if fmt == "gff3":
        gi = mi = ei = 0
        while len(recs) < n:
            gi += 1
            g = "g%d" % gi
            a = pos
            b = pos + r.randrange(100, 900)
            pos = b + 50
            strand = r.choice("+-")
            ga = [("ID", [g]), ("Name", [r.choice(["abc", "x_1", "a,b", "p;q", "n=1", "Ω1"])])]
            if r.random() < 0.3:
                ga.append(("Alias", ["a1", "a2"]))
            recs.append((cols("gene", a, b, strand), ga))
            mrnas = []
            for _ in range(r.choice([1, 1, 2])):
                if len(recs) >= n:
                    break
                mi += 1
                m = "m%d" % mi
                mrnas.append(m)
                recs.append((cols("mRNA", a, b, strand), [("ID", [m]), ("Parent", [g])]))
            for _ in range(r.choice([0, 1, 2, 3])):
                if len(recs) >= n or not mrnas:
                    break
                ei += 1
                ft = r.choice(["exon", "exon", "CDS"])
                par = [r.choice(mrnas)] if r.random() < 0.8 else list(mrnas)
                ea = a + r.randrange(0, 40)
                at = [("ID", ["%s%d" % (ft[0].lower(), ei)]), ("Parent", par)]
                if r.random() < 0.3:
                    # ... also characters that str.splitlines() takes for line boundaries although no file reader does
                    at.append(("Note", [r.choice(["n", "with space", "50%", "t\tab", "a\u2028b", "p\x0cq", "u\x85v",
                                                  "l\x1cm\x0bn", "k\u2029"])]))
                recs.append((cols(ft, ea, min(b, ea + r.randrange(0, 60)), strand, "0" if ft == "CDS" else "."), at))
        if r.random() < 0.3:
            r.shuffle(recs)
    else:
        gi = 0
        while len(recs) < n:
            gi += 1
            g, t = "G%d" % gi, "T%d" % gi
            strand = r.choice("+-")
            for k in range(r.choice([1, 2, 3, 4])):
                if len(recs) >= n:
                    break
                ft = r.choice(["exon", "exon", "CDS", "start_codon"])
                a = pos
                b = pos + r.randrange(0, 200)
                pos = b + 20
                at = [("gene_id", [g]), ("transcript_id", [t])]
                if r.random() < 0.5:
                    at.append(("exon_number", [str(k + 1)]))
                if r.random() < 0.2:
                    at.append(("note", [r.choice(["x y", "p=q", "semi colon", "a\u2028b", "p\x0cq", "l\x1dm"])]))
                recs.append((cols(ft, a, b, strand, "0" if ft == "CDS" else "."), at))
    header = r.choice([[], ["##gff-version 3"], ["##gff-version 3", "#comment"], ["#!x", ""]])
    noise = {}
    for i in range(len(recs) + 1):
        if r.random() < 0.15:
            noise[i] = [r.choice(["#c", "", "##mid-directive", "#c\x0cd", "##mid\u2028directive two", "#c\x85 e"])]
    return Ann(fmt, sep, trailing, recs[:n], header, noise)


def by_hand(tr, exp):
    """the zoo, applied by hand to the expected records"""
    out = []
    for rec in exp:
        seqid, source, ft, a, b, score, strand, frame, attrs = rec
        if tr in ("dropexon", "dropmut") and ft == "exon":
            continue
        if tr == "dropall":
            continue
        if tr in ("mut", "dropmut"):
            attrs = dict(attrs)
            attrs["tr"] = ["1"]
            source = "tr"
        out.append((seqid, source, ft, a, b, score, strand, frame, attrs))
    return out


def fobs(f):
    return (f.seqid, f.source, f.featuretype, f.start, f.end, f.score, f.strand, f.frame,
            dict((k, list(v)) for k, v in f.attributes.items()))


class Rec(transforms.Counting):
    """transforms.Counting + the observable of every argument"""

    def __init__(self, fn):
        transforms.Counting.__init__(self, fn)
        self.args = []

    def __call__(self, f):
        self.args.append(fobs(f))
        return transforms.Counting.__call__(self, f)


class CountingGen:
    """a one-shot iterator over `items` that counts how often it is advanced"""

    def __init__(self, items):
        self._it = iter(items)
        self.pulled = 0
        self.stops = 0

    def __iter__(self):
        return self

    def __next__(self):
        try:
            x = next(self._it)
        except StopIteration:
            self.stops += 1
            raise
        self.pulled += 1
        return x


class Env:
    """the seven forms of one annotation"""

    def __init__(self, ctx, ann, tag, crlf=False):
        import gffutils
        self.ctx, self.ann = ctx, ann
        self.lines = ann.lines()
        self.flines = ann.feature_lines()
        text = "".join(l + ("\r\n" if crlf else "\n") for l in self.lines)
        self.text = text
        ext = "gtf" if ann.fmt == "gtf" else "gff3"
        self.path = os.path.join(ctx.scratch, "c13_%s.%s" % (tag, ext))
        with open(self.path, "w", encoding="utf-8", newline="") as fh:
            fh.write(text)
        self.gzpath = self.path + ".gz"
        # the gzip form is a file of TWO gzip members (what bgzip, `pigz -i` or `cat a.gz b.gz` produce): readers see the
        # concatenation
        raw = text.encode("utf-8")
        cut = raw.find(b"\n", len(raw) // 2) + 1 or len(raw)
        with open(self.gzpath, "wb") as out:
            for part in (raw[:cut], raw[cut:]):
                if part:
                    out.write(gzip.compress(part))
        self.srcdb = gffutils.create_db(self.path, os.path.join(ctx.scratch, "c13_%s_src.db" % tag), force=True,
                                        disable_infer_genes=True, disable_infer_transcripts=True,
                                        merge_strategy="error", verbose=False)
        self.di_inner = 0

    def features(self):
        from gffutils.feature import feature_from_line
        return [feature_from_line(l) for l in self.flines]

    def make(self, form, cl, tr, supplied=None):
        """-> (data, kwargs for DataIterator/create_db, generator-or-None)"""
        kw = {"checklines": cl, "transform": tr}
        if supplied is not None:
            kw["dialect"] = dict(supplied, order=list(supplied["order"]))
        gen = None
        if form == "path":
            data = self.path
        elif form == "gz":
            data = self.gzpath
        elif form == "string":
            data = self.text
            kw["from_string"] = True
        elif form == "list":
            data = self.features()
        elif form == "generator":
            gen = data = CountingGen(self.features())
        elif form == "featuredb":
            data = self.srcdb
        elif form == "dataiterator":
            from gffutils import iterators
            inner = ["path", "generator", "list"][self.di_inner % 3]
            self.di_inner += 1
            d0, kw0, gen = self.make(inner, cl, tr, supplied)
            data = iterators.DataIterator(d0, **kw0)
            # the configuration of a DataIterator is fixed when it is built: what is passed later is ignored
            # (also the same transform handed over once more as another callable object - a functools.partial of it, as
            # a bound method or a lambda built at the second call site would be: it is NOT applied a second time)
            import functools
            again = functools.partial(tr) if (tr is not None and self.di_inner % 2 == 0) else None
            kw = {"checklines": (cl + 3) % 5, "transform": again}
            self.last_inner = inner
        else:
            raise ValueError(form)
        return data, kw, gen


def run_iter(env, form, cl, trname, supplied=None):
    """iterate one form on the real code -> observables"""
    from gffutils import iterators
    fn = transforms.ZOO[trname]
    rec = Rec(fn) if fn is not None else None
    out = {"form": form}
    try:
        data, kw, gen = env.make(form, cl, rec, supplied)
        it = iterators.DataIterator(data, **kw)
        if form == "dataiterator":
            out["same_object"] = it is data
            out["inner"] = env.last_inner
        out["pulled_after_init"] = gen.pulled if gen is not None else None
        feats = list(it)
        out["dialect"] = it.dialect
        out["features"] = feats
        out["seq"] = [(fobs(f), f.dialect) for f in feats]
        out["pulled"] = gen.pulled if gen is not None else None
        out["stops"] = gen.stops if gen is not None else None
        out["args"] = rec.args if rec is not None else None
        out["ncalls"] = len(rec.calls) if rec is not None else None
        out["directives"] = list(it.directives)
    except Exception as ex:
        out["error"] = pyside.err_name(ex) + ": " + str(ex)[:200]
    return out


def projection(db):
    feats = sorted((f.id, f.seqid, f.source, f.featuretype, f.start, f.end, f.score, f.strand, f.frame,
                    sorted((k, list(v)) for k, v in f.attributes.items())) for f in db.all_features())
    rels = sorted(tuple(x) for x in db.execute("SELECT parent, child, level FROM relations"))
    return {"features": feats, "relations": rels, "dialect": db.dialect}


def run_db(env, form, cl, trname, dbfn):
    import gffutils
    fn = transforms.ZOO[trname]
    rec = Rec(fn) if fn is not None else None
    out = {"form": form}
    try:
        data, kw, gen = env.make(form, cl, rec)
        # verbose only switches progress / debug output on: the same database, the same number of transform calls
        verbose = dbside.VERBOSE_CYCLE[(cl + len(trname) + len(form)) % len(dbside.VERBOSE_CYCLE)]
        db = gffutils.create_db(data, dbfn, force=True, merge_strategy="error", verbose=verbose, **kw)
        out["proj"] = projection(db)
        out["pulled"] = gen.pulled if gen is not None else None
        out["ncalls"] = len(rec.calls) if rec is not None else None
    except Exception as ex:
        out["error"] = pyside.err_name(ex)
    return out


def enc_run(o):
    if "error" in o:
        return "err " + o["error"].split(":")[0]
    fs = o["features"]
    return "ok %s %d %s" % (pyside.enc_dialect(o["dialect"]), len(fs),
                            " / ".join(pyside.enc_feature(f) for f in fs) if fs else "_")


def expected_counts(exp, look_for, limit):
    recs = exp if not (limit and limit > 0) else exp[:limit]
    if limit and limit < 0:
        recs = exp
    out = {}
    for k in look_for:
        if k == "feature_count":
            continue
        c = collections.Counter()
        for rec in recs:
            seqid, source, ft, a, b, score, strand, frame, attrs = rec
            if k == "attribute_keys":
                c.update(attrs.keys())
            else:
                c.update([{"featuretype": ft, "chrom": seqid, "seqid": seqid, "source": source, "start": a, "end": b,
                           "stop": b, "score": score, "strand": strand, "frame": frame}[k]])
        out[k] = dict(c)
    out["feature_count"] = len(recs)
    return out


def enc_inspect(result):
    parts = []
    for k, v in result.items():
        if k == "feature_count":
            continue
        parts.append(k + "=" + (",".join("%s:%d" % (enc(str(x)), n) for x, n in v.items()) if v else "_"))
    return "ok %d %s" % (result["feature_count"], ";".join(parts) if parts else "_")


def write_forms(ctx, name, lines, crlf=False):
    """the three text forms of `lines` -> {form: (data, extra kwargs)}"""
    text = "".join(l + ("\r\n" if crlf else "\n") for l in lines)
    path = os.path.join(ctx.scratch, name)
    with open(path, "w", encoding="utf-8", newline="") as fh:
        fh.write(text)
    with gzip.open(path + ".gz", "wt", encoding="utf-8", newline="") as fh:
        fh.write(text)
    return {"path": (path, {}), "gz": (path + ".gz", {}), "string": (text, {"from_string": True})}


def empty_create(ctx, res, lines, cl, trname, tag, cmds, exp_out, tags, crlf=False, forms=("path", "gz", "string")):
    """CORRESPONDENCE ONLY (the property excludes annotations without features): create_db on an input that yields
    no feature - an empty or comments-only file, or a transform that drops every feature - against the model's
    `create` (same answer or the same error kind, EmptyInputError on the real code)."""
    import gffutils
    import dbside
    cfg = dbside.Cfg(strategy="error", transform=trname)
    written = write_forms(ctx, "c13_%s.gff" % tag, lines, crlf)
    for form in forms:
        data, kw = written[form]
        fn = transforms.ZOO[trname]
        try:
            db = gffutils.create_db(data, ":memory:", force=True, merge_strategy="error", verbose=False, checklines=cl,
                                    transform=fn, **kw)
            rep = "ok " + pyside.enc_dialect(db.dialect)
        except Exception as ex:
            rep = "err " + pyside.err_name(ex)
        res.count("corr_only_create_db_without_features_" + rep.split(" ")[0] + ("_" + rep.split(" ")[1]
                                                                                 if rep.startswith("err") else ""))
        cmds.append(dbside.cmd_create(lines, cfg, checklines=cl))
        exp_out.append(rep)
        tags.append(("create_db(%s form) on an input that yields no feature (transform %s)" % (form, trname),
                     repr((lines, cl, trname))))


def im5_lines(k, nattr, reverse=False):
    """k one-attribute lines of one style, then ONE line of the other style with `nattr` attributes (it outvotes the
    k lines when it is inside the inspection window), then one more line of the first style"""
    def one(i, name):
        a = 'gene_id "%s";' % name if reverse else "ID=%s" % name
        return "chr1\tsrc\tgene\t%d\t%d\t.\t+\t.\t%s" % (10 * i + 1, 10 * i + 5, a)
    many = ";".join("k%d=v%d" % (j, j) for j in range(nattr)) if reverse else \
        " ".join('k%d "v%d";' % (j, j) for j in range(nattr))
    return [one(i, "g%d" % i) for i in range(k)] + ["chr1\tsrc\texon\t900\t950\t.\t+\t.\t" + many] + [one(k + 1, "last")]


def directed(ctx, res, cmds, exp_out, tags):
    """CORRESPONDENCE ONLY - inputs next to the property's domain that the generator never produces (found by mutating
    the model: a wrong answer of the model on them went unnoticed).  Nothing here is judged by the oracle."""
    from gffutils import inspect as ginspect
    from gffutils import iterators
    from gffutils.feature import feature_from_line
    r = ctx.rng("c13-directed")

    def run_inspect(lines, name, look, limit, forms, what):
        flines = [l for l in lines if l and not l.startswith("#")]
        written = write_forms(ctx, name, lines)
        for form in forms:
            if form in written:
                data = written[form][0]
            elif form == "list":
                data = [feature_from_line(l) for l in flines]
            else:
                data = CountingGen([feature_from_line(l) for l in flines])
            try:
                got = enc_inspect(ginspect.inspect(data, look_for=list(look), limit=limit, verbose=False))
            except Exception as ex:
                got = "err " + pyside.err_name(ex)
            res.count("corr_only_" + what)
            cmds.append("inspect %s %s %s %s" % ("file" if form in written else "feats", ",".join(look) if look else "_",
                                                 "none" if limit is None else str(limit), pyside.enc_list(lines)))
            exp_out.append(got)
            tags.append(("inspect.inspect(%s form) - %s" % (form, what), repr((lines, look, limit))))

    # 1. inspect of a coordinate field on features whose start / end column is "." (Feature.start is None there)
    looks = [["start"], ["end"], ["stop"], ["start", "end", "stop", "attribute_keys"], EXTRA_FIELDS[:],
             ["feature_count", "start", "chrom"], ["featuretype", "stop"]]
    for n in ((3, 7, 12) if not ctx.thorough else (1, 2, 3, 5, 7, 10, 11, 12, 15)):
        ann = gen_ann(r, n)
        m = len(ann.records)
        idx = list(range(m))
        r.shuffle(idx)
        for j, i in enumerate(idx[:max(1, m // 2)]):
            which = (j + n) % 3           # dot start / dot end / both
            if which in (0, 2):
                ann.records[i][0][3] = "."
            if which in (1, 2):
                ann.records[i][0][4] = "."
        for look in looks:
            for limit in (None, 1, m):
                run_inspect(ann.lines(), "c13_dot.gff", look, limit, ("path", "gz", "list", "generator"),
                            "inspect_coordinate_field_with_dot_start_or_end")

    # 2. the inspection window of inspect() (DataIterator default checklines=10): k one-attribute lines and one line of
    #    the other attribute style with >= 11 attributes as line k+1: inside the window it flips the dialect vote
    for reverse in (False, True):
        for k in ((9, 10, 11) if not ctx.thorough else (7, 8, 9, 10, 11, 12, 13)):
            lines = im5_lines(k, r.randrange(11, 15), reverse)
            if r.random() < 0.5:
                lines = ["##gff-version 3", "#c"] + lines
            written = write_forms(ctx, "c13_win.gff", lines)
            fmts = [iterators.DataIterator(written["path"][0], checklines=c).dialect["fmt"] for c in (9, 10, 11)]
            if len(set(fmts)) > 1:
                res.count("corr_only_inspect_window_input_where_checklines_9_10_11_vote_differently")
            for look in (["attribute_keys"], DEFAULT_LOOK[:], ["attribute_keys", "start"]):
                for limit in (None, 10, 11, k + 1):
                    run_inspect(lines, "c13_win.gff", look, limit, ("path", "gz", "list"),
                                "inspect_dialect_vote_flipped_by_line_%s" % ("le_10" if k < 10 else str(k + 1)))

    # 3. inputs without any feature: DataIterator yields nothing, create_db raises EmptyInputError - in every form
    empties = [[], [""], ["#c"], ["##gff-version 3", "#c", ""], ["##FASTA", ">chr1", "ACGT"], ["", "", "##d1", "##d2"]]
    for ei, lines in enumerate(empties):
        for cl in (0, 1, 10):
            for crlf in (False, True):
                empty_create(ctx, res, lines, cl, "none", "emp", cmds, exp_out, tags, crlf)
                written = write_forms(ctx, "c13_emp.gff", lines, crlf)
                for form in ("path", "gz", "string", "list", "generator"):
                    data, kw = written[form] if form in written else ([] if form == "list" else CountingGen([]), {})
                    o = {"form": form}
                    try:
                        it = iterators.DataIterator(data, checklines=cl, **kw)
                        o["features"] = list(it)
                        o["dialect"] = it.dialect
                    except Exception as ex:
                        o["error"] = pyside.err_name(ex)
                    res.count("corr_only_DataIterator_on_input_without_features")
                    cmds.append("form %s %d none none %s" % (form, cl, pyside.enc_list(lines)))
                    exp_out.append(enc_run(o))
                    tags.append(("DataIterator(%s form) on an input without features" % form, repr((lines, cl, crlf))))
            for kind, data in (("file", write_forms(ctx, "c13_emp.gff", lines)["path"][0]), ("feats", [])):
                try:
                    got = enc_inspect(ginspect.inspect(data, verbose=False))
                except Exception as ex:
                    got = "err " + pyside.err_name(ex)
                cmds.append("inspect %s %s none %s" % (kind, ",".join(DEFAULT_LOOK), pyside.enc_list(lines)))
                exp_out.append(got)
                tags.append(("inspect.inspect on an input without features (%s)" % kind, repr(lines)))
    # a transform that drops everything on exon-only input, and the constant-None transform on a one-line file
    only_exons = ["chr1\tsrc\texon\t%d\t%d\t.\t+\t.\tgene_id \"g\"; transcript_id \"t\";" % (10 * i + 1, 10 * i + 5)
                  for i in range(3)]
    for trname in ("dropexon", "dropmut", "dropall"):
        for cl in (0, 2, 10):
            empty_create(ctx, res, only_exons, cl, trname, "emp", cmds, exp_out, tags)


# ---- lines that END in white space which is data ------------------------------------------------------------------
WS_TAILS = ["\t", "\t\t", "\t ", "\tx ", "\tcol10\t", " ", "  ", "; ", " ;  "]


def ws_lines(r, n):
    """the lines of a generated annotation in which some feature lines end in white space that is DATA: an empty (or
    blank, or blank-terminated) 10th/11th column, a last attribute value ending in a blank (no trailing semicolon),
    a blank / '; ' behind the last attribute.  At least one line gets an empty trailing column."""
    ann = gen_ann(r, n)
    flines = ann.feature_lines()
    idx = sorted(set([r.randrange(len(flines))] + [i for i in range(len(flines)) if r.random() < 0.4]))
    tails = {}
    for j, i in enumerate(idx):
        tails[i] = r.choice(WS_TAILS[:5]) if j == 0 else r.choice(WS_TAILS)
    out = list(ann.header)
    for i, l in enumerate(flines):
        out += ann.noise.get(i, [])
        out.append(l + tails.get(i, ""))
    out += ann.noise.get(len(flines), [])
    return out, ann.fmt


def check_trailing_ws(ctx, res, lines, fmt, crlf, cmds, exp_out, tags, cls=None):
    """the text forms (path, gzip path, string with from_string=True) of an annotation whose lines end in white space
    that is data: same feature sequence (columns, attributes, EXTRA columns, dialect) and an equivalent database
    (features with their extra columns, relations, dialect).  Judged against the path form only - what the parser
    makes of such a line (e.g. the empty key behind a final '; ') is not C13's concern; the three forms read the same
    characters, so they must agree.  An input the path form raises on is outside the domain (counted)."""
    import gffutils
    from gffutils import iterators
    written = write_forms(ctx, "c13_ws.%s" % ("gtf" if fmt == "gtf" else "gff3"), lines, crlf)
    nfeat = len([l for l in lines if l and not l.startswith("#")])
    L = pyside.enc_list(lines)
    base = {"scenario": "trailing_whitespace", "lines": list(lines), "fmt": fmt, "crlf": crlf}
    for cl in (cls if cls is not None else sorted(set([0, 1, nfeat - 1, nfeat + 1, 10]) - {-1})):
        ref = None
        for form in ("path", "gz", "string"):
            data, kw = written[form]
            o = {"form": form}
            try:
                it = iterators.DataIterator(data, checklines=cl, **kw)
                o["features"] = list(it)
                o["dialect"] = it.dialect
                o["seq"] = [(fobs(f), list(f.extra), f.dialect) for f in o["features"]]
            except Exception as ex:
                o["error"] = pyside.err_name(ex) + ": " + str(ex)[:200]
            res.evaluations += 1
            res.count("trailing_ws_form_" + form)
            inp = dict(base, form=form, checklines=cl)
            if form == "path":
                ref = o
                if "error" in o:
                    res.count("trailing_ws_path_form_raised")
            elif "error" in ref:
                pass
            elif "error" in o:
                res.oracle_failures.append(("lines ending in white space: DataIterator over the %s form raised %s, the path "
                                            "form does not" % (form, o["error"]), inp))
            elif o["seq"] != ref["seq"] or o["dialect"] != ref["dialect"]:
                k = next((i for i, (a, b) in enumerate(zip(o["seq"], ref["seq"])) if a != b), None)
                res.oracle_failures.append((
                    "lines ending in white space: the %s form yields a different feature sequence (columns, attributes, "
                    "extra columns, dialect) than the path form" % form,
                    dict(inp, n_path=len(ref["seq"]), n_this=len(o["seq"]),
                         first_difference=None if k is None else {"path_form": ref["seq"][k], "this_form": o["seq"][k]},
                         path_dialect=ref["dialect"], this_dialect=o["dialect"])))
            if nfeat > 1:
                res.nontriv(("trailing_ws", L, form, cl))
            cmds.append("form %s %d none none %s" % (form, cl, L))
            exp_out.append(enc_run(o))
            tags.append(("DataIterator(%s form) on lines ending in white space" % form, repr((lines, cl, crlf))))
    for cl in (0, 10):
        ref = None
        for form in ("path", "gz", "string"):
            data, kw = written[form]
            o = {"form": form}
            try:
                db = gffutils.create_db(data, ":memory:", force=True, merge_strategy="error", verbose=False, checklines=cl,
                                        disable_infer_genes=True, disable_infer_transcripts=True, **kw)
                o["proj"] = projection(db)
                o["proj"]["extra"] = sorted((f.id, list(f.extra)) for f in db.all_features())
            except Exception as ex:
                o["error"] = pyside.err_name(ex)
            res.evaluations += 1
            res.count("trailing_ws_db_form_" + form)
            inp = dict(base, form=form, checklines=cl, create_db=True)
            if form == "path":
                ref = o
                continue
            if o.get("error") != ref.get("error"):
                res.oracle_failures.append((
                    "lines ending in white space: create_db over the %s form behaves differently from the path form "
                    "(%s vs %s)" % (form, o.get("error", "ok"), ref.get("error", "ok")), inp))
                continue
            if "error" in o:
                continue
            for key in ("features", "extra", "relations", "dialect"):
                if o["proj"][key] != ref["proj"][key]:
                    res.oracle_failures.append((
                        "lines ending in white space: the database built from the %s form differs from the one built "
                        "from the path form in its %s" % (form, key),
                        dict(inp, path_form=ref["proj"][key], this_form=o["proj"][key])))
                    break


def check_annotation(ctx, res, ann, tag, r, cmds, exp_out, tags, heavy, crlf=False):
    """all checks for one annotation; appends to res and to the model command lists"""
    from gffutils import inspect as ginspect
    env = Env(ctx, ann, tag, crlf)
    res.count("line_ends_crlf" if crlf else "line_ends_lf")
    exp = ann.expected()
    n = len(exp)
    L = pyside.enc_list(env.lines)
    FL = pyside.enc_list(env.flines)
    base = {"annotation": ann.payload(), "lines": env.lines, "crlf": crlf}
    akey = hashlib.sha1("\n".join(env.lines).encode("utf-8")).hexdigest()[:12]
    res.count("fmt_" + ann.fmt)
    res.count("n_%02d" % n)

    # --- iteration: forms x checklines x transforms -------------------------------------------------------------
    for cl in range(0, n + 3):
        for trname in TRANSFORMS:
            want = by_hand(trname, exp)
            ref = None
            for form in FORMS:
                o = run_iter(env, form, cl, trname)
                res.evaluations += 1
                res.count("form_" + form)
                res.count("transform_" + trname)
                res.count("checklines_" + ("lt_n" if cl + 1 < n else "eq_n" if cl + 1 == n else "gt_n"))
                inp = dict(base, form=form, checklines=cl, transform=trname)
                if n > 1:
                    res.nontriv((akey, form, cl, trname))
                if "error" in o:
                    res.oracle_failures.append(("DataIterator over the %s form raised %s" % (form, o["error"]), inp))
                    continue
                if form == "path":
                    ref = o
                    got = [s for s, _ in o["seq"]]
                    if got != want:
                        res.oracle_failures.append((
                            "path form: the iterated features are not the annotation's records"
                            + ("" if trname == "none" else " with the transform applied / falsy results skipped"),
                            dict(inp, expected=want, got=got)))
                elif ref is not None:
                    if o["seq"] != ref["seq"]:
                        res.oracle_failures.append((
                            "the %s form yields a different feature sequence (columns, attributes, dialect) than the "
                            "path form" % form, dict(inp, path_form=ref["seq"], this_form=o["seq"])))
                    if o["dialect"] != ref["dialect"]:
                        res.oracle_failures.append((
                            "DataIterator.dialect of the %s form differs from the path form" % form,
                            dict(inp, path_form=ref["dialect"], this_form=o["dialect"])))
                if form == "dataiterator" and not o["same_object"]:
                    res.oracle_failures.append(("DataIterator(<DataIterator>) is not the object handed in", inp))
                # transform: once per feature, in order, on the untransformed feature
                if o["args"] is not None:
                    if o["args"] != exp:
                        res.oracle_failures.append((
                            "the transform was not called exactly once per feature in order (calls: %d, features: %d)"
                            % (o["ncalls"], n), dict(inp, calls=o["args"])))
                    if len(o["seq"]) != len(want):
                        res.oracle_failures.append((
                            "with a transform, the features skipped are not exactly those with a falsy result",
                            dict(inp, expected=len(want), got=len(o["seq"]))))
                # one-shot source: advanced exactly n times
                if o["pulled"] is not None:
                    if o["pulled"] != n or o["stops"] < 1:
                        res.oracle_failures.append((
                            "a one-shot generator of %d items was advanced %d times (StopIteration seen %d times)"
                            % (n, o["pulled"], o["stops"]), inp))
                    cmds.append("peeklen %d %d" % (cl, n))
                    exp_out.append(str(o["pulled_after_init"]))
                    tags.append(("items pulled from a generator by DataIterator.__init__", repr((n, cl))))
                # correspondence
                if form == "featuredb":
                    cmds.append("formdb %d none %s %s %s" % (cl, trname, pyside.enc_dialect(env.srcdb.dialect), L))
                elif form == "dataiterator":
                    cmds.append("form di-%s %d none %s %s" % (o["inner"], cl, trname, L))
                else:
                    cmds.append("form %s %d none %s %s" % (form, cl, trname, L))
                exp_out.append(enc_run(o))
                tags.append(("DataIterator(%s form): dialect + features" % form, repr((env.lines, cl, trname))))
                if form == "path":
                    cmds.append("file %d none %s %s" % (cl, trname, L))
                    exp_out.append("ok %s %s %s" % (pyside.enc_dialect(o["dialect"]), pyside.enc_list(o["directives"]),
                                                    enc_run(o).split(" ", 2)[2]))
                    tags.append(("runFile vs DataIterator(path)", repr((env.lines, cl, trname))))
                if form == "list":
                    cmds.append("feats %d none %s %s" % (cl, trname, FL))
                    exp_out.append(enc_run(o))
                    tags.append(("runFeatures vs DataIterator(list)", repr((env.flines, cl, trname))))
        if len(res.samples) < 3 and cl == 1 and n >= 3:
            res.sample({"lines": env.lines, "checklines": cl, "forms": FORMS, "n_features": n,
                        "dialect": ref["dialect"] if ref else None})

    # --- supplied dialect: no peek at all ------------------------------------------------------------------------
    from gffutils import iterators
    sup = iterators.DataIterator(env.path, checklines=n + 2).dialect
    ref = None
    for form in FORMS:
        o = run_iter(env, form, 10, "id", supplied=sup)
        res.evaluations += 1
        inp = dict(base, form=form, checklines=10, transform="id", dialect_supplied=sup)
        if "error" in o:
            res.oracle_failures.append(("DataIterator over the %s form raised %s" % (form, o["error"]), inp))
            continue
        if form == "path":
            ref = o
        elif ref is not None and (o["seq"] != ref["seq"] or o["dialect"] != ref["dialect"]):
            res.oracle_failures.append(("supplied dialect: the %s form differs from the path form" % form,
                                        dict(inp, path_form=ref["seq"], this_form=o["seq"])))
        if o["pulled_after_init"] not in (None, 0):
            res.oracle_failures.append(("supplied dialect: the generator was advanced by the constructor", inp))
        if o["pulled"] is not None and o["pulled"] != n:
            res.oracle_failures.append(("a one-shot generator of %d items was advanced %d times" % (n, o["pulled"]), inp))
        if form in ("path", "gz", "string", "list", "generator"):
            cmds.append("form %s 10 %s id %s" % (form, pyside.enc_dialect(sup), L))
            exp_out.append(enc_run(o))
            tags.append(("DataIterator(%s form, dialect supplied)" % form, repr(env.lines)))

    # --- databases -----------------------------------------------------------------------------------------------
    cls = sorted(set([0, 1, n - 1, n, n + 2, 10]) & set(range(0, max(n + 3, 11)))) if heavy else sorted(set([0, n, 10]))
    for cl in cls:
        trs = ["none"] + ([r.choice(TRANSFORMS[1:5])] if not heavy else ["id", "mut", "dropexon"])
        for trname in trs:
            want = by_hand(trname, exp)
            if not want:
                # outside the property's domain (nothing to import): correspondence only - see empty_create
                res.count("db_skipped_empty_after_transform")
                empty_create(ctx, res, env.lines, cl, trname, "%s_e" % tag, cmds, exp_out, tags, crlf)
                continue
            ref = None
            for fi, form in enumerate(FORMS):
                dbfn = ":memory:" if (cl + fi) % 2 == 0 else os.path.join(ctx.scratch, "c13_%s_out.db" % tag)
                o = run_db(env, form, cl, trname, dbfn)
                res.evaluations += 1
                res.count("db_form_" + form)
                inp = dict(base, form=form, checklines=cl, transform=trname, create_db=True, dbfn_kind=dbfn[:8])
                if form == "path":
                    ref = o
                    if "error" in o:
                        res.count("db_path_form_raised_" + o["error"])
                        res.oracle_failures.append(("create_db(path) raised %s on an annotation with features left after the "
                                                    "transform" % o["error"], inp))
                    else:
                        stored = sorted((x[1:9] + (x[9],)) for x in o["proj"]["features"] if x[2] != "gffutils_derived")
                        wanted = sorted((w[:8] + (sorted((k, v) for k, v in w[8].items()),)) for w in want)
                        if stored != wanted:
                            res.oracle_failures.append(("create_db(path): the stored features are not the annotation's "
                                                        "records", dict(inp, expected=wanted, got=stored)))
                    continue
                if ("error" in o) != ("error" in ref) or ("error" in o and o["error"] != ref["error"]):
                    res.oracle_failures.append((
                        "create_db over the %s form behaves differently from the path form (%s vs %s)"
                        % (form, o.get("error", "ok"), ref.get("error", "ok")), inp))
                    continue
                if "error" in o:
                    continue
                for key in ("features", "relations", "dialect"):
                    if o["proj"][key] != ref["proj"][key]:
                        res.oracle_failures.append((
                            "the database built from the %s form differs from the one built from the path form in its %s"
                            % (form, key), dict(inp, path_form=ref["proj"][key], this_form=o["proj"][key])))
                        break
                if o["pulled"] is not None and o["pulled"] != n:
                    res.oracle_failures.append(("create_db advanced a one-shot generator of %d items %d times"
                                                % (n, o["pulled"]), inp))
                if o["ncalls"] is not None and o["ncalls"] != n:
                    res.oracle_failures.append(("create_db called the transform %d times for %d features"
                                                % (o["ncalls"], n), inp))

    # every annotation once with the transform that drops everything (never chosen above): correspondence only
    empty_create(ctx, res, env.lines, cls[n % len(cls)], "dropall", "%s_e" % tag, cmds, exp_out, tags, crlf)

    # --- inspect -------------------------------------------------------------------------------------------------
    # every (look_for, limit) is inspected TWICE in this process: the caller builds its look_for list once and passes
    # the same list object to both calls (the second one on the next input form); `None` stands for "look_for
    # omitted" (the default of inspect()), which every limit - and every annotation - uses again.  Both calls are
    # judged alike: exact counts for what was asked for.
    subsets = []
    for k in range(len(DEFAULT_LOOK) + 1):
        subsets += [list(c) for c in itertools.combinations(DEFAULT_LOOK, k)]
    subsets += [[r.choice(EXTRA_FIELDS), "attribute_keys"], EXTRA_FIELDS[:], ["feature_count", "strand", "chrom"]]
    subsets.append(None)
    limits = sorted(set([None, 0, 1, 2, n - 1, n, n + 1, n + 2, -1]) - {-2}, key=lambda x: (x is not None, x))
    iforms = ["path", "gz", "list", "generator", "featuredb"]
    for li, limit in enumerate(limits):
        if limit is not None and limit < -1:
            continue
        for si, look in enumerate(subsets):
            omitted = look is None
            asked = list(DEFAULT_LOOK) if omitted else list(look)
            form = iforms[(li + si) % len(iforms)] if not heavy else None
            for form in ([form] if form else iforms):
                mine = list(asked)                  # the caller's list object, handed to both calls
                second = iforms[(iforms.index(form) + 1 + si % 3) % len(iforms)]
                for callno, fm in enumerate((form, second)):
                    data, _, gen = env.make(fm, 10, None)
                    inp = dict(base, form=fm, look_for=asked, look_for_omitted=omitted, limit=limit, inspect=True,
                               call=callno + 1)
                    res.evaluations += 1
                    res.count("inspect_" + fm)
                    res.count("inspect_call_%d%s" % (callno + 1, "_default_look_for" if omitted else ""))
                    kw = {} if omitted else {"look_for": mine}
                    try:
                        got = ginspect.inspect(data, limit=limit, verbose=False, **kw)
                    except Exception as ex:
                        res.oracle_failures.append(("inspect raised %s" % pyside.err_name(ex), inp))
                        continue
                    want = expected_counts(exp, asked, limit)
                    if got != want:
                        res.oracle_failures.append((
                            "inspect() does not report the exact counts of the features iterated"
                            + (" (look_for omitted: the default, as in other calls of this process)" if omitted
                               else "" if callno == 0 else " - second call with the same look_for list object"),
                            dict(inp, expected=want, got=got, callers_look_for_list_now=list(mine))))
                    if mine != asked:
                        res.count("inspect_changed_the_callers_look_for_list")
                    if limit is None or n > 1:
                        res.nontriv((akey, "inspect", fm, tuple(asked), omitted, limit, callno))
                    kind = "file" if fm in ("path", "gz") else "feats"
                    cmds.append("inspect %s %s %s %s" % (kind, ",".join(asked) if asked else "_",
                                                         "none" if limit is None else str(limit), L))
                    exp_out.append(enc_inspect(got))
                    tags.append(("inspect.inspect(%s form, call %d)" % (fm, callno + 1),
                                 repr((env.lines, asked, limit))))


def mixed_window_order(ctx, res):
    """one-shot Feature sources whose items carry DIFFERENT, individually inferred dialects (some lines end in a
    semicolon, some use another separator) so that the dialect vote inside the inspection window can be an exact tie:
    whatever the vote, the items come out once each and in their original order, for every checklines 0..n+2"""
    from gffutils import iterators
    from gffutils.feature import feature_from_line
    r = ctx.rng("c13-mixed-window")
    fixed = [["ID=g1", "ID=m1;Parent=g1", "ID=e1;Parent=m1;Name=first;"],
             ["ID=a;", "ID=b;Name=x;Note=y", "ID=c", "ID=d;Name=z;"]]
    for ci in range(10 if not ctx.thorough else 100):
        if ci < len(fixed):
            attrs = fixed[ci]
        else:
            attrs = []
            for i in range(r.randrange(2, 7)):
                ks = ["ID=f%d" % i] + ["%s=v%d" % (k, i) for k in r.sample(["Name", "Note", "Alias", "tag"], r.randrange(0, 4))]
                attrs.append(r.choice([";", "; "]).join(ks) + r.choice(["", "", ";"]))
        lines = ["chr1\tsrc\tgene\t%d\t%d\t.\t+\t.\t%s" % (10 * i + 1, 10 * i + 5, a) for i, a in enumerate(attrs)]
        want = [a.split("=")[1].split(";")[0] for a in attrs]
        for cl in range(0, len(lines) + 3):
            for form in ("generator", "iter", "map"):
                items = [feature_from_line(l) for l in lines]
                src = CountingGen(items) if form == "generator" else iter(items) if form == "iter" else map(lambda x: x, items)
                case = {"scenario": "mixed_window_order", "input": lines, "checklines": cl, "form": form, "no_shrink": True}
                res.evaluations += 1
                try:
                    got = [f.attributes["ID"][0] for f in iterators.DataIterator(src, checklines=cl)]
                except Exception as ex:
                    common.fail(res, case, "iteration_raised", "DataIterator over a one-shot Feature source raised %r" % ex,
                                error=pyside.err_name(ex))
                    continue
                res.count("mixed_dialect_one_shot_source")
                if got != want:
                    common.fail(res, case, "one_shot_items_reordered_or_lost",
                                "looking ahead to infer the dialect dropped, duplicated or reordered the items of a one-shot "
                                "source whose items carry different dialects", observed=got, expected=want)


def run(ctx):
    res = common.Result("C13")
    r = ctx.rng("c13")
    res.rule = ("annotations of n = 1..15 feature lines (GFF3 graphs and GTF transcripts in six dialect variants), all "
                "seven input forms x checklines 0..n+2 x {none,id,dropexon,mut,dropmut,dropall}; create_db over all seven "
                "forms for checklines in {0,1,n-1,n,n+2,10} x transforms; inspect over all 16 subsets of the default "
                "look_for plus other fields and the omitted (default) look_for x limits {None,0,-1,1,2,n-1..n+2}, each "
                "twice with the same list object. non-trivial = distinct (annotation, form, "
                "checklines, transform) with n >= 2, and distinct inspect calls")
    sizes = list(range(1, 16)) + [2, 11] if not ctx.thorough else \
        [1, 1, 2, 2, 3, 3, 4, 5, 6, 7, 8, 9, 10, 11, 12, 13, 14, 15] * 3
    cmds, exp_out, tags = [], [], []
    for i, n in enumerate(sizes):
        ann = gen_ann(r, n)
        if len(ann.records) < 1:
            continue
        check_annotation(ctx, res, ann, "a%d" % (i % 3), r, cmds, exp_out, tags, heavy=ctx.thorough, crlf=(i % 3 == 2))
    directed(ctx, res, cmds, exp_out, tags)
    mixed_window_order(ctx, res)
    # annotations whose lines end in white space that is data, in the three text forms
    rw = ctx.rng("c13-trailing-ws")
    for i in range(8 if not ctx.thorough else 60):
        lines, fmt = ws_lines(rw, rw.choice([1, 2, 3, 5, 8, 11, 12]))
        check_trailing_ws(ctx, res, lines, fmt, i % 4 == 3, cmds, exp_out, tags)
    out = ctx.model(cmds)
    if out is not None:
        for m, e, (comp, inp) in zip(out, exp_out, tags):
            res.corr_checked += 1
            if m != e:
                res.corr_disagreements.append((comp, inp[:700], m[:700], e[:700]))
    observations(ctx, res)
    res.assumptions = [
        "line ends \\n and (every third annotation) \\r\\n in the path, gzip and string forms; a lone \\r splits lines in "
        "text mode but not in gzip's binary mode - outside the domain",
        "n >= 1: an empty annotation makes create_db raise EmptyInputError (and DataIterator yield nothing) in every "
        "form - excluded from the oracle, as are create_db runs whose transform drops every feature (both are "
        "compared with the model only: same error kind)",
        "inspect(): a caller that passes the same look_for list object to two calls asks for the same counts twice",
        "annotations are written in ONE dialect with at least two attributes per line (so the per-line inferred dialect, "
        "the voted dialect and the dialect carried by FeatureDB features agree - the hypothesis `SameMapping` of the "
        "theorem forms_equivalent); integer start <= end on every line (bool(feature) is len(feature) != 0)",
        "the DataIterator form is built with the configuration (checklines, transform) and then handed in: "
        "DataIterator(<DataIterator>, checklines=..., transform=...) and create_db(data=<DataIterator>, ...) return/use "
        "it unchanged and ignore the later arguments (iterators.py L283-284) - checked, not counted as a violation",
        "the FeatureDB form of a GTF annotation is a database imported with disable_infer_genes/transcripts=True (it "
        "holds exactly the annotation's features); GFF3 ids come from the ID attribute, so re-import needs no renaming",
        "defect D15 (from_string=True leaves a tmpXXXX file in TMPDIR) is not C13's concern; TMPDIR is the scratch dir",
    ]
    return res


def observations(ctx, res):
    """behaviour next to the property that the report should mention (never a failure)"""
    from gffutils import iterators
    from gffutils.feature import feature_from_line
    obs = {}
    z = feature_from_line("chr1\ts\tgene\t5\t4\t.\t+\t.\tID=z;Name=z")
    obs["identity_transform_on_feature_with_end_eq_start_minus_1"] = \
        "%d of 1 yielded" % len(list(iterators.DataIterator([z], transform=lambda f: f)))
    try:
        d = feature_from_line("chr1\ts\tgene\t.\t4\t.\t+\t.\tID=z;Name=z")
        list(iterators.DataIterator([d], transform=lambda f: f))
        obs["identity_transform_on_feature_with_dot_start"] = "yielded"
    except Exception as ex:
        obs["identity_transform_on_feature_with_dot_start"] = "raised " + type(ex).__name__
    obs["note"] = ("`if i:` in _BaseIterator.__iter__ uses Feature.__len__: a transform result of length 0 counts as a "
                   "false value (skipped), a None coordinate raises TypeError; both are outside the generated domain")
    res.extra["observations_outside_domain"] = obs


def replay(ctx, payload):
    res = common.Result("C13")
    inp = payload.get("input", {})
    if inp.get("scenario") == "trailing_whitespace":
        cmds, exp_out, tags = [], [], []
        check_trailing_ws(ctx, res, inp["lines"], inp.get("fmt", "gff3"), bool(inp.get("crlf")), cmds, exp_out, tags)
        print("replay: %s (form=%s checklines=%s)" % (payload.get("what"), inp.get("form"), inp.get("checklines")))
        for l in inp["lines"]:
            print("replay:     %r" % l)
        for w, fp in res.oracle_failures[:3]:
            print("replay:   now: %s (form=%s checklines=%s)" % (w, fp.get("form"), fp.get("checklines")))
        print("replay: verdict: %d oracle failures on these lines (%s)" % (len(res.oracle_failures), common.repo_dir()))
        return res
    if inp.get("scenario") == "mixed_window_order":
        from gffutils import iterators
        from gffutils.feature import feature_from_line
        items = [feature_from_line(l) for l in inp["input"]]
        want = [f.attributes["ID"][0] for f in items]
        src = iter(items) if inp.get("form") != "map" else map(lambda x: x, items)
        got = [f.attributes["ID"][0] for f in iterators.DataIterator(src, checklines=inp["checklines"])]
        print("replay: one-shot source of %d features with different dialects, checklines=%s: yielded %r, expected %r"
              % (len(items), inp["checklines"], got, want))
        if got != want:
            common.fail(res, inp, "one_shot_items_reordered_or_lost", payload.get("what", ""), observed=got, expected=want)
        return res
    if "annotation" not in inp:
        print("replay: no annotation in payload")
        return res
    ann = Ann.from_payload(inp["annotation"])
    r = ctx.rng("replay")
    cmds, exp_out, tags = [], [], []
    check_annotation(ctx, res, ann, "rep", r, cmds, exp_out, tags, heavy=True, crlf=bool(inp.get("crlf")))
    print("replay: %s (form=%s checklines=%s transform=%s): %d oracle failures on the whole annotation"
          % (payload.get("what"), inp.get("form"), inp.get("checklines"), inp.get("transform"),
             len(res.oracle_failures)))
    return res
