"""C19 - existing databases are never clobbered; queries never write.

oracle (real code only): create_db on an occupied path raises without force and leaves the content untouched; with
force the result holds only the new input; every read-style method issues only SELECT/PRAGMA statements (sqlite3 trace
callback on FeatureDB.conn) and the content observed after reopening the file is unchanged.  Old databases include
ones emptied (or partly emptied) with FeatureDB.delete(); read sequences also run on a FeatureDB on which a write-style
call has just failed half-way (exception caught by the caller): no write / COMMIT during the reads, and after closing
WITHOUT commit the file holds what it held before the failed call (`check_failed_write`, replayable).
correspondence: `World.createDb` (GffModel/World.lean, through the `world` command of ProtoWorld) on the same
(old database, new input, force) sequences - which files exist and their content after every create_db call; the
classification of operations in the Lean World model (reads leave the persistent state unchanged) - the model's dump
before and after the same read sequence.
"""
import os
import warnings

import common
import dbside
import gen_db
import worldside
from common import enc, dec

TRUSTED = ["sqlite3.Connection.set_trace_callback reports every statement the connection executes"]
LEANCHECKER_MODULES = ["GffProofs.Props.C19"]


def logical_dump(path):
    """every schema object and every row of every table of the database file (sqlite3 iterdump), i.e. the content
    down to indexes and statistics tables; header bytes / pragmas are not part of it"""
    import sqlite3
    con = sqlite3.connect(path)
    try:
        return "\n".join(con.iterdump())
    finally:
        con.close()


def small_gff(r, tag):
    nodes = gen_db.rand_gff3_graph(r, n=r.randrange(2, 8), dangling=False)
    for x in nodes:
        x["id"] = tag + x["id"]
        x["parents"] = [tag + p for p in x["parents"]]
    return gen_db.graph_lines(nodes), nodes


WRITE_WORDS = ("insert", "update", "delete", "create", "drop", "alter", "replace", "vacuum", "reindex", "analyze")


EXTENSIONS = [".db", ".gffdb", ".sqlite", "", ".gff3.db", ".DB"]


def idless_lines(r, nodes, tag):
    """features WITHOUT an ID attribute (their keys are auto-numbered: exon_1, mRNA_1, ...), some below a stored parent"""
    out = []
    for i in range(r.randrange(1, 5)):
        attrs = [("Parent", [r.choice(nodes)["id"]])] if nodes and r.random() < 0.6 else [("Name", ["%s%d" % (tag, i)])]
        start = r.randrange(1, 4000)
        out.append(gen_db.gff_line(r.choice(["chr1", "chr2"]), r.choice(["exon", "exon", "mRNA", "gene"]), start,
                                   start + r.randrange(1, 300), r.choice("+-"), attrs))
    return out


def clobber_input(r, tag):
    lines, nodes = small_gff(r, tag)
    if r.random() < 0.75:
        extra = idless_lines(r, nodes, tag)
        for x in extra:
            lines.insert(r.randrange(len(lines) + 1), x)
    if r.random() < 0.5:
        lines = ["##gff-version 3"] + (["##species %s" % tag] if r.random() < 0.5 else []) + lines
    return lines


def read_calls(db, r, ids, n, res):
    """`n` read-style calls with random arguments on `db`; returns their names"""
    calls = []
    for _ in range(n):
        x = r.choice(ids)
        k = r.randrange(14)
        try:
            with warnings.catch_warnings():
                warnings.simplefilter("ignore")
                if k == 0:
                    calls.append("getitem"); db[x]
                elif k == 1:
                    calls.append("all_features"); list(db.all_features(order_by=r.choice([None, "start", "length"])))
                elif k == 2:
                    calls.append("features_of_type"); list(db.features_of_type(r.choice(["exon", "gene", "mRNA"])))
                elif k == 3:
                    calls.append("children"); list(db.children(x, level=r.choice([None, 1, 2, 3, 4])))
                elif k == 4:
                    calls.append("parents"); list(db.parents(x))
                elif k == 5:
                    calls.append("region"); list(db.region(seqid="chr1", start=1, end=r.randrange(1, 5000),
                                                           completely_within=r.random() < 0.5))
                elif k == 6:
                    calls.append("interfeatures"); list(db.interfeatures(db.all_features(order_by=("seqid", "start"))))
                elif k == 7:
                    calls.append("create_introns"); list(db.create_introns())
                elif k == 8:
                    calls.append("merge"); list(db.merge(db.all_features(order_by=("seqid", "strand", "featuretype", "start"))))
                elif k == 9:
                    calls.append("children_bp"); db.children_bp(x, child_featuretype="exon", merge=r.random() < 0.5)
                elif k == 10:
                    calls.append("bed12")
                    try:
                        db.bed12(x)
                    except (ValueError, AssertionError, UnboundLocalError):
                        pass
                elif k == 11:
                    calls.append("count"); db.count_features_of_type(r.choice([None, "exon"]))
                elif k == 12:
                    calls.append("featuretypes/seqids"); list(db.featuretypes()); list(db.seqids())
                else:
                    calls.append("create_splice_sites")
                    try:
                        list(db.create_splice_sites())
                    except (KeyError, IndexError):
                        pass        # exons without ID attribute: outside the property's domain for splice sites
        except Exception as ex:
            res.count("read_call_raised_" + type(ex).__name__)
    return calls


class CallbackBroke(Exception):
    """what the user-supplied parent_func / child_func of the failed-write scenario raises"""


def _broken_func(parent, child):
    raise CallbackBroke("user callback failed")


FAILED = [0]


def check_failed_write(ctx, case, res, scripts=None):
    """a write-style call that fails HALF-WAY (its first statement was executed on FeatureDB.conn, then an exception
    the caller catches), then only read-style calls on the same FeatureDB, then the connection is closed WITHOUT
    commit and the file is opened again: the reads must issue no write and no COMMIT (a COMMIT is what would make the
    abandoned half-done write permanent), and features, relations, directives, dialect and id counters observed after
    reopening equal those before the failed call.
    World correspondence: create ; connect ; [failed write: in the model a failed write keeps the pre-state] ;
    count (reads) ; connect again (the file as it is on disk) ; count."""
    import random
    import gffutils
    FAILED[0] += 1
    root = os.path.join(ctx.scratch, "failedwrite%d" % FAILED[0])
    rw = worldside.RealWorld(os.path.join(root, "w"), os.path.join(root, "in"))
    name, lines, w = "fw.db", case["input"], case["write"]
    dbfn = os.path.join(rw.root, name)
    res.evaluations += 1
    try:
        if rw.create(name, lines, dbside.Cfg.from_json(case["config"]), False) != "ok":
            res.count("failed_write_input_not_importable")
            return
        d0 = gffutils.FeatureDB(dbfn)
        before = dbside.dump(d0)
        d0.conn.close()
        before_all = logical_dump(dbfn)
        rw.connect(name)
        db = rw.db
        ids = [f.id for f in db.all_features()]
        stmts = []
        db.conn.set_trace_callback(stmts.append)
        # 1. the failed write; the caller catches the exception
        raised = None
        try:
            if w["op"] == "add_relation":
                db.add_relation(w["parent"], w["child"], w["level"], **{w["failing"]: _broken_func})
            else:
                db.delete(list(w["ids"]), make_backup=False)        # the second element is not a feature: AttributeError
        except (CallbackBroke, AttributeError, gffutils.FeatureNotFoundError) as ex:
            raised = ex
        except Exception as ex:             # e.g. IntegrityError: the relation exists already, nothing was executed
            raised = ex
        if raised is None:
            res.count("failed_write_did_not_fail")
            return
        pending = bool(db.conn.in_transaction)
        res.count("failed_write_%s_%s" % (w["op"], "leaves_a_pending_transaction" if pending else "nothing_pending"))
        wrote = [x for x in stmts if x.strip().split(None, 1)[0].lower() in WRITE_WORDS]
        del stmts[:]
        # 2. read-style calls only
        if w["op"] == "add_relation":
            # two reads that are also World items (before the other reads: merge / interfeatures draw ids from the
            # session's counters, which the World rendering shows)
            rw.count(None)
            rw.count("exon")
        calls = read_calls(db, random.Random(case["calls_seed"]), ids, case["ncalls"], res)
        for c in calls:
            res.count("call_after_failed_write_" + c)
        bad = [x for x in stmts if x.strip().split(None, 1)[0].lower() in WRITE_WORDS + ("commit", "end")]
        if bad:
            common.fail(res, case, "read_after_failed_write_issued_write",
                        "a read-style method issued a write / COMMIT statement (after a failed write whose exception was "
                        "caught, with its first statement still pending on the connection)", calls=calls, statements=bad[:5],
                        failed_write_statements=wrote[:3], failed_write_raised=repr(raised))
        # 3. close WITHOUT commit, reopen from the file
        db.conn.set_trace_callback(None)
        rw.abandon()
        if logical_dump(dbfn) != before_all:
            common.fail(res, case, "content_changed_after_failed_write_and_reads_logical",
                        "after a failed write, read-style calls and closing without commit, the file's content (schema "
                        "objects / rows) differs from the content before the failed write", calls=calls,
                        failed_write_raised=repr(raised))
        d1 = gffutils.FeatureDB(dbfn)
        after = dbside.dump(d1)
        d1.conn.close()
        if after != before:
            a_, b_ = dbside.parse_dump(after), dbside.parse_dump(before)
            common.fail(res, case, "content_changed_after_failed_write_and_reads",
                        "content after reopening differs from the content before the failed write, although only "
                        "read-style calls followed it and the connection was closed without commit", calls=calls,
                        failed_write_raised=repr(raised),
                        relations_added=sorted(a_.get("relations", set()) - b_.get("relations", set())),
                        relations_removed=sorted(b_.get("relations", set()) - a_.get("relations", set())),
                        ids_now=[f["id"] for f in a_.get("features", [])], ids_before=[f["id"] for f in b_.get("features", [])])
        rw.connect(name)
        rw.count(None)
        res.count("failed_write_then_reads")
        res.nontriv(("failed_write", tuple(lines), repr(w), tuple(calls)))
    finally:
        rw.finish()
        if scripts is not None and rw.items:
            scripts.append((rw, repr({"lines": lines, "failed_write": w})))


CLOBBER = [0]


def check_clobber(ctx, case, res, scripts=None):
    """(old database, new input) on one path, in ONE process: create_db without force must raise and leave the file's
    content untouched; with force=True the result holds only the new input - features, relations, directives, dialect
    and id counters equal a fresh import of the new input alone at a path never used before.
    `scripts`: collects the RealWorld script for the World.createDb correspondence"""
    import gffutils
    CLOBBER[0] += 1
    root = os.path.join(ctx.scratch, "clobber%d" % CLOBBER[0])
    rw = worldside.RealWorld(os.path.join(root, "w"), os.path.join(root, "in"))
    name, old_lines, new_lines = case["name"], case["old"], case["input"]
    cfg = dbside.Cfg.from_json(case["config"])
    dbfn = os.path.join(rw.root, name)
    res.evaluations += 1
    try:
        if rw.create(name, old_lines, cfg, bool(case.get("first_force"))) != "ok":
            res.count("old_input_not_importable")
            return
        if case.get("old_delete"):
            # the old database is a valid gffutils database from which features were removed with FeatureDB.delete():
            # "all" -> ZERO features (directives, dialect and id counters are still there), "some" -> every other one
            rw.connect(name)
            ids = [f.id for f in rw.db.all_features()]
            rw.delete(ids if case["old_delete"] == "all" else ids[::2], False)
            rw._close()
            res.count("clobber_old_database_emptied_with_delete" if case["old_delete"] == "all"
                      else "clobber_old_database_partly_deleted")
        d0 = gffutils.FeatureDB(dbfn)
        before = dbside.dump(d0)
        d0.conn.close()
        before_all = logical_dump(dbfn)
        # without force: must raise, content untouched
        out2 = rw.create(name, new_lines, cfg, False)
        if out2 == "ok":
            common.fail(res, case, "no_force_did_not_raise", "create_db on an existing database did not raise without force",
                        observed=out2)
        if not os.path.exists(dbfn):
            common.fail(res, case, "no_force_file_gone",
                        "create_db(force=False) on an existing database raised but the database file is gone",
                        observed="no file %s" % name, outcome=out2)
            return
        if logical_dump(dbfn) != before_all:
            common.fail(res, case, "no_force_content_changed_logical",
                        "create_db(force=False) on an existing database changed the file's content (schema objects / "
                        "indexes / statistics / rows)", outcome=out2)
        d1 = gffutils.FeatureDB(dbfn)
        after = dbside.dump(d1)
        d1.conn.close()
        if after != before:
            common.fail(res, case, "no_force_content_changed", "create_db(force=False) on an existing database changed its content",
                        outcome=out2, observed=after[:600], expected=before[:600])
        # with force: only the new input
        res.evaluations += 1
        out3 = rw.create(name, new_lines, cfg, True)
        elsewhere = os.path.join(root, "elsewhere")
        os.makedirs(elsewhere, exist_ok=True)
        fresh, rep_fresh = dbside.py_create(os.path.join(rw.inputs, "in%d.txt" % rw._n), cfg,
                                            dbfn=os.path.join(elsewhere, "fresh_%d.sqlite3" % CLOBBER[0]))
        if fresh is None:
            res.count("new_input_not_importable")
            if case.get("also_failing_import"):
                pass
        else:
            fresh.conn.commit()
            want = dbside.dump(fresh)
            fresh.conn.close()
            got = None
            if out3 == "ok" and os.path.exists(dbfn):
                d3 = gffutils.FeatureDB(dbfn)
                got = dbside.dump(d3)
                d3.conn.close()
            if got != want:
                a, b = dbside.parse_dump(got or "missing"), dbside.parse_dump(want)
                common.fail(res, case, "force_not_only_new_input",
                            "create_db(force=True) over an existing database does not give exactly the database of the new "
                            "input alone (features, relations, directives, dialect, id counters)", outcome=out3,
                            observed_ids=[f["id"] for f in a.get("features", [])], expected_ids=[f["id"] for f in b.get("features", [])],
                            observed_counters=a.get("pauto"), expected_counters=b.get("pauto"),
                            observed_directives=a.get("directives"), expected_directives=b.get("directives"))
        if case.get("feature_form"):
            # ... and once more with the new input handed over as Feature OBJECTS (a list, a one-shot generator, or a
            # FeatureDB holding them): such an input has no directive lines, so the forced result holds the new features
            # and NO directives - nothing of the old database (nor of any earlier import of this process)
            from gffutils.feature import feature_from_line
            import warnings
            flines = [l for l in new_lines if l and not l.startswith("#")]
            feats = [feature_from_line(l) for l in flines]
            form = case["feature_form"]
            src_db = None
            if form == "FeatureDB":
                src_db, _ = dbside.py_create(os.path.join(rw.inputs, "in%d.txt" % rw._n), cfg,
                                             dbfn=os.path.join(elsewhere, "src_%d.sqlite3" % CLOBBER[0]))
            data = feats if form == "list" else (f for f in feats) if form == "generator" else src_db
            res.evaluations += 1
            res.count("clobber_new_input_as_" + form)
            if data is not None:
                try:
                    with warnings.catch_warnings():
                        warnings.simplefilter("ignore")
                        d4 = gffutils.create_db(data, dbfn, force=True, **cfg.create_kwargs())
                    got_dirs, got_n = list(d4.directives), len(list(d4.all_features()))
                    d4.conn.commit(); d4.conn.close()
                    d5 = gffutils.FeatureDB(dbfn)
                    got_dirs2 = list(d5.directives)
                    d5.conn.close()
                    if got_dirs or got_dirs2 or got_n != len(flines):
                        common.fail(res, case, "force_not_only_new_input",
                                    "create_db(force=True) over an existing database, the new input given as Feature objects "
                                    "(%s), does not give exactly the database of the new input alone" % form,
                                    observed_directives=got_dirs or got_dirs2, expected_directives=[],
                                    observed_features=got_n, expected_features=len(flines))
                except Exception as ex:
                    if fresh is not None:
                        common.fail(res, case, "force_feature_input_raised",
                                    "create_db(force=True) with the new input as Feature objects raised %r" % ex,
                                    error=dbside.err_name(ex))
                finally:
                    if src_db is not None:
                        src_db.conn.close()
        if case.get("also_failing_import"):
            # an import that fails (duplicate ID): the property says nothing; World.createDb takes what is left as given
            rw.create(name, new_lines + new_lines[-1:], cfg, True)
            rw.create(name + ".second", new_lines + new_lines[-1:], cfg, False)
        res.count("clobber_pairs")
        res.count("clobber_name_*%s" % os.path.splitext(name)[1])
    finally:
        rw.finish()
        if scripts is not None:
            scripts.append((rw, repr({"name": name, "old": old_lines, "new": new_lines})))


def judge(ctx, case):
    res = common.Result("C19")
    if case.get("scenario") == "clobber":
        check_clobber(ctx, case, res)
    elif case.get("scenario") == "failed_write_then_reads":
        check_failed_write(ctx, case, res)
    return res


def run(ctx):
    import gffutils
    from gffutils import merge_criteria as mc
    res = common.Result("C19")
    r = ctx.rng("c19")
    res.rule = ("(old database, new input) pairs x force in {False, True} on file databases named *.db, *.gffdb, *.sqlite, "
                "without extension, ..., old and new inputs with features lacking an ID (auto-numbered keys) and directives, "
                "old databases from which all / some features were removed with FeatureDB.delete(), "
                "all create_db calls of a pair in one process; a failed write (add_relation with a raising parent_func / "
                "child_func, delete() over a list with a non-feature) followed by read-style calls, close without commit "
                "and reopen; random sequences of 5-25 "
                "read-style calls (look-up, iteration, children, parents, region, interfeatures, create_introns, "
                "create_splice_sites, merge, children_bp, bed12, counts, featuretypes, seqids) with random arguments on "
                "GFF3 and GTF databases under an sqlite statement trace. non-trivial = distinct (database, call sequence)")
    cmds, exp, tags = [], [], []
    scripts = []
    n = 25 if not ctx.thorough else 300
    for i in range(n):
        case = {"scenario": "clobber", "name": "c19_%d%s" % (i, EXTENSIONS[i % len(EXTENSIONS)]),
                "old": clobber_input(r, "o"), "input": clobber_input(r, "n"), "first_force": i % 3 == 1,
                "also_failing_import": i % 5 == 0, "config": dbside.Cfg().to_json(),
                "old_delete": "all" if (i == 1 or i % 4 == 3) else "some" if i % 8 == 6 else None,
                "feature_form": [None, "list", "generator", "FeatureDB"][i % 4] if i % 5 else None}
        if i == 1:
            # an emptied old database that keeps directives and non-trivial id counters (ID-less exons below a transcript)
            case["old"] = ["##gff-version 3", "##sequence-region chrOLD 1 5000",
                           gen_db.gff_line("chrOLD", "gene", 1, 1000, "+", [("ID", ["oldgene"])]),
                           gen_db.gff_line("chrOLD", "mRNA", 1, 1000, "+", [("ID", ["oldtx"]), ("Parent", ["oldgene"])]),
                           gen_db.gff_line("chrOLD", "exon", 1, 300, "+", [("Parent", ["oldtx"])]),
                           gen_db.gff_line("chrOLD", "exon", 500, 1000, "+", [("Parent", ["oldtx"])])]
            case["input"] = [gen_db.gff_line("chrNEW", "gene", 10, 90, "-", [("ID", ["newgene"])]),
                             gen_db.gff_line("chrNEW", "CDS", 10, 90, "-", [("Parent", ["newgene"])])]
        if i % 6 == 2:
            # the new input has NO feature line (empty / comments and directives only): without force the call still has
            # to raise and to leave the existing database alone
            case["input"] = [[], ["##gff-version 3", "# nothing here"], ["", "#c"]][(i // 6) % 3]
            case["feature_form"] = None
            case["also_failing_import"] = False
        if i == 0:
            # the shape of the seeded demos: old input all auto-numbered, new input two exons without ID
            case["old"] = ["##gff-version 3"] + [gen_db.gff_line("chr1", t, 100 + 10 * k, 200 + 10 * k, "+", [("Name", ["o%d" % k])])
                                                 for k, t in enumerate(["gene", "mRNA", "exon", "exon", "exon"])]
            case["input"] = ["##gff-version 3"] + [gen_db.gff_line("chr2", "exon", 10 + 20 * k, 20 + 20 * k, "-", [("Name", ["n%d" % k])])
                                                   for k in range(2)]
        check_clobber(ctx, case, res, scripts)
        res.nontriv(("clobber", case["name"], tuple(case["old"]), tuple(case["input"])))
    wout = ctx.model([rw.command() for rw, _ in scripts])
    if wout is not None:
        for (rw, desc), reply in zip(scripts, wout):
            worldside.compare_world(res, "World.createDb (free / occupied path x force)", desc, rw, reply)

    # a failed write, then reads only, then close without commit ---------------------------------------------------
    r4 = ctx.rng("c19", "failed-write")
    fscripts = []
    for i in range(12 if not ctx.thorough else 120):
        gtf = i > 2 and r4.random() < 0.3
        if i <= 2:
            # the shape of the seeded demo: two genes, a lone exon that is nobody's child yet
            lines = ["##gff-version 3",
                     gen_db.gff_line("chr1", "gene", 1, 1000, "+", [("ID", ["g1"])]),
                     gen_db.gff_line("chr1", "mRNA", 1, 1000, "+", [("ID", ["t1"]), ("Parent", ["g1"])]),
                     gen_db.gff_line("chr1", "exon", 1, 300, "+", [("ID", ["e1"]), ("Parent", ["t1"])]),
                     gen_db.gff_line("chr1", "gene", 2000, 3000, "-", [("ID", ["g2"])]),
                     gen_db.gff_line("chr1", "exon", 2000, 2500, "-", [("ID", ["e2"])])]
            ids = ["g1", "t1", "e1", "g2", "e2"]
            rels = set()
        elif gtf:
            lines = gen_db.gtf_lines(gen_db.rand_gtf_forest(r4))
        else:
            lines = gen_db.graph_lines(gen_db.rand_gff3_graph(r4, n=r4.randrange(3, 12), dangling=False))
        if not lines:
            continue
        if i > 2:
            probe, _ = dbside.py_create(dbside.write_lines(os.path.join(ctx.scratch, "fw_probe.txt"), lines), dbside.Cfg())
            if probe is None:
                continue
            ids = [f.id for f in probe.all_features()]
            rels = set(dbside.rels_of(probe))
            probe.conn.close()
        if not ids:
            continue
        if i == 2 or (i > 2 and r4.random() < 0.3):
            # delete() over a list whose second element is not a feature: the first one is deleted, then AttributeError
            write = {"op": "delete", "ids": [r4.choice(ids), 5]}
        else:
            p_, c_, l_ = "g2", "e2", 1
            if i > 2:
                for _ in range(6):
                    p_, c_, l_ = r4.choice(ids), r4.choice(ids), r4.choice([1, 1, 2, 3])
                    if (p_, c_, l_) not in rels:
                        break
                else:
                    l_ = 9
            write = {"op": "add_relation", "parent": p_, "child": c_, "level": l_,
                     "failing": "parent_func" if i == 1 or (i > 2 and r4.random() < 0.4) else "child_func"}
        case = {"scenario": "failed_write_then_reads", "input": lines, "write": write, "calls_seed": r4.getrandbits(32),
                "ncalls": 4 if i <= 2 else r4.randrange(1, 12), "config": dbside.Cfg().to_json(), "no_shrink": True}
        check_failed_write(ctx, case, res, fscripts)
    fout = ctx.model([rw.command() for rw, _ in fscripts])
    if fout is not None:
        for (rw, desc), reply in zip(fscripts, fout):
            worldside.compare_world(res, "World (failed write keeps the pre-state; reads; reopen from the file)", desc, rw, reply)

    # reads never write ------------------------------------------------------------------------------
    m = 20 if not ctx.thorough else 200
    for i in range(m):
        gtf = r.random() < 0.4
        if gtf:
            recs = gen_db.rand_gtf_forest(r)
            lines = gen_db.gtf_lines(recs)
            fname = "r.gtf"
        else:
            nodes = gen_db.rand_gff3_graph(r, n=r.randrange(3, 12), dangling=False)
            lines = gen_db.graph_lines(nodes)
            if i % 3 != 1:
                # a four-level chain c19a <- c19b <- c19c <- c19d (relatives three levels apart exist)
                lines += [gen_db.gff_line("chr1", ft_, 5000 + 10 * k_, 5900 - 10 * k_, "+",
                                          [("ID", [id_])] + ([("Parent", [par_])] if par_ else []))
                          for k_, (id_, ft_, par_) in enumerate([("c19a", "gene", None), ("c19b", "mRNA", "c19a"),
                                                                 ("c19c", "exon", "c19b"), ("c19d", "exon_part", "c19c")])]
            if i % 3 == 0:
                # ids that LOOK generated (ID=exon_1, exon_2: the stored counters are behind them) on overlapping exons, so
                # that merge() / children_bp(merge=True) really merge features of that type
                lines += [gen_db.gff_line("chr1", "exon", 10 + 5 * k, 30 + 5 * k, "+", [("ID", ["exon_%d" % (k + 1)])] +
                                          ([("Parent", [nodes[0]["id"]])] if k else [])) for k in range(3)]
            fname = "r.gff3"
        if not lines:
            continue
        for old in [x for x in os.listdir(ctx.scratch) if x.startswith("c19r_")]:
            os.unlink(os.path.join(ctx.scratch, old))
        dbfn = os.path.join(ctx.scratch, "c19r_%d.db" % i)
        path = dbside.write_lines(os.path.join(ctx.scratch, fname), lines)
        db, rep = dbside.py_create(path, dbside.Cfg(), dbfn=dbfn)
        if db is None:
            continue
        db.conn.commit(); db.conn.close()
        logical_before = logical_dump(dbfn)              # before ANY FeatureDB is opened on the finished file
        before = dbside.dump(gffutils.FeatureDB(dbfn))
        db = gffutils.FeatureDB(dbfn)
        stmts = []
        db.conn.set_trace_callback(stmts.append)
        ids = [f.id for f in db.all_features()]
        calls = read_calls(db, r, ids, r.randrange(5, 26), res)
        res.evaluations += 1
        res.nontriv((tuple(lines), tuple(calls)))
        for c in calls:
            res.count("call_" + c)
        writes = [s for s in stmts if s.strip().split(None, 1)[0].lower() in WRITE_WORDS]
        if writes:
            res.oracle_failures.append(("a read-style method issued a write statement",
                                        {"lines": lines, "calls": calls, "statements": writes[:5]}))
        # relatives three levels away, asked for with an explicit level (a four-level chain is part of some files)
        if "c19a" in ids:
            try:
                list(db.children("c19a", level=3)); list(db.parents("c19d", level=3)); list(db.children("c19a", level=4))
                calls = calls + ["children(level=3)", "parents(level=3)"]
            except Exception as ex:
                res.oracle_failures.append(("children()/parents() with level=3 raised %r" % ex, {"lines": lines}))
            writes = [s for s in stmts if s.strip().split(None, 1)[0].lower() in WRITE_WORDS]
            if writes:
                res.oracle_failures.append(("a read-style method issued a write statement",
                                            {"lines": lines, "calls": calls, "statements": writes[:5]}))
        db.conn.close()
        after = dbside.dump(gffutils.FeatureDB(dbfn))
        if after != before:
            res.oracle_failures.append(("content after reopening differs after read-style calls only",
                                        {"lines": lines, "calls": calls}))
        elif logical_dump(dbfn) != logical_before:
            res.oracle_failures.append(("opening the finished database and read-style calls changed the file's content "
                                        "(schema objects / indexes / statistics / rows)", {"lines": lines, "calls": calls}))
        if len(res.samples) < 2:
            res.sample({"calls": calls, "statements_seen": len(stmts)})
        # model: import the same text, dump, (reads are the identity on the persistent state), reopen, dump
        cmds.append(dbside.cmd_create(lines, dbside.Cfg())); exp.append(rep); tags.append(("create_db", repr(lines)))
        cmds.append("dump"); exp.append(before); tags.append(("tables", repr(lines)))
        cmds.append("q " + dbside.cmd_query(order_by=["start"])); exp.append(None); tags.append(("read", ""))
        cmds.append("reopen"); exp.append("ok"); tags.append(("reopen", ""))
        cmds.append("dump"); exp.append(after); tags.append(("tables after reads + reopen", repr(lines)))
    out = ctx.model(cmds)
    if out is not None:
        for c, mm, e, (comp, inp) in zip(cmds, out, exp, tags):
            if e is None:
                continue
            res.corr_checked += 1
            if comp.startswith("tables"):
                a, b = dbside.parse_dump(mm), dbside.parse_dump(e)
                same = ("error" not in a and "error" not in b and
                        sorted(map(str, a["features"])) == sorted(map(str, b["features"])) and
                        a["relations"] == b["relations"] and a["pauto"] == b["pauto"] and a["dialect"] == b["dialect"])
                if not same:
                    res.corr_disagreements.append((comp, inp[:700], mm[:500], e[:500]))
            elif mm != e:
                res.corr_disagreements.append((comp, inp[:700], mm[:300], e[:300]))
    res.assumptions = ["a COMMIT issued during read-style calls counts as a write only in the failed-write scenario, where the "
                       "connection holds the pending first statement of the failed call",
                       "'content' of a database file = features, relations, directives, dialect and id counters as "
                       "observed through a fresh FeatureDB (pragmas / sqlite header bytes are not content)"]
    common.shrink_first_failure(res, lambda case: judge(ctx, case))
    return res


def replay(ctx, payload):
    p = payload.get("input")
    if isinstance(p, dict) and p.get("scenario") in ("clobber", "failed_write_then_reads") and "kind" in p:
        return common.replay_failure("C19", payload, lambda case: judge(ctx, case))
    res = common.Result("C19")
    print("replay:", payload.get("what"), payload.get("input"))
    return res
