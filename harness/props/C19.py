"""C19 - existing databases are never clobbered; queries never write.

oracle (real code only): create_db on an occupied path raises without force and leaves the content untouched; with
force the result holds only the new input; every read-style method issues only SELECT/PRAGMA statements (sqlite3 trace
callback on FeatureDB.conn) and the content observed after reopening the file is unchanged.
correspondence: the classification of operations in the Lean World model (reads leave the persistent state
unchanged) - the model's dump before and after the same read sequence.
"""
import os
import warnings

import common
import dbside
import gen_db
from common import enc, dec

TRUSTED = ["sqlite3.Connection.set_trace_callback reports every statement the connection executes"]
LEANCHECKER_MODULES = ["GffProofs.Props.C19"]


def logical_dump(path):
    """every schema object and every row of every table of the database file (sqlite3 iterdump), i.e. the content
    down to indexes and statistics tables; header bytes / pragmas are not part of it"""
    import sqlite3
    con = sqlite3.connect(path)
    try:
        return "\n".join(con.iterdump())
    finally:
        con.close()


def small_gff(r, tag):
    nodes = gen_db.rand_gff3_graph(r, n=r.randrange(2, 8), dangling=False)
    for x in nodes:
        x["id"] = tag + x["id"]
        x["parents"] = [tag + p for p in x["parents"]]
    return gen_db.graph_lines(nodes), nodes


WRITE_WORDS = ("insert", "update", "delete", "create", "drop", "alter", "replace", "vacuum", "reindex", "analyze")


def run(ctx):
    import gffutils
    from gffutils import merge_criteria as mc
    res = common.Result("C19")
    r = ctx.rng("c19")
    res.rule = ("(old database, new input) pairs x force in {False, True} on file databases; random sequences of 5-25 "
                "read-style calls (look-up, iteration, children, parents, region, interfeatures, create_introns, "
                "create_splice_sites, merge, children_bp, bed12, counts, featuretypes, seqids) with random arguments on "
                "GFF3 and GTF databases under an sqlite statement trace. non-trivial = distinct (database, call sequence)")
    cmds, exp, tags = [], [], []
    n = 25 if not ctx.thorough else 300
    for i in range(n):
        old_lines, _ = small_gff(r, "o")
        new_lines, _ = small_gff(r, "n")
        for old in [x for x in os.listdir(ctx.scratch) if x.startswith("c19_")]:
            os.unlink(os.path.join(ctx.scratch, old))
        dbfn = os.path.join(ctx.scratch, "c19_%d.db" % i)
        p_old = dbside.write_lines(os.path.join(ctx.scratch, "old.gff3"), old_lines)
        p_new = dbside.write_lines(os.path.join(ctx.scratch, "new.gff3"), new_lines)
        cfg = dbside.Cfg()
        db, rep = dbside.py_create(p_old, cfg, dbfn=dbfn)
        db.conn.commit(); db.conn.close()
        before = dbside.dump(gffutils.FeatureDB(dbfn))
        before_all = logical_dump(dbfn)
        res.evaluations += 1
        # without force: must raise, content untouched
        db2, rep2 = dbside.py_create(p_new, cfg, dbfn=dbfn, force=False)
        after = dbside.dump(gffutils.FeatureDB(dbfn))
        if logical_dump(dbfn) != before_all:
            res.oracle_failures.append(("create_db(force=False) on an existing database changed the file's content "
                                        "(schema objects / indexes / statistics / rows)", {"old": old_lines, "new": new_lines}))
        if db2 is not None:
            res.oracle_failures.append(("create_db on an existing database did not raise without force",
                                        {"old": old_lines, "new": new_lines}))
        # the World model (GffModel/World.lean, theorem create_existing_fails_untouched) says `.error .operational`
        res.corr_checked += 1
        if rep2 != "err OperationalError":
            res.corr_disagreements.append(("World.createDb on an occupied path", repr(new_lines)[:300],
                                           "err OperationalError", rep2))
        if after != before:
            res.oracle_failures.append(("create_db(force=False) on an existing database changed its content",
                                        {"old": old_lines, "new": new_lines}))
        # with force: only the new input
        db3, rep3 = dbside.py_create(p_new, cfg, dbfn=dbfn, force=True)
        fresh, _ = dbside.py_create(p_new, cfg)
        res.evaluations += 1
        if db3 is None or dbside.dump(db3) != dbside.dump(fresh):
            res.oracle_failures.append(("create_db(force=True) does not contain exactly the new input",
                                        {"old": old_lines, "new": new_lines, "result": rep3}))
        if db3 is not None:
            db3.conn.close()
        res.count("clobber_pairs")

    # reads never write ------------------------------------------------------------------------------
    m = 20 if not ctx.thorough else 200
    for i in range(m):
        gtf = r.random() < 0.4
        if gtf:
            recs = gen_db.rand_gtf_forest(r)
            lines = gen_db.gtf_lines(recs)
            fname = "r.gtf"
        else:
            nodes = gen_db.rand_gff3_graph(r, n=r.randrange(3, 12), dangling=False)
            lines = gen_db.graph_lines(nodes)
            fname = "r.gff3"
        if not lines:
            continue
        for old in [x for x in os.listdir(ctx.scratch) if x.startswith("c19r_")]:
            os.unlink(os.path.join(ctx.scratch, old))
        dbfn = os.path.join(ctx.scratch, "c19r_%d.db" % i)
        path = dbside.write_lines(os.path.join(ctx.scratch, fname), lines)
        db, rep = dbside.py_create(path, dbside.Cfg(), dbfn=dbfn)
        if db is None:
            continue
        db.conn.commit(); db.conn.close()
        before = dbside.dump(gffutils.FeatureDB(dbfn))
        db = gffutils.FeatureDB(dbfn)
        stmts = []
        db.conn.set_trace_callback(stmts.append)
        ids = [f.id for f in db.all_features()]
        calls = []
        for _ in range(r.randrange(5, 26)):
            x = r.choice(ids)
            k = r.randrange(14)
            try:
                with warnings.catch_warnings():
                    warnings.simplefilter("ignore")
                    if k == 0:
                        calls.append("getitem"); db[x]
                    elif k == 1:
                        calls.append("all_features"); list(db.all_features(order_by=r.choice([None, "start", "length"])))
                    elif k == 2:
                        calls.append("features_of_type"); list(db.features_of_type(r.choice(["exon", "gene", "mRNA"])))
                    elif k == 3:
                        calls.append("children"); list(db.children(x, level=r.choice([None, 1, 2])))
                    elif k == 4:
                        calls.append("parents"); list(db.parents(x))
                    elif k == 5:
                        calls.append("region"); list(db.region(seqid="chr1", start=1, end=r.randrange(1, 5000),
                                                               completely_within=r.random() < 0.5))
                    elif k == 6:
                        calls.append("interfeatures"); list(db.interfeatures(db.all_features(order_by=("seqid", "start"))))
                    elif k == 7:
                        calls.append("create_introns"); list(db.create_introns())
                    elif k == 8:
                        calls.append("merge"); list(db.merge(db.all_features(order_by=("seqid", "strand", "featuretype", "start"))))
                    elif k == 9:
                        calls.append("children_bp"); db.children_bp(x, child_featuretype="exon", merge=r.random() < 0.5)
                    elif k == 10:
                        calls.append("bed12")
                        try:
                            db.bed12(x)
                        except (ValueError, AssertionError, UnboundLocalError):
                            pass
                    elif k == 11:
                        calls.append("count"); db.count_features_of_type(r.choice([None, "exon"]))
                    elif k == 12:
                        calls.append("featuretypes/seqids"); list(db.featuretypes()); list(db.seqids())
                    else:
                        calls.append("create_splice_sites")
                        try:
                            list(db.create_splice_sites())
                        except (KeyError, IndexError):
                            pass        # exons without ID attribute: outside the property's domain for splice sites
            except Exception as ex:
                res.count("read_call_raised_" + type(ex).__name__)
        res.evaluations += 1
        res.nontriv((tuple(lines), tuple(calls)))
        for c in calls:
            res.count("call_" + c)
        writes = [s for s in stmts if s.strip().split(None, 1)[0].lower() in WRITE_WORDS]
        if writes:
            res.oracle_failures.append(("a read-style method issued a write statement",
                                        {"lines": lines, "calls": calls, "statements": writes[:5]}))
        db.conn.close()
        after = dbside.dump(gffutils.FeatureDB(dbfn))
        if after != before:
            res.oracle_failures.append(("content after reopening differs after read-style calls only",
                                        {"lines": lines, "calls": calls}))
        if len(res.samples) < 2:
            res.sample({"calls": calls, "statements_seen": len(stmts)})
        # model: import the same text, dump, (reads are the identity on the persistent state), reopen, dump
        cmds.append(dbside.cmd_create(lines, dbside.Cfg())); exp.append(rep); tags.append(("create_db", repr(lines)))
        cmds.append("dump"); exp.append(before); tags.append(("tables", repr(lines)))
        cmds.append("q " + dbside.cmd_query(order_by=["start"])); exp.append(None); tags.append(("read", ""))
        cmds.append("reopen"); exp.append("ok"); tags.append(("reopen", ""))
        cmds.append("dump"); exp.append(after); tags.append(("tables after reads + reopen", repr(lines)))
    out = ctx.model(cmds)
    if out is not None:
        for c, mm, e, (comp, inp) in zip(cmds, out, exp, tags):
            if e is None:
                continue
            res.corr_checked += 1
            if comp.startswith("tables"):
                a, b = dbside.parse_dump(mm), dbside.parse_dump(e)
                same = ("error" not in a and "error" not in b and
                        sorted(map(str, a["features"])) == sorted(map(str, b["features"])) and
                        a["relations"] == b["relations"] and a["pauto"] == b["pauto"] and a["dialect"] == b["dialect"])
                if not same:
                    res.corr_disagreements.append((comp, inp[:700], mm[:500], e[:500]))
            elif mm != e:
                res.corr_disagreements.append((comp, inp[:700], mm[:300], e[:300]))
    res.assumptions = ["'content' of a database file = features, relations, directives, dialect and id counters as "
                       "observed through a fresh FeatureDB (pragmas / sqlite header bytes are not content)"]
    return res


def replay(ctx, payload):
    res = common.Result("C19")
    print("replay:", payload.get("what"), payload.get("input"))
    return res
