"""C06 - region and limit queries return exactly the overlapping/contained features.

correspondence (unit layer: the model's tables are loaded from a dump of the real database):
FeatureDB.region / all_features(limit=) / features_of_type(limit=) / children(limit=) / parents(limit=)
vs Interface.region / runQuery / runRelation.
oracle (real code only): brute-force filter over all_features(); also with several query results of one FeatureDB
alive at once (nested loops, iterators advanced alternately): each of them is its brute-force answer.
"""
import os

import common
import dbside
import gen_db
from common import enc, dec
from pyside import enc_list

TRUSTED = ["sqlite evaluates the generated WHERE clauses as written (NULL comparisons are false, INT affinity of "
           "start/end) - modelled in GffModel/Interface.lean, validated by the correspondence"]
TRANSLATION_TIE = "bins"        # vcheck: harness/gentie.py (bins.py translated to Lean, proved equal to the model)
LEANCHECKER_MODULES = ["GffProofs.Props.C06"]

M = 2 ** 29
SIZES = [2 ** (17 + 3 * k) for k in range(5)]


def boundary_coord(r):
    x = r.random()
    if x < 0.55:
        k = r.randrange(5)
        m = r.randrange(0, min(M // SIZES[k], 40) + 1) if r.random() < 0.8 else r.randrange(0, M // SIZES[k] + 1)
        return max(1, m * SIZES[k] + r.choice([-2, -1, 0, 1, 2]))
    if x < 0.7:
        return max(1, M + r.choice([-3, -2, -1, 0, 1, 2, 5, 1000]))
    if x < 0.8:
        return r.randrange(1, 50)
    return r.randrange(1, 3 * SIZES[0])


def rand_feature_set(r, n):
    feats = []
    for i in range(n):
        s = boundary_coord(r)
        if r.random() < 0.6:
            e = s + r.choice([0, 1, 2, 10, SIZES[0] - 1, SIZES[0], SIZES[1], r.randrange(0, 3 * SIZES[0])])
        else:
            e = max(s, boundary_coord(r))
        if e < s:
            s, e = e, s
        start, end = str(s), str(e)
        if r.random() < 0.05:
            start = "."
        if r.random() < 0.05:
            end = "."
        # sequence names that differ only in letter case are different sequences ('chr1' / 'Chr1' / 'CHR1')
        feats.append({"id": "f%d" % i, "seqid": r.choice(["chr1"] * 7 + ["chr2", "chr2", "Chr1", "CHR1"]), "start": start, "end": end,
                      "strand": r.choice(["+", "-", "."]), "ftype": r.choice(["gene", "exon", "CDS"]),
                      "parent": None})
    for f in feats[1:]:
        if r.random() < 0.5:
            f["parent"] = feats[0]["id"]
    return feats


def lines_of(feats):
    out = []
    for f in feats:
        attrs = [("ID", [f["id"]])] + ([("Parent", [f["parent"]])] if f["parent"] else [])
        out.append("\t".join([f["seqid"], "src", f["ftype"], f["start"], f["end"], ".", f["strand"], ".",
                              ";".join("%s=%s" % (k, ",".join(v)) for k, v in attrs)]))
    return out


def iv(x):
    return None if x == "." else int(x)


def brute(feats, seqid, start, end, within, strand=None, ftypes=None):
    out = []
    for f in feats:
        s, e = iv(f["start"]), iv(f["end"])
        if seqid is not None and f["seqid"] != seqid:
            continue
        if s is None or e is None:
            continue
        if within:
            ok = start <= s and e <= end
        else:
            ok = s <= end and e >= start
        if not ok:
            continue
        if strand is not None and f["strand"] != strand:
            continue
        if ftypes is not None and f["ftype"] not in ftypes:
            continue
        out.append(f["id"])
    return sorted(out)


def do_query(db, feats, q, lazy=False):
    """run one query of the case on the real database.  returns (ids returned, sorted; the brute-force answer over
    `feats` - None for the one-sided form, which has its own oracle; the model command of the same query).
    lazy=True: the first component is the iterator the query method returned, not yet advanced"""
    from gffutils.feature import Feature
    ids = (lambda it: it) if lazy else (lambda it: sorted(f.id for f in it))
    kind, seqid, a, b = q["query"], q["seqid"], q["start"], q["end"]
    within, strand, ft = q["completely_within"], q["strand"], q["featuretype"]
    fts = None if ft is None else ([ft] if isinstance(ft, str) else list(ft))
    root = feats[0]["id"]
    kids = [f for f in feats if f["parent"] == root]
    if kind.startswith("region"):
        kw = dict(completely_within=within, featuretype=ft)
        want_strand = strand
        sq = seqid
        if kind == "region_tuple":
            got = db.region((seqid, a, b), strand=strand, **kw)
        elif kind == "region_kw":
            got = db.region(seqid=seqid, start=a, end=b, strand=strand, **kw)
        elif kind == "region_str":
            got = db.region("%s:%d-%d" % (seqid, a, b), strand=strand, **kw)
        elif kind == "region_str_strand":
            # 'seqid:start-end:strand' - the strand travels inside the string
            got = db.region("%s:%d-%d%s" % (seqid, a, b, ":" + strand if strand else ""), **kw)
        elif kind == "region_seqid_only":
            # a bare 'seqid' string: no position clause at all, every feature of the sequence (also '.' coordinates)
            got = ids(db.region(seqid, strand=strand, **kw))
            want = sorted(f["id"] for f in feats if f["seqid"] == seqid and (strand is None or f["strand"] == strand)
                          and (fts is None or f["ftype"] in fts))
            cmd = "region %s ~ ~ %s %s %s" % (enc(seqid), "~" if strand is None else enc(strand),
                                              "~" if fts is None else enc_list(fts), "1" if within else "0")
            return got, want, cmd
        elif kind == "region_feature":
            fstrand = strand or "+"
            got = db.region(Feature(seqid=seqid, start=a, end=b, strand=fstrand), **kw)
            want_strand = fstrand          # the query feature's strand restricts (documented behaviour of the code)
        else:
            got = db.region(start=a, end=b, strand=strand, **kw)
            sq = None
        got = ids(got)
        want = brute(feats, sq, a, b, within, want_strand, fts)
        cmd = "region %s %d %d %s %s %s" % ("~" if sq is None else enc(sq), a, b,
                                            "~" if want_strand is None else enc(want_strand),
                                            "~" if fts is None else enc_list(fts), "1" if within else "0")
        return got, want, cmd
    if kind == "one_sided":
        if q["one_sided"] == "start":
            got = ids(db.region(seqid=seqid, start=a, completely_within=within))
            cmd = "region %s %d ~ ~ ~ %s" % (enc(seqid), a, "1" if within else "0")
        else:
            got = ids(db.region(seqid=seqid, end=b, completely_within=within))
            cmd = "region %s ~ %d ~ ~ %s" % (enc(seqid), b, "1" if within else "0")
        return got, None, cmd
    lim = (seqid, a, b) if kind != "limit_all_str" else "%s:%d-%d" % (seqid, a, b)
    if kind in ("limit_all", "limit_all_str"):
        got = db.all_features(limit=lim, completely_within=within, strand=strand, featuretype=ft)
        want = brute(feats, seqid, a, b, within, strand, fts)
        cmd = "q " + dbside.cmd_query(ft=fts or [], strand=strand, limit=(seqid, a, b), within=within)
    elif kind == "limit_type":
        t = ft if ft is not None else "exon"
        tl = [t] if isinstance(t, str) else list(t)
        got = db.features_of_type(t, limit=lim, completely_within=within, strand=strand)
        want = brute(feats, seqid, a, b, within, strand, tl)
        cmd = "q " + dbside.cmd_query(ft=tl, strand=strand, limit=(seqid, a, b), within=within)
    elif kind == "limit_children":
        got = db.children(root, limit=lim, completely_within=within, featuretype=ft)
        want = brute(kids, seqid, a, b, within, None, fts)
        cmd = "rel children %s ~ %s" % (enc(root), dbside.cmd_query(ft=fts or [], limit=(seqid, a, b), within=within))
    else:
        child = kids[0]["id"] if kids else feats[-1]["id"]
        got = db.parents(child, limit=lim, completely_within=within)
        want = brute([feats[0]] if kids else [], seqid, a, b, within, None, None)
        cmd = "rel parents %s ~ %s" % (enc(child), dbside.cmd_query(limit=(seqid, a, b), within=within))
    return ids(got), want, cmd


def check_one_sided(case, feats, q, got, res):
    seqid, a, b, within, which = q["seqid"], q["start"], q["end"], q["completely_within"], q["one_sided"]
    onseq = [f for f in feats if f["seqid"] == seqid]
    S = lambda f: iv(f["start"])
    E = lambda f: iv(f["end"])
    if which == "start":
        # half-line [a, oo): a feature is outside when it ends before a
        outside = [f["id"] for f in onseq if E(f) is not None and E(f) < a]
        beyond = [f["id"] for f in onseq if S(f) is not None and S(f) > a] if within else \
            [f["id"] for f in onseq if E(f) is not None and E(f) > a]
    else:
        outside = [f["id"] for f in onseq if S(f) is not None and S(f) > b]
        beyond = [f["id"] for f in onseq if E(f) is not None and E(f) < b] if within else \
            [f["id"] for f in onseq if S(f) is not None and S(f) < b]
    bad = [x for x in got if x in outside or x not in [f["id"] for f in onseq]]
    miss = [x for x in beyond if x not in got]
    if bad or miss or len(got) != len(set(got)):
        common.fail(res, case, "one_sided_region_wrong",
                    "one-sided region: returned a feature outside the half-line, or missed "
                    "one strictly beyond the bound", observed=got, outside=bad, missing=miss)


def check_query(case, db, feats, res):
    """one query against the brute-force filter.  returns (status, got, want, model command); status 'raised' |
    'one_sided' | 'judged'"""
    q = case["query"]
    try:
        got, want, cmd = do_query(db, feats, q)
    except Exception as ex:
        common.fail(res, case, "query_raised",
                    "%s raised %r" % (q["query"], ex), error=dbside.err_name(ex), observed=repr(ex))
        return "raised", None, None, None
    if want is None:
        check_one_sided(case, feats, q, got, res)
        return "one_sided", got, want, cmd
    if got != want:
        common.fail(res, case, "query_result_wrong", "%s does not return exactly the %s features" %
                    (q["query"], "contained" if q["completely_within"] else "overlapping"), observed=got, expected=want)
    return "judged", got, want, cmd


def judge_answer(case, feats, q, got, want, res, which):
    """one answer of an interleaved case (ids, sorted) against its brute-force answer / the one-sided oracle"""
    if want is None:
        check_one_sided(dict(case, which=which), feats, q, got, res)
    elif got != want:
        common.fail(res, case, "interleaved_result_wrong",
                    "%s (%s), consumed while another query result of the same FeatureDB was being consumed, does not "
                    "return exactly the %s features" % (q["query"], which, "contained" if q["completely_within"] else "overlapping"),
                    which=which, observed=got, expected=want)


def check_interleaved(case, db, feats, res):
    """several query results of ONE FeatureDB object alive at once: every one of them must be exactly its brute-force
    answer.  mode 'alternate': the iterators of case['queries'] are advanced in the order case['schedule'] says, then
    drained; mode 'nested': for every feature the outer query yields, an inner query about that feature's interval is run
    to its end before the outer one is advanced again.  returns [(model command, ids)] of every query, None if it raised"""
    answers = []
    try:
        if case["mode"] == "alternate":
            qs = case["queries"]
            opened = [do_query(db, feats, q, lazy=True) for q in qs]
            its = [iter(o[0]) for o in opened]
            gots = [[] for _ in qs]
            live = [True] * len(qs)
            for i in case["schedule"]:
                if i < len(qs) and live[i]:
                    try:
                        gots[i].append(next(its[i]).id)
                    except StopIteration:
                        live[i] = False
            for i in range(len(qs)):
                if live[i]:
                    gots[i].extend(f.id for f in its[i])
            for i, (q, (_, want, cmd)) in enumerate(zip(qs, opened)):
                judge_answer(case, feats, q, sorted(gots[i]), want, res, "query %d of %d" % (i + 1, len(qs)))
                answers.append((cmd, sorted(gots[i]), want))
            return answers
        q, inner = case["query"], case["inner"]
        ft, within = inner["featuretype"], inner["completely_within"]
        fts = None if ft is None else ([ft] if isinstance(ft, str) else list(ft))
        byid = {f["id"]: f for f in feats}
        it, want, cmd = do_query(db, feats, q, lazy=True)
        outer = []
        for g in it:
            outer.append(g.id)
            rec = byid.get(g.id)
            if rec is None or g.start is None or g.end is None:
                continue
            if inner["form"] == "feature":
                got = db.region(g, featuretype=ft, completely_within=within)
                strand = rec["strand"]
            elif inner["form"] == "tuple":
                got = db.region((g.seqid, g.start, g.end), featuretype=ft, completely_within=within)
                strand = None
            else:
                got = db.all_features(limit=(g.seqid, g.start, g.end), featuretype=ft, completely_within=within)
                strand = None
            got = sorted(f.id for f in got)
            iwant = brute(feats, g.seqid, g.start, g.end, within, strand, fts)
            iq = {"query": "region(%s)" % inner["form"] if inner["form"] != "limit_all" else "all_features(limit=)",
                  "completely_within": within}
            judge_answer(case, feats, iq, got, iwant, res, "inner query about %s" % g.id)
            if inner["form"] == "limit_all":
                icmd = "q " + dbside.cmd_query(ft=fts or [], limit=(g.seqid, g.start, g.end), within=within)
            else:
                icmd = "region %s %d %d %s %s %s" % (enc(g.seqid), g.start, g.end, "~" if strand is None else enc(strand),
                                                     "~" if fts is None else enc_list(fts), "1" if within else "0")
            answers.append((icmd, got, iwant))
        judge_answer(case, feats, q, sorted(outer), want, res, "outer query")
        answers.append((cmd, sorted(outer), want))
        return answers
    except Exception as ex:
        common.fail(res, case, "query_raised", "interleaved queries raised %r" % ex, error=dbside.err_name(ex),
                    observed=repr(ex))
        return None


KINDS = ["region_tuple", "region_kw", "region_str", "region_str_strand", "region_seqid_only", "region_feature",
         "region_noseqid", "one_sided", "limit_all", "limit_all_str", "limit_type", "limit_children", "limit_parents"]


def rand_iquery(r, feats, kinds=KINDS):
    """a query for the interleaved cases: mostly wide windows (several rows in the answer)"""
    x = r.random()
    if x < 0.5:
        a = r.choice([1, 1, 1, max(1, M - 3 * SIZES[0]), r.randrange(1, SIZES[0])])
        b = a + r.choice([M, 2 * M, M - 2, 3 * SIZES[0], SIZES[2], SIZES[3]])
    elif x < 0.8:
        f0 = r.choice(feats)
        if iv(f0["start"]) is not None and iv(f0["end"]) is not None:
            a = max(1, iv(f0["start"]) - r.choice([0, 1, SIZES[0], SIZES[1]]))
            b = max(a, iv(f0["end"]) + r.choice([0, 1, SIZES[0], SIZES[1]]))
        else:
            a, b = 1, M
    else:
        a = boundary_coord(r)
        b = a + r.choice([0, 1, SIZES[0], SIZES[1], SIZES[2]])
    kind = r.choice(kinds)
    q = {"query": kind, "seqid": r.choice(["chr1"] * 7 + ["chr2", "chr2", "Chr1", "CHR1"]), "start": a, "end": b,
         "completely_within": r.random() < 0.35, "strand": r.choice([None, None, None, "+", "-"]),
         "featuretype": r.choice([None, None, None, "exon", ["exon", "CDS"], ["gene"]])}
    if kind == "one_sided":
        q["one_sided"] = r.choice(["start", "end"])
    return q


def rand_interleaved(r, feats):
    """the extra fields of an interleaved case"""
    if r.random() < 0.5:
        n = r.choice([2, 2, 2, 3])
        qs = [rand_iquery(r, feats) for _ in range(n)]
        if r.random() < 0.3:
            qs[1] = dict(qs[0])                       # the same query twice, side by side
        if r.random() < 0.5:
            sched = [i for _ in range(r.randrange(1, 12)) for i in range(n)]          # strict alternation
        else:
            sched = [r.randrange(n) for _ in range(r.randrange(2, 30))]
        return dict(mode="alternate", queries=qs, schedule=sched)
    outer = rand_iquery(r, feats, kinds=["region_tuple", "region_kw", "region_str", "region_seqid_only", "region_noseqid",
                                         "region_feature", "limit_all", "limit_type", "limit_children", "one_sided"])
    inner = {"form": r.choice(["feature", "feature", "tuple", "limit_all"]),
             "featuretype": r.choice([None, None, "exon", ["exon", "CDS"]]), "completely_within": r.random() < 0.4}
    return dict(mode="nested", query=outer, inner=inner)


def move_feature(db, f0, ns, ne):
    """fetch, change coordinates, update with replace: the stored bin has to follow the new coordinates"""
    import warnings
    obj = db[f0["id"]]
    obj.start, obj.end = ns, ne
    with warnings.catch_warnings():
        warnings.simplefilter("ignore")
        db.update([obj], merge_strategy="replace", make_backup=False)
    f0["start"], f0["end"] = str(ns), str(ne)


def mk_case(scenario, lines, feats, moves, **kw):
    """a self-contained case: the lines as imported, the generator's record of every line, the coordinate changes
    applied afterwards ([id, new start, new end], in order), the query"""
    return dict({"scenario": scenario, "input": lines, "records": feats, "parallel": ["records"], "moves": moves,
                 "config": dbside.Cfg().to_json()}, **kw)


def judge(ctx, case):
    res = common.Result("C06")
    lines = case["input"]
    feats = [dict(f) for f in case["records"]]
    if len(lines) != len(feats):
        return res
    path = dbside.write_lines(os.path.join(ctx.scratch, "c06.gff3"), lines)
    db, rep = dbside.py_create(path, dbside.Cfg.from_json(case["config"]))
    if db is None:
        common.fail(res, case, "create_db_raised",
                    "create_db raised on a plain GFF3 feature set: " + rep, error=rep, observed=rep)
        return res
    if case["scenario"] not in ("query", "interleaved"):
        return res
    byid = {f["id"]: f for f in feats}
    for fid, ns, ne in case.get("moves", []):
        if fid in byid and iv(byid[fid]["start"]) is not None and iv(byid[fid]["end"]) is not None:
            move_feature(db, byid[fid], ns, ne)
    if case["scenario"] == "interleaved":
        check_interleaved(case, db, feats, res)
    else:
        check_query(case, db, feats, res)
    return res


def run(ctx):
    import gffutils
    res = common.Result("C06")
    r = ctx.rng("c06")
    res.rule = ("feature sets of 5-40 features (start <= end or '.') with ends on / one off / two off bin boundaries of "
                "every level, around 2^29 and beyond; queries 1 <= start <= end placed likewise; tuple, 'seqid:start-end' "
                "string and Feature forms; seqid omitted; one-sided; completely_within on/off; strand and featuretype "
                "restrictions; limit= of all_features / features_of_type / children / parents; plus several such results of one "
                "FeatureDB alive at once (nested loops, iterators advanced alternately). non-trivial = distinct "
                "(feature set, query) with a non-empty brute-force answer, or an interleaved case with two answers of >= 2 rows")
    cmds, exp, tags = [], [], []
    nsets = 25 if not ctx.thorough else 300
    nq = 40 if not ctx.thorough else 80
    for si in range(nsets):
        feats = rand_feature_set(r, r.randrange(5, 41))
        lines = lines_of(feats)
        orig_lines, orig_feats, moves = lines, [dict(f) for f in feats], []
        path = dbside.write_lines(os.path.join(ctx.scratch, "c06.gff3"), lines)
        db, rep = dbside.py_create(path, dbside.Cfg())
        if db is None:
            common.fail(res, mk_case("import", orig_lines, orig_feats, []), "create_db_raised",
                        "create_db raised on a plain GFF3 feature set: " + rep, error=rep, observed=rep)
            continue
        # the hypothesis of the region / limit theorems (BinInv): every stored row carries bins(start, end) of its own
        # coordinates - the bin pre-filter is only transparent then
        import gffutils.bins as _B
        for row_ in dbside.rows_of(db):
            if row_["start"] is not None and row_["end"] is not None and row_["bin"] != _B.bins(row_["start"], row_["end"], one=True):
                common.fail(res, mk_case("import", orig_lines, orig_feats, []), "stored_bin_not_bins_of_coordinates",
                            "a stored feature does not carry bins(start, end) of its coordinates (the bin pre-filter of "
                            "region / limit queries would miss it)", id=row_["id"], start=row_["start"], end=row_["end"],
                            stored_bin=row_["bin"], expected=_B.bins(row_["start"], row_["end"], one=True))
                break
        # in some sets a few features are moved afterwards (fetch, change coordinates, update with replace):
        # the stored bin has to follow the new coordinates
        if si % 3 == 0:
            for f0 in r.sample(feats, min(3, len(feats))):
                if iv(f0["start"]) is None or iv(f0["end"]) is None:
                    continue
                ns = boundary_coord(r)
                ne = ns + r.choice([0, 5, SIZES[0] - 1, r.randrange(0, 2 * SIZES[0])])
                move_feature(db, f0, ns, ne)
                moves.append([f0["id"], ns, ne])
                res.count("moved_features")
            lines = lines_of(feats)
        cmds.append(dbside.cmd_load(db)); exp.append("ok"); tags.append(("load", "dump of the real database"))
        for qi in range(nq):
            a = boundary_coord(r)
            b = a + r.choice([0, 1, 5, SIZES[0] - 1, SIZES[0], 2 * SIZES[0], SIZES[1], SIZES[2], r.randrange(0, 2 * SIZES[0])])
            half = [f for f in feats if (iv(f["start"]) is None) != (iv(f["end"]) is None)]
            if 6 <= qi < 9 and half:        # a point query at the one known coordinate of a half-'.' feature
                f0 = half[(qi - 6) % len(half)]
                a = b = iv(f0["start"]) if iv(f0["start"]) is not None else iv(f0["end"])
            if qi < 6:                      # the 2^29 limit itself, deterministically
                a, b = [(1, M), (M - 5, M), (M, M), (M - 1, M + 3), (1, M - 1), (M - 3, M - 1)][qi]
            if r.random() < 0.3 and qi >= 6:
                f0 = r.choice(feats)
                if iv(f0["start"]) is not None and iv(f0["end"]) is not None:
                    a, b = iv(f0["start"]) + r.choice([-1, 0, 1]), iv(f0["end"]) + r.choice([-1, 0, 1])
                    a = max(1, a); b = max(a, b)
            seqid = r.choice(["chr1", "chr1", "chr2", "chrZ", "Chr1", "CHR1"])
            if 6 <= qi < 9 and half:
                seqid = f0["seqid"]
            within = r.random() < 0.5
            strand = r.choice([None, None, "+", "-"])
            ft = r.choice([None, None, "exon", ["exon", "CDS"], ["gene"]])
            kind = r.choice(["region_tuple", "region_kw", "region_str", "region_str_strand", "region_seqid_only",
                             "region_feature", "region_noseqid", "one_sided",
                             "limit_all", "limit_all_str", "limit_type", "limit_children", "limit_parents"])
            if qi < 6:
                # ... in every set, with both containment modes and the two-sided forms of region() and limit= in turn
                within = bool((qi + si) % 2)
                kind = ["region_tuple", "limit_all", "region_kw", "limit_type", "region_str", "limit_all_str"][(qi + si // 2) % 6]
                seqid, strand, ft = "chr1", None, None
            inp = {"lines": lines, "query": kind, "seqid": seqid, "start": a, "end": b, "completely_within": within,
                   "strand": strand, "featuretype": ft}
            res.evaluations += 1
            res.count(kind)
            res.count("beyond_2^29" if b >= M else "below_2^29")
            if kind == "one_sided":
                inp["one_sided"] = r.choice(["start", "end"])
            case = mk_case("query", orig_lines, orig_feats, moves, query={k: v for k, v in inp.items() if k != "lines"})
            status, got, want, cmd = check_query(case, db, feats, res)
            if status == "raised":
                continue
            cmds.append(cmd); exp.append("SET " + enc_list(got)); tags.append((kind, repr(inp)))
            if status == "one_sided":
                continue
            if want:
                res.nontriv((si, kind, seqid, a, b, within, strand, str(ft)))
            if len(res.samples) < 3 and want:
                res.sample({k: v for k, v in inp.items() if k != "lines"} | {"answer": want})
        # several results of this FeatureDB object alive at once: nested loops (for every feature of a window, what
        # overlaps it) and iterators advanced alternately - every answer is still exactly its brute-force answer
        for ii in range(8 if not ctx.thorough else 12):
            case = mk_case("interleaved", orig_lines, orig_feats, moves, **rand_interleaved(r, feats))
            res.evaluations += 1
            res.count("interleaved_" + case["mode"])
            answers = check_interleaved(case, db, feats, res)
            if answers is None:
                continue
            for cmd, got, want in answers:
                cmds.append(cmd); exp.append("SET " + enc_list(got))
                tags.append(("interleaved " + case["mode"], repr({k: case[k] for k in ("queries", "schedule", "query", "inner")
                                                                  if k in case})))
            if sum(1 for _, got, want in answers if len(want or got) >= 2) >= 2:
                res.nontriv((si, "interleaved", ii))
                res.count("interleaved_two_answers_with_2+_rows")
        # region() without any position restriction, or with an empty featuretype collection: outside the property (the
        # real code hands sqlite an incomplete statement); correspondence only - the model says OperationalError too
        if si % 10 == 0:
            for kw in (dict(), dict(strand="+"), dict(featuretype="exon"), dict(start=0), dict(end=0, completely_within=True),
                       dict(seqid="chr1", featuretype=[])):
                try:
                    got = "ok " + enc_list(sorted(f.id for f in db.region(**kw)))
                except Exception as ex:
                    got = "err " + dbside.err_name(ex)
                ftv = kw.get("featuretype")
                cmds.append("region %s %s %s %s %s %s" % (
                    "~" if kw.get("seqid") is None else enc(kw["seqid"]), kw.get("start", "~"), kw.get("end", "~"),
                    "~" if kw.get("strand") is None else enc(kw["strand"]),
                    "~" if ftv is None else enc_list([ftv] if isinstance(ftv, str) else ftv),
                    "1" if kw.get("completely_within") else "0"))
                exp.append(got); tags.append(("region without restriction", repr(kw)))
            # falsy arguments (outside the property's 1 <= start <= end and its strand values; correspondence only): an empty
            # strand string is "no restriction" for make_query but a real comparison for region(); a zero coordinate is
            # "not given" for region() and switches the bin clause off for limit=
            e0 = r.choice([100, 1000, 131072, 2 ** 29])
            for ws in ("", "+"):
                for within in (False, True):
                    got = sorted(f.id for f in db.all_features(limit=("chr1", 0, e0), strand=ws, completely_within=within))
                    cmds.append("q " + dbside.cmd_query(strand=ws, limit=("chr1", 0, e0), within=within))
                    exp.append("SET " + enc_list(got)); tags.append(("all_features(limit start=0, strand=%r)" % ws, repr(e0)))
                    try:
                        got = "SET " + enc_list(sorted(f.id for f in db.region(seqid="chr1", start=0, end=e0, strand=ws,
                                                                             completely_within=within)))
                    except Exception as ex:
                        got = "err " + dbside.err_name(ex)
                    cmds.append("region %s 0 %d %s ~ %s" % (enc("chr1"), e0, enc(ws), "1" if within else "0"))
                    exp.append(got); tags.append(("region(start=0, strand=%r)" % ws, repr(e0)))
    # directed, every run: VERY WIDE completely_within regions (100 ... 400 Mb: 800 ... 3300 bins, around and far beyond
    # the number of bins up to which the pre-filter is used) over features spread along 260 Mb, some near the far end
    wide = []
    for j in range(44):
        p0 = j * 6000000 + 5
        wide.append({"id": "w%d" % j, "seqid": "chr1", "start": str(p0), "end": str(p0 + 40 + 1000 * (j % 3)),
                     "strand": "+-"[j % 2], "ftype": "gene", "parent": None})
    wlines = lines_of(wide)
    wdb, wrep = dbside.py_create(dbside.write_lines(os.path.join(ctx.scratch, "c06w.gff3"), wlines), dbside.Cfg())
    if wdb is None:
        common.fail(res, mk_case("import", wlines, wide, []), "create_db_raised", "create_db raised: " + wrep, error=wrep)
    else:
        for W in (100000000, 105000000, 110000000, 117000000, 117900000, 118000000, 119000000, 125000000, 150000000,
                  200000000, 262000000, 400000000):
            for kind in ("region_tuple", "region_str", "limit_all"):
                for within in (True, False):
                    q = {"query": kind, "seqid": "chr1", "start": 1, "end": W, "completely_within": within, "strand": None,
                         "featuretype": None}
                    res.evaluations += 1
                    res.count("very_wide_region_%s" % ("within" if within else "overlap"))
                    check_query(mk_case("query", wlines, wide, [], query=q, no_shrink=True), wdb, wide, res)
    out = ctx.model(cmds)
    if out is not None:
        for c, m, e, (comp, inp) in zip(cmds, out, exp, tags):
            res.corr_checked += 1
            if e.startswith("SET "):
                m = "SET " + enc_list(sorted(dec(x) for x in m[3:].split(",") if x != "_")) if m.startswith("ok ") else m
            if m != e:
                res.corr_disagreements.append((comp, inp[:900], m[:300], e[:300]))
    res.assumptions = ["stored features have start <= end (or '.'): for a feature with start > end the SQL of region() "
                       "also matches start == end == query point, which the property's wording does not cover",
                       "queries have 1 <= start <= end", "region(Feature) restricts to the query feature's strand"]
    common.shrink_first_failure(res, lambda case: judge(ctx, case))
    return res


def replay(ctx, payload):
    return common.replay_failure("C06", payload, lambda case: judge(ctx, case))
