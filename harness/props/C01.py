"""C01 - import fidelity: every input line is stored once and comes back unchanged.

correspondence: create_db + all_features() + str(feature) + reopen vs the Lean model (Iter.runFile, Create.createDb,
Interface.runQuery, Feature.print), end to end, on generated files in every dialect and on the repository's data files.
oracle (real code only): one feature per feature line, in input order, same columns / extra columns / decoded
attributes; printed form byte-identical (keep_order=True) for files written in one consistent dialect; same content
after close + reopen; re-importing the printed features gives an equivalent database.
"""
import os

import common
import dbside
import gen_spec
import parser_common as pc
import pyside
from common import enc, dec
from props import C09

TRUSTED = ["simplejson round trip of the stored attributes/extra (C17)", "sqlite stores and returns TEXT/INT columns unchanged"]
LEANCHECKER_MODULES = ["GffProofs.Props.C01"]


def make_file(r, n):
    """n line specs sharing one dialect (separator, trailing semicolon, style, quoting, repeated keys); attribute keys
    follow one global order; includes flags, percent-escapes, '.' coordinates, extra columns"""
    base = gen_spec.rand_spec(r, valid=True)
    style, quoted, sep, tr, rep = base.style, base.quoted, base.sep, base.trailing, base.repeated
    fmt = "gtf" if (style == "space" and quoted) else "gff3"
    allkeys = (["gene_id", "transcript_id"] if fmt == "gtf" else ["ID", "Name"]) + r.sample(
        ["Note", "k1", "a_b", "x.y", "Alias", "tag", "flag1"], 5)
    nextra = r.choice([0, 0, 1, 2])
    full_first = r.random() < 0.75        # the first line shows every key, so the voted order is the global one
    specs = []
    for i in range(n):
        s = gen_spec.Spec()
        s.mode = "file"
        s.style, s.quoted, s.sep, s.trailing, s.repeated = style, quoted, sep, tr, rep
        keys = [k for k in allkeys[2:] if r.random() < 0.5 or (i == 0 and full_first)]
        keys = allkeys[:2] + keys
        attrs = []
        for j, k in enumerate(keys):
            if k == "flag1":
                attrs.append((k, []))
                continue
            nv = 1
            if j >= 1 and k not in ("ID", "gene_id", "transcript_id") or (rep and j == 1):
                nv = r.choice([1, 1, 2, 3])
            if rep and j == 1:
                nv = 2
            vals = []
            for q in range(nv):
                v = "%s%d_%d" % (k[:2], i, q)
                if fmt == "gff3" and r.random() < 0.3:
                    v += r.choice([";", ",", "=", "%", " x", "\té", "&"])
                vals.append(v)
            attrs.append((k, vals))
        s.attrs = attrs
        a = r.randrange(1, 10000)
        s.cols = [r.choice(["chr1", "chr2"]), "src", r.choice(["gene", "mRNA", "exon", "CDS"]),
                  "." if r.random() < 0.05 else str(a), "." if r.random() < 0.05 else str(a + r.randrange(0, 500)),
                  r.choice([".", "0.5"]), r.choice("+-."), r.choice([".", "0"])]
        s.extra = ["e%d" % q for q in range(nextra)]
        specs.append(s)
    return specs, fmt, allkeys


def feature_obs(f):
    return ([f.seqid, f.source, f.featuretype, "." if f.start is None else str(f.start),
             "." if f.end is None else str(f.end), f.score, f.strand, f.frame], list(f.extra),
            [(k, list(v)) for k, v in f.attributes._d.items()])


def run(ctx):
    import gffutils
    from gffutils import iterators
    res = common.Result("C01")
    r = ctx.rng("c01")
    res.rule = ("files of 0-30 lines written in one dialect (all separators / trailing / styles / quoting / repeated keys; "
                "flags, percent-escapes, '.' coordinates, extra columns), line counts below/at/above checklines, file and "
                ":memory: databases, merge_strategy create_unique, keep_order=True; the repository's data files. The oracle "
                "judges byte identity only for files in the documented single-dialect domain: (i) the inspection window "
                "votes the file's dialect, (ii) each line's key order agrees with the voted first-seen order. "
                "non-trivial = distinct in-domain file with >= 2 lines")
    cmds, exp, tags = [], [], []
    nfiles = 120 if not ctx.thorough else 1200
    for fi in range(nfiles):
        n = r.choice([1, 2, 3, 5, 9, 10, 11, 12, 13, 20, 30])
        specs, fmt, allkeys = make_file(r, n)
        rows = pc.run_specs(ctx, specs)
        lines = [(rows[j]["line"] if rows and rows[j] else pc.py_wf_render(s)) for j, s in enumerate(specs)]
        cl = r.choice([10, 10, 0, 1, n - 1, n, n + 2, 3])
        cl = max(cl, 0)
        mem = r.random() < 0.5
        ext = "gtf" if fmt == "gtf" else "gff3"
        path = dbside.write_lines(os.path.join(ctx.scratch, "c01." + ext), ["##gff-version 3"] + lines)
        dbfn = ":memory:" if mem else os.path.join(ctx.scratch, "c01_%d.db" % fi)
        cfg = dbside.Cfg(strategy="create_unique", keep_order=True, disG=True, disT=True)
        db, rep = dbside.py_create(path, cfg, dbfn=dbfn, checklines=cl)
        res.evaluations += 1
        inp = {"lines": lines, "checklines": cl, "dbfn": "memory" if mem else "file"}
        cmds.append(dbside.cmd_create(["##gff-version 3"] + lines, cfg, checklines=cl)); exp.append(rep)
        tags.append(("create_db", repr(inp)))
        if db is None:
            res.oracle_failures.append(("create_db raised on a well-formed file: " + rep, inp))
            continue
        feats = list(db.all_features())
        # stored once, in order, columns / extra / attributes
        if len(feats) != len(specs):
            res.oracle_failures.append(("not one stored feature per input line", dict(inp, stored=len(feats))))
            continue
        want_d = C09.spec_dialect(specs[0])
        voted = db.dialect
        dims_ok = all(voted[k] == want_d[k] for k in pyside.DKEYS[:-1])
        order = voted["order"]
        pos = {k: i for i, k in enumerate(order)}
        order_ok = all([k for k, _ in s.attrs] == sorted([k for k, _ in s.attrs], key=lambda k: pos.get(k, 10 ** 6))
                       for s in specs)
        in_domain = dims_ok and order_ok
        res.count("in_domain" if in_domain else ("vote_differs" if not dims_ok else "order_inconsistent"))
        bad = False
        for s, f, line in zip(specs, feats, lines):
            cols, extra, attrs = feature_obs(f)
            if cols != list(s.cols) or extra != list(s.extra):
                res.oracle_failures.append(("columns / extra columns of a stored feature differ from the input line",
                                            dict(inp, line=line, stored=str(f))))
                bad = True
                break
            if in_domain and attrs != [(k, list(v)) for k, v in s.attrs]:
                res.oracle_failures.append(("attribute keys/values of a stored feature differ from the input line",
                                            dict(inp, line=line, stored=attrs)))
                bad = True
                break
            if in_domain and str(f) != line:
                res.oracle_failures.append(("printed feature is not byte-identical to its input line",
                                            dict(inp, line=line, printed=str(f))))
                bad = True
                break
        if bad:
            continue
        if in_domain and n >= 2:
            res.nontriv(tuple(lines))
        printed = [str(f) for f in feats]
        cmds.append("dump"); exp.append(dbside.dump(db)); tags.append(("tables after import", repr(inp)))
        cmds.append("q " + dbside.cmd_query()); exp.append("ok " + pyside.enc_list([f.id for f in feats]))
        tags.append(("all_features order", repr(inp)))
        for f in feats[:3]:
            cmds.append("get " + enc(f.id)); exp.append("ok " + pyside.enc_feature(f)); tags.append(("db[id] + str()", repr(inp)))
        # reopen
        if not mem:
            db.conn.commit()
            db2 = gffutils.FeatureDB(dbfn, keep_order=True)
            p2 = [str(f) for f in db2.all_features()]
            if p2 != printed or db2.dialect != db.dialect or db2.directives != db.directives:
                res.oracle_failures.append(("content differs after closing and reopening the database file", inp))
        # re-import of the printed features
        if in_domain:
            path2 = dbside.write_lines(os.path.join(ctx.scratch, "c01b." + ext), ["##gff-version 3"] + printed)
            db3, rep3 = dbside.py_create(path2, cfg, checklines=cl)
            if db3 is None or dbside.dump(db3) != dbside.dump(db):
                res.oracle_failures.append(("re-importing the printed features does not give an equivalent database",
                                            dict(inp, reimport=rep3)))
        # ... and re-importing the features themselves (FeatureDB / one-shot generator input; more than checklines
        # features go through the dialect peek of the feature iterator)
        if in_domain and fi % 2 == 0:
            for form in ("FeatureDB", "generator"):
                src = db if form == "FeatureDB" else db.all_features()
                try:
                    import warnings
                    with warnings.catch_warnings():
                        warnings.simplefilter("ignore")
                        db4 = gffutils.create_db(src, ":memory:", checklines=cl, merge_strategy="create_unique", keep_order=True,
                                                 disable_infer_genes=True, disable_infer_transcripts=True)
                    p4 = [str(f) for f in db4.all_features()]
                except Exception as ex:
                    p4 = "raised %r" % ex
                res.evaluations += 1
                if p4 != printed:
                    res.oracle_failures.append(("re-importing the features (as %s) does not give an equivalent database" % form,
                                                dict(inp, got=p4 if isinstance(p4, str) else len(p4), expected=len(printed))))
        if len(res.samples) < 2:
            res.sample(inp)
    # repository data files: correspondence of the whole import (no byte-identity claim: mixed dialects) --------------
    import glob
    d = os.path.join(common.repo_dir(), "gffutils", "test", "data")
    nfiles = 0
    for fn in sorted(glob.glob(os.path.join(d, "*"))):
        if not fn.endswith((".gff", ".gff3", ".gtf")):
            continue
        try:
            txt = open(fn, encoding="utf-8").read()
        except (UnicodeDecodeError, OSError):
            continue
        lines = txt.split("\n")
        if lines and lines[-1] == "":
            lines.pop()
        if not lines or len(lines) > (400 if not ctx.thorough else 5000) or any("\r" in l for l in lines):
            continue
        cfg = dbside.Cfg(strategy="create_unique", keep_order=True, disG=True, disT=True)
        db, rep = dbside.py_create(fn, cfg)
        res.evaluations += 1
        nfiles += 1
        cmds.append(dbside.cmd_create(lines, cfg)); exp.append(rep); tags.append(("create_db (data file)", fn))
        if db is not None:
            cmds.append("dump"); exp.append(dbside.dump(db)); tags.append(("tables (data file)", fn))
            feats = list(db.all_features())
            k = len(feats)
            cmds.append("q " + dbside.cmd_query()); exp.append("ok " + pyside.enc_list([f.id for f in feats]))
            tags.append(("all_features order (data file)", fn))
            for f in feats[: 5]:
                cmds.append("get " + enc(f.id)); exp.append("ok " + pyside.enc_feature(f)); tags.append(("db[id] (data file)", fn))
    res.count("data_files", nfiles)
    out = ctx.model(cmds)
    if out is not None:
        for c, m, e, (comp, inp) in zip(cmds, out, exp, tags):
            res.corr_checked += 1
            if m != e:
                res.corr_disagreements.append((comp, inp[:600], m[:500], e[:500]))
    res.assumptions = ["single-dialect domain as in DESIGN.md §3 C01: the window exhibits the dialect; per-line key order "
                       "consistent with the voted order", "keys unique or merge_strategy=create_unique"]
    return res


def replay(ctx, payload):
    res = common.Result("C01")
    print("replay:", payload.get("what"), payload.get("input"))
    return res
