"""C01 - import fidelity: every input line is stored once and comes back unchanged.

correspondence: create_db + all_features() + str(feature) + reopen vs the Lean model (Iter.runFile, Create.createDb,
Interface.runQuery, Feature.print), end to end, on generated files in every dialect and on the repository's data files.
oracle (real code only): one feature per feature line, in input order, same columns / extra columns / decoded
attributes; printed form byte-identical (keep_order=True) for files written in one consistent dialect; same content
after close + reopen; re-importing the printed features gives an equivalent database.
"""
import gzip
import os

import common
import dbside
import gen_spec
import parser_common as pc
import pyside
from common import enc, dec
from props import C09

TRUSTED = ["simplejson round trip of the stored attributes/extra (C17)", "sqlite stores and returns TEXT/INT columns unchanged"]
LEANCHECKER_MODULES = ["GffProofs.Props.C01"]


NONASCII = ["é", "ü", "β", "中", "Ω1", "ñ", "\U0001F600"]       # 2-, 3- and 4-byte UTF-8 sequences


def make_file(r, n, nonascii=False):
    """n line specs sharing one dialect (separator, trailing semicolon, style, quoting, repeated keys); attribute keys
    follow one global order; includes flags, percent-escapes, '.' coordinates, extra columns.  `nonascii`: at least
    one line carries characters outside ASCII - in a fixed column (seqid / source / featuretype), in attribute values
    and in an extra column"""
    base = gen_spec.rand_spec(r, valid=True)
    style, quoted, sep, tr, rep = base.style, base.quoted, base.sep, base.trailing, base.repeated
    fmt = "gtf" if (style == "space" and quoted) else "gff3"
    allkeys = (["gene_id", "transcript_id"] if fmt == "gtf" else ["ID", "Name"]) + r.sample(
        ["Note", "k1", "a_b", "x.y", "Alias", "tag", "flag1"], 5)
    nextra = r.choice([0, 0, 1, 2])
    full_first = r.random() < 0.75        # the first line shows every key, so the voted order is the global one
    # "late keys": the first four lines carry only the two id keys, later lines bring keys the inspection window may
    # never have seen (they print after the known ones, in the order they were stored); reverse alphabetical, so that
    # neither sorting nor re-ranking them goes unnoticed
    late = r.random() < 0.3
    if late:
        full_first = False
        allkeys = allkeys[:2] + sorted(allkeys[2:], reverse=True)
    specs = []
    for i in range(n):
        s = gen_spec.Spec()
        s.mode = "file"
        s.style, s.quoted, s.sep, s.trailing, s.repeated = style, quoted, sep, tr, rep
        keys = [k for k in allkeys[2:] if r.random() < 0.5 or (i == 0 and full_first)]
        if late:
            keys = [] if i < 4 else (keys if len(keys) >= 2 else allkeys[2:5])
        keys = allkeys[:2] + keys
        attrs = []
        for j, k in enumerate(keys):
            if k == "flag1":
                attrs.append((k, []))
                continue
            nv = 1
            if j >= 1 and k not in ("ID", "gene_id", "transcript_id") or (rep and j == 1):
                nv = r.choice([1, 1, 2, 3])
            if rep and j == 1:
                nv = 2
            vals = []
            for q in range(nv):
                v = "%s%d_%d" % (k[:2], i, q)
                if fmt == "gff3" and r.random() < 0.3:
                    v += r.choice([";", ",", "=", "%", " x", "\té", "&", "+", " 1 151 +", "a+/b+"])
                elif fmt != "gff3" and quoted and r.random() < 0.3:
                    # GTF has no escaping: characters that GFF3 would percent-encode are stored and printed as they are
                    v += r.choice(["=", "%", "&", "%25", "%2C", " x"])
                vals.append(v)
            attrs.append((k, vals))
        s.attrs = attrs
        a = r.randrange(1, 10000)
        s.cols = [r.choice(["chr1", "chr2"]), "src", r.choice(["gene", "mRNA", "exon", "CDS"]),
                  "." if r.random() < 0.05 else str(a), "." if r.random() < 0.05 else str(a + r.randrange(0, 500)),
                  r.choice([".", "0.5"]), r.choice("+-."), r.choice([".", "0"])]
        s.extra = ["e%d" % q for q in range(nextra)]
        specs.append(s)
    if nonascii:
        for i in sorted(set([r.randrange(n)] + [j for j in range(n) if r.random() < 0.3])):
            s = specs[i]
            where = r.choice(["col", "value", "value", "both", "extra" if nextra else "col"])
            if where in ("col", "both"):
                j = r.choice([0, 0, 1, 2])
                s.cols[j] = s.cols[j] + r.choice(NONASCII)
            if where in ("value", "both"):
                q = r.choice([q for q, (k, v) in enumerate(s.attrs) if v])
                k, v = s.attrs[q]
                v = list(v)
                v[r.randrange(len(v))] += r.choice(NONASCII)
                s.attrs[q] = (k, v)
            if where == "extra":
                s.extra[r.randrange(nextra)] += r.choice(NONASCII)
    return specs, fmt, allkeys


def feature_obs(f):
    return ([f.seqid, f.source, f.featuretype, "." if f.start is None else str(f.start),
             "." if f.end is None else str(f.end), f.score, f.strand, f.frame], list(f.extra),
            [(k, list(v)) for k, v in f.attributes._d.items()])


CFG = dbside.Cfg(strategy="create_unique", keep_order=True, disG=True, disT=True)


def mk_case(lines, specs, fmt, cl, mem, reimport_features, form="path"):
    """a self-contained case: the feature lines of the file (a '##gff-version 3' line is written first), the line
    specification each was rendered from, the file extension, checklines, the kind of database, whether the
    re-import of the Feature objects is part of the case, and how the file is handed to create_db: "path" (the plain
    file) or "gz" (a gzip file '<name>.gz' holding the same bytes)"""
    return {"scenario": "file", "input": list(lines), "records": [s.as_dict() for s in specs], "parallel": ["records"],
            "config": CFG.to_json(), "ext": "gtf" if fmt == "gtf" else "gff3", "checklines": cl,
            "dbfn": "memory" if mem else "file", "reimport_features": reimport_features, "form": form}


def import_file(ctx, case, dbname):
    cfg = dbside.Cfg.from_json(case["config"])
    path = dbside.write_lines(os.path.join(ctx.scratch, "c01." + case["ext"]), ["##gff-version 3"] + list(case["input"]))
    if case.get("form", "path") == "gz":
        with open(path, "rb") as fh:
            raw = fh.read()
        path += ".gz"
        with gzip.open(path, "wb") as fh:
            fh.write(raw)
    dbfn = ":memory:" if case["dbfn"] == "memory" else os.path.join(ctx.scratch, dbname)
    db, rep = dbside.py_create(path, cfg, dbfn=dbfn, checklines=case["checklines"])
    return db, rep, cfg, dbfn


def check_stored(case, specs, db, rep, res):
    """stored once, in order, columns / extra / attributes / printed form.  returns None when the case is finished
    (a failure, or nothing more to judge), else (features, in_domain)"""
    lines = case["input"]
    if db is None:
        common.fail(res, case, "create_db_raised",
                    "create_db raised on a well-formed file: " + rep, error=rep, observed=rep)
        return None
    feats = list(db.all_features())
    if len(feats) != len(specs):
        common.fail(res, case, "feature_count",
                    "not one stored feature per input line", observed=len(feats), expected=len(specs))
        return None
    want_d = C09.spec_dialect(specs[0])
    voted = db.dialect
    dims_ok = all(voted[k] == want_d[k] for k in pyside.DKEYS[:-1])
    order = voted["order"]
    pos = {k: i for i, k in enumerate(order)}
    order_ok = all([k for k, _ in s.attrs] == sorted([k for k, _ in s.attrs], key=lambda k: pos.get(k, 10 ** 6))
                   for s in specs)
    in_domain = dims_ok and order_ok
    res.count("in_domain" if in_domain else ("vote_differs" if not dims_ok else "order_inconsistent"))
    for s, f, line in zip(specs, feats, lines):
        cols, extra, attrs = feature_obs(f)
        if cols != list(s.cols) or extra != list(s.extra):
            common.fail(res, case, "columns_differ",
                        "columns / extra columns of a stored feature differ from the input line",
                        line=line, observed=str(f))
            return None
        if in_domain and attrs != [(k, list(v)) for k, v in s.attrs]:
            common.fail(res, case, "attributes_differ",
                        "attribute keys/values of a stored feature differ from the input line",
                        line=line, observed=attrs, expected=[(k, list(v)) for k, v in s.attrs])
            return None
        if in_domain and str(f) != line:
            common.fail(res, case, "printed_not_identical", "printed feature is not byte-identical to its input line",
                        expected=line, observed=str(f))
            return None
    return feats, in_domain


def check_reimports(ctx, case, db, dbfn, cfg, feats, in_domain, res):
    """same content after close + reopen; re-importing the printed features, and the Feature objects themselves,
    gives an equivalent database"""
    import gffutils
    import warnings
    cl = case["checklines"]
    printed = [str(f) for f in feats]
    # the Feature objects handed out are the caller's: changing their value lists / extra columns in place (without
    # update()) must not change what the database yields afterwards
    for f in feats:
        for v in f.attributes._d.values():
            v.append("edited-in-place")
        f.extra.append("edited-in-place")
    again = [str(f) for f in db.all_features()]
    if again != printed:
        common.fail(res, case, "iteration_differs_after_editing_fetched_objects",
                    "iterating the database again, after the Feature objects of the first iteration were edited in place "
                    "(no update()), does not yield the stored lines", observed=again, expected=printed)
    if case["dbfn"] != "memory":
        db.conn.commit()
        db2 = gffutils.FeatureDB(dbfn, keep_order=True)
        p2 = [str(f) for f in db2.all_features()]
        if p2 != printed or db2.dialect != db.dialect or db2.directives != db.directives:
            common.fail(res, case, "reopen_differs", "content differs after closing and reopening the database file",
                        observed=p2, expected=printed)
    # re-import of the printed features
    if in_domain:
        path2 = dbside.write_lines(os.path.join(ctx.scratch, "c01b." + case["ext"]), ["##gff-version 3"] + printed)
        db3, rep3 = dbside.py_create(path2, cfg, checklines=cl)
        if db3 is None or dbside.dump(db3) != dbside.dump(db):
            common.fail(res, case, "reimport_printed_differs",
                        "re-importing the printed features does not give an equivalent database",
                        reimport=rep3, printed=printed)
    # ... and re-importing the features themselves (FeatureDB / one-shot generator input; more than checklines
    # features go through the dialect peek of the feature iterator)
    if in_domain and case["reimport_features"]:
        for form in ("FeatureDB", "generator"):
            src = db if form == "FeatureDB" else db.all_features()
            try:
                with warnings.catch_warnings():
                    warnings.simplefilter("ignore")
                    db4 = gffutils.create_db(src, ":memory:", checklines=cl, merge_strategy="create_unique", keep_order=True,
                                             disable_infer_genes=True, disable_infer_transcripts=True)
                p4 = [str(f) for f in db4.all_features()]
            except Exception as ex:
                p4 = "raised %r" % ex
            res.evaluations += 1
            if p4 != printed:
                common.fail(res, case, "reimport_features_differs",
                            "re-importing the features (as %s) does not give an equivalent database" % form,
                            form=form, observed=p4 if isinstance(p4, str) else len(p4), expected=len(printed))


def corr_commands(db, rep, lines, cfg, cl, tag, nget=3):
    """the model commands of one imported file and what the real code answered: (cmds, exp, components)"""
    cmds = [dbside.cmd_create(lines, cfg, checklines=cl)]
    exp = [rep]
    comps = ["create_db" + tag]
    if db is not None:
        feats = list(db.all_features())
        cmds.append("dump"); exp.append(dbside.dump(db)); comps.append("tables after import" + tag)
        cmds.append("q " + dbside.cmd_query()); exp.append("ok " + pyside.enc_list([f.id for f in feats]))
        comps.append("all_features order" + tag)
        for f in feats[:nget]:
            cmds.append("get " + enc(f.id)); exp.append("ok " + pyside.enc_feature(f)); comps.append("db[id] + str()" + tag)
    return cmds, exp, comps


def judge(ctx, case):
    res = common.Result("C01")
    if case.get("scenario") != "file" or len(case["input"]) != len(case["records"]):
        return res
    specs = [gen_spec.Spec.from_dict(d) for d in case["records"]]
    db, rep, cfg, dbfn = import_file(ctx, case, "c01_judge.db")
    st = check_stored(case, specs, db, rep, res)
    if st is not None:
        check_reimports(ctx, case, db, dbfn, cfg, st[0], st[1], res)
    return res


def run(ctx):
    import gffutils
    from gffutils import iterators
    res = common.Result("C01")
    r = ctx.rng("c01")
    res.rule = ("files of 0-30 lines written in one dialect (all separators / trailing / styles / quoting / repeated keys; "
                "flags, percent-escapes, '.' coordinates, extra columns, characters outside ASCII in columns, values and "
                "extra columns), handed over as a plain path or as a gzip path (same bytes), line counts below/at/above "
                "checklines, file and "
                ":memory: databases, merge_strategy create_unique, keep_order=True; the repository's data files. The oracle "
                "judges byte identity only for files in the documented single-dialect domain: (i) the inspection window "
                "votes the file's dialect, (ii) each line's key order agrees with the voted first-seen order. "
                "non-trivial = distinct in-domain file with >= 2 lines")
    cmds, exp, tags = [], [], []
    nfiles = 120 if not ctx.thorough else 1200
    for fi in range(nfiles):
        n = r.choice([1, 2, 3, 5, 9, 10, 11, 12, 13, 20, 30])
        # the file goes to create_db as a plain path or as a gzip path holding the same bytes; files with characters
        # outside ASCII in columns / values / extra columns in both forms (most of the gzip ones)
        form = "gz" if r.random() < 0.4 else "path"
        nonascii = r.random() < (0.8 if form == "gz" else 0.3)
        specs, fmt, allkeys = make_file(r, n, nonascii)
        res.count("form_%s%s" % (form, "_nonascii" if nonascii else ""))
        rows = pc.run_specs(ctx, specs)
        lines = [(rows[j]["line"] if rows and rows[j] else pc.py_wf_render(s)) for j, s in enumerate(specs)]
        cl = r.choice([10, 10, 0, 1, n - 1, n, n + 2, 3])
        cl = max(cl, 0)
        mem = r.random() < 0.5
        case = mk_case(lines, specs, fmt, cl, mem, fi % 2 == 0, form)
        db, rep, cfg, dbfn = import_file(ctx, case, "c01_%d.db" % fi)
        res.evaluations += 1
        inp = {"lines": lines, "checklines": cl, "dbfn": "memory" if mem else "file", "form": form}
        ccase = {"scenario": "file", "input": lines, "checklines": cl, "dbfn": inp["dbfn"], "ext": case["ext"],
                 "config": case["config"], "form": form}
        c1, e1, t1 = corr_commands(db, rep, ["##gff-version 3"] + lines, cfg, cl, "")
        cmds += c1[:1]; exp += e1[:1]; tags += [(t, ccase) for t in t1[:1]]
        st = check_stored(case, specs, db, rep, res)
        if st is None:
            continue
        feats, in_domain = st
        if in_domain and n >= 2:
            res.nontriv(tuple(lines))
        cmds += c1[1:]; exp += e1[1:]; tags += [(t, ccase) for t in t1[1:]]
        # the same database opened with the other print settings: sort_attribute_values sorts every value list as
        # written, with and without keep_order (model: Session.sortVals -> Parser.reconstruct)
        for ko, sv in ((True, True), (False, True), (False, False)):
            try:
                dbs = gffutils.FeatureDB(db.conn, keep_order=ko, sort_attribute_values=sv)
                sel = list(dbs.all_features())[:4]
            except Exception:
                continue
            cmds.append("reopen %d %d" % (ko, sv)); exp.append("ok"); tags.append(("FeatureDB(keep_order, sort_attribute_values)", ccase))
            for f in sel:
                cmds.append("get " + enc(f.id)); exp.append("ok " + pyside.enc_feature(f))
                tags.append(("db[id] + str() with keep_order=%r sort_attribute_values=%r" % (ko, sv), ccase))
        cmds.append("reopen 1 0"); exp.append("ok"); tags.append(("FeatureDB(keep_order=True)", ccase))
        check_reimports(ctx, case, db, dbfn, cfg, feats, in_domain, res)
        if len(res.samples) < 2:
            res.sample(inp)
    # repository data files: correspondence of the whole import (no byte-identity claim: mixed dialects) --------------
    import glob
    d = os.path.join(common.repo_dir(), "gffutils", "test", "data")
    nfiles = 0
    for fn in sorted(glob.glob(os.path.join(d, "*"))):
        if not fn.endswith((".gff", ".gff3", ".gtf")):
            continue
        try:
            txt = open(fn, encoding="utf-8").read()
        except (UnicodeDecodeError, OSError):
            continue
        lines = txt.split("\n")
        if lines and lines[-1] == "":
            lines.pop()
        if not lines or len(lines) > (400 if not ctx.thorough else 5000) or any("\r" in l for l in lines):
            continue
        cfg = dbside.Cfg(strategy="create_unique", keep_order=True, disG=True, disT=True)
        db, rep = dbside.py_create(fn, cfg)
        res.evaluations += 1
        nfiles += 1
        dcase = {"scenario": "data_file", "file": os.path.relpath(fn, common.repo_dir())}
        cmds.append(dbside.cmd_create(lines, cfg)); exp.append(rep); tags.append(("create_db (data file)", dcase))
        if db is not None:
            cmds.append("dump"); exp.append(dbside.dump(db)); tags.append(("tables (data file)", dcase))
            feats = list(db.all_features())
            k = len(feats)
            cmds.append("q " + dbside.cmd_query()); exp.append("ok " + pyside.enc_list([f.id for f in feats]))
            tags.append(("all_features order (data file)", dcase))
            for f in feats[: 5]:
                cmds.append("get " + enc(f.id)); exp.append("ok " + pyside.enc_feature(f))
                tags.append(("db[id] (data file)", dcase))
    res.count("data_files", nfiles)
    out = ctx.model(cmds)
    if out is not None:
        for c, m, e, (comp, inp) in zip(cmds, out, exp, tags):
            res.corr_checked += 1
            if m != e:
                res.corr_disagreements.append((comp, inp, m[:500], e[:500]))
    res.assumptions = ["single-dialect domain as in DESIGN.md §3 C01: the window exhibits the dialect; per-line key order "
                       "consistent with the voted order", "keys unique or merge_strategy=create_unique"]
    common.shrink_first_failure(res, lambda case: judge(ctx, case))
    if not res.oracle_failures and res.corr_disagreements:
        shrink_first_disagreement(ctx, res)
    return res


def corr_case(ctx, ccase):
    """model and real code on one file of the correspondence (a generated file given by its lines, or one of the
    repository's data files): the list of (component, model, impl) that differ"""
    if ccase.get("scenario") == "data_file":
        fn = os.path.join(common.repo_dir(), ccase["file"])
        lines = open(fn, encoding="utf-8").read().split("\n")
        if lines and lines[-1] == "":
            lines.pop()
        cfg, cl = CFG, 10
        db, rep = dbside.py_create(fn, cfg)
        cmds, exp, comps = corr_commands(db, rep, lines, cfg, cl, " (data file)", nget=5)
    else:
        db, rep, cfg, dbfn = import_file(ctx, ccase, "c01_corr.db")
        cl = ccase["checklines"]
        cmds, exp, comps = corr_commands(db, rep, ["##gff-version 3"] + list(ccase["input"]), cfg, cl, "")
    out = ctx.model(cmds)
    if out is None:
        raise common.Infra("the model driver is not available: the correspondence cannot be replayed")
    return [(comp, m, e) for comp, m, e in zip(comps, out, exp) if m != e]


def first_difference(m, e):
    """the first differing word of two protocol replies, decoded where it is an encoded string"""
    for a, b in zip(m.split(" "), e.split(" ")):
        if a != b:
            try:
                return "model %r, impl %r" % (dec(a), dec(b))
            except Exception:
                return "model %s, impl %s" % (a[:300], b[:300])
    return "model reply has %d words, impl reply %d" % (len(m.split(" ")), len(e.split(" ")))


def shrink_first_disagreement(ctx, res):
    """no oracle failure, but model and code differ: shrink the lines of the first differing generated file (the
    same component must still differ)"""
    comp, inp, m, e = res.corr_disagreements[0]
    if not isinstance(inp, dict) or inp.get("scenario") != "file" or len(inp["input"]) < 2:
        return
    best = [None]

    def still_differs(lines):
        d = [x for x in corr_case(ctx, dict(inp, input=lines)) if x[0] == comp]
        if d:
            best[0] = d[0]
        return bool(d)
    small = common.shrink_lines(inp["input"], still_differs)
    if best[0] is not None and len(small) < len(inp["input"]):
        res.corr_disagreements[0] = (comp, dict(inp, input=small, input_unshrunk=inp["input"], shrunk=True),
                                     best[0][1][:500], best[0][2][:500])


def replay(ctx, payload):
    if isinstance(payload.get("input"), dict):
        return common.replay_failure("C01", payload, lambda case: judge(ctx, case))
    # a replay of `no-failing-input-found`: re-run the correspondence on the first recorded disagreement
    res = common.Result("C01")
    for p in payload.get("proof_obligations_broken", []):
        print("replay: recorded as broken proof obligation: %s" % p[:300])
    for d in payload.get("correspondence_broken", []):
        inp = d.get("input")
        if not isinstance(inp, dict):
            continue
        print("replay: property C01, correspondence component %r" % d.get("component"))
        for k in sorted(inp):
            if k not in ("input", "input_unshrunk", "config"):
                print("replay:   %s = %r" % (k, inp[k]))
        for l in inp.get("input", []):
            print("replay:     %r" % l)
        print("replay:   recorded: model %s" % d.get("model", "")[:300])
        print("replay:   recorded: impl  %s" % d.get("impl", "")[:300])
        diff = corr_case(ctx, inp)
        res.corr_checked = 1
        for comp, m, e in diff:
            print("replay:   now %s differs: %s" % (comp, first_difference(m, e)))
            res.corr_disagreements.append((comp, inp, m[:500], e[:500]))
        print("replay: verdict: model and real code %s on this input (%s)"
              % ("differ" if diff else "agree", common.repo_dir()))
        break
    else:
        print("replay: nothing replayable in this file")
    return res
