"""C08 - attribute values survive print/parse losslessly; parsing never fails.

correspondence: Feature(attributes=dict, dialect=D) printed and re-parsed with D; quoter / urllib.parse.unquote;
_split_keyvals on arbitrary strings with inferred and supplied dialects - against the Lean model.
oracle (real code only): the printed feature is one line with 9 (+extra) columns; re-parsing with the same
dialect returns the same columns and mapping (GFF3-style: arbitrary Unicode values; GTF-style: values free of
; " , and control characters); no exception and lists of strings for every string, through parser._split_keyvals
and through feature_from_line (the string as column 9 of a line).
"""
import copy
import itertools
import json as _stdjson
import unicodedata

import common
import gen_spec
import parser_common as pc
import pyside
from common import dec, enc

TRUSTED = ["urllib.parse.unquote (CPython) and its UTF-8 'replace' decoder are modelled in GffModel/Quote.lean and "
           "validated by the correspondence (all 1-2 byte escape sequences exhaustively, longer ones randomly)"]
LEANCHECKER_MODULES = ["GffProofs.Props.C08a", "GffProofs.Props.C08b"]

KEYS = ["ID", "Name", "Parent", "gene_id", "transcript_id", "Note", "a_b", "x.y", "k-1", "_z", "Dbxref", "Alias"]
UNI = ["é", "ß", "中", "\U0001F600", " ", "\u0085", "　", " ", " ", "​", "Ω"]
RESERVED = list(";=&,%\t\n\r") + [chr(i) for i in range(32)] + [chr(127)]


def dialects():
    out = []
    for fs, ts, rk, q, (fmt, kv) in itertools.product([";", "; ", " ; "], [False, True], [False, True],
                                                      [False, True], [("gff3", "="), ("gff3", " "), ("gtf", " ")]):
        out.append(pyside.mk_dialect(ts=ts, q=q, fs=fs, kv=kv, fmt=fmt, rk=rk, order=[]))
    return out


def is_control(c):
    return unicodedata.category(c) == "Cc"


def rand_value(r, fmt):
    n = r.choice([1, 1, 2, 3, 4, 6, 10])
    out = []
    for _ in range(n):
        x = r.random()
        if x < 0.45:
            out.append(r.choice("abcXYZ019_.:-+|/()' "))
        elif x < 0.75:
            out.append(r.choice(RESERVED + ['"', '"', "%41", "%2C", "%zz"]))
        elif x < 0.95:
            out.append(r.choice(UNI))
        else:
            out.append(chr(r.choice([r.randrange(0x80, 0x800), r.randrange(0x800, 0xD800),
                                     r.randrange(0xE000, 0x10000), r.randrange(0x10000, 0x110000)])))
    v = "".join(out)
    if fmt == "gtf":
        v = "".join(c for c in v if c not in ';",' and not is_control(c)) or "v"
    return v


def rand_mapping(r, fmt):
    n = r.choice([1, 1, 2, 3, 4])
    keys = r.sample(KEYS, n)
    return {k: [rand_value(r, fmt) for _ in range(r.choice([1, 1, 1, 2, 3]))] for k in keys}


def known_d14(d, mapping):
    """D14: supplied dialect fmt=gtf with unquoted values: a value ending in whitespace is stripped"""
    return (d["fmt"] != "gff3" and not d["quoted GFF2 values"]
            and any(v[-1:].isspace() for vals in mapping.values() for v in vals))


def oracle_roundtrip(mapping, d, cols, extra):
    """returns (why | None, printed line | None)"""
    from gffutils.feature import Feature, feature_from_line
    try:
        f = Feature(seqid=cols[0], source=cols[1], featuretype=cols[2], start=cols[3], end=cols[4], score=cols[5],
                    strand=cols[6], frame=cols[7], attributes=copy.deepcopy(mapping), extra=list(extra),
                    dialect=copy.deepcopy(d))
        line = str(f)
    except Exception as ex:
        return "printing raised %r" % ex, None
    if "\n" in line or "\r" in line:
        return "printed feature is not a single line", line
    if line.count("\t") != 8 + len(extra):
        return "printed feature has %d tab-separated columns, expected %d" % (line.count("\t") + 1, 9 + len(extra)), line
    try:
        g = feature_from_line(line, dialect=copy.deepcopy(d))
    except Exception as ex:
        return "re-parsing raised %r" % ex, line
    gcols = [g.seqid, g.source, g.featuretype, "." if g.start is None else str(g.start),
             "." if g.end is None else str(g.end), g.score, g.strand, g.frame]
    if gcols != list(cols) or list(g.extra) != list(extra):
        return "columns differ after re-parsing: %r" % (gcols + list(g.extra),), line
    if g.attributes._d != mapping:
        return "mapping differs after re-parsing: %r" % (g.attributes._d,), line
    return None, line


# attribute columns whose whole text is a JSON document: they are attribute text like any other string
JSONISH = ["1", " 1 ", "-1", "0.5", "1e5", "12", '"a"', ' "a" ', '"gene"', '""', "null", "true", "false", "[1,2]", "[]", "[ ]",
           '["a"]', '[["a"]]', "{}", "{ }", '{"ID":1}', '{"ID":"g1"}', '{"ID":["g1"]}', '{"a":null}', '{"a":[1]}',
           '{"ID":["g1"],"Name":["n"]}', "NaN", "Infinity", "-Infinity", "-0", "1.0", "[null]", '"a;b=c"', '"ID=g1"',
           '{"a":{"b":["c"]}}', "\ufeff1", '"\\u00e9"', "nul", "tru", "[1,2", '{"ID":1']
LINE_PREFIX = "chr1\tsrc\tgene\t1\t10\t.\t+\t.\t"


def stdjson_dumps(x):
    return _stdjson.dumps(x)


def lists_of_strings(a):
    """None when `a` (an Attributes) maps strings to lists of strings, else the offending item"""
    for k, v in a._d.items():
        if not isinstance(k, str) or not isinstance(v, list) or any(not isinstance(x, str) for x in v):
            return {k: v}
    return None


def totality_split(s, d):
    """the totality clause on parser._split_keyvals: why it fails | None"""
    from gffutils import parser
    try:
        a, dd = parser._split_keyvals(s, dialect=copy.deepcopy(d))
    except Exception as ex:
        return "parsing raised %r" % ex
    bad = lists_of_strings(a)
    return None if bad is None else "parser returned a value that is not a list of strings: %r" % (bad,)


def totality_line(s, d):
    """the totality clause on the public parsing path: feature_from_line of a nine-column line whose attribute column
    is `s` (s holds no tab: a tab ends the column).  why it fails | None"""
    from gffutils.feature import feature_from_line
    try:
        f = feature_from_line(LINE_PREFIX + s, dialect=copy.deepcopy(d))
        a = f.attributes
        if not hasattr(a, "_d"):
            return "feature_from_line: Feature.attributes is a %s, not an Attributes mapping" % type(a).__name__
    except Exception as ex:
        return "feature_from_line raised %r" % ex
    bad = lists_of_strings(a)
    return None if bad is None else "feature_from_line yields a value that is not a list of strings: %r" % (bad,)


def safe_impl_line(line, dialect, strict, keep):
    """pyside.impl_line, also when the parsed Feature cannot be rendered in the protocol (values that are not lists)"""
    try:
        return pyside.impl_line(line, dialect, strict, keep)
    except Exception as ex:
        return "unrenderable " + type(ex).__name__


def run(ctx):
    from gffutils import parser
    import urllib.parse
    res = common.Result("C08")
    r = ctx.rng("c08")
    res.rule = ("attribute mappings (word-like keys; 1-3 non-empty values over letters, all reserved and control "
                "characters, quotes, percent sequences, arbitrary Unicode) x 36 dialect dictionaries (separator x "
                "trailing x repeated x quoted x {gff3 '=', gff3 ' ', gtf ' '}), printed and re-parsed with the same "
                "dialect; quote/unquote on random strings and all 1-2 byte escapes; every string over the 9-letter "
                "structural alphabet up to a length bound plus random strings and strings that are JSON documents "
                "(1, \"a\", null, [1,2], {\"ID\":1} ...) through the inferring and the supplied-dialect parser and, as the "
                "attribute column of a nine-column line, through feature_from_line. non-trivial = distinct (mapping, dialect) whose values contain a reserved, "
                "control or non-ASCII character")
    res.constants_checked = pc.parser_constants(ctx, res)
    ds = dialects()
    cmds, exp, tags = [], [], []
    # the ignore_url_escape_characters switch: while it is on nothing is encoded or decoded; once it is off again the
    # escaping is back for every character (this block runs FIRST, so that the reserved characters are seen for the
    # first time while the switch is on)
    from gffutils import constants
    from gffutils.feature import Feature, feature_from_line
    allres = "".join(RESERVED)
    sw_maps = [{"ID": ["a" + allres[:20] + "b"], "Note": [allres[20:] + "z", "x;y=z,w&v%t"]},
               {"ID": ["plain"], "Note": ["a b", "c"]}]
    d0 = pyside.mk_dialect(order=[])
    try:
        constants.ignore_url_escape_characters = True
        for mp in sw_maps:
            f = Feature(seqid="c", source="s", featuretype="t", start=1, end=2, attributes=copy.deepcopy(mp), dialect=copy.deepcopy(d0))
            attr_on = str(f).split("\t", 8)[8]
            cmds.append(pyside.cmd_recon(mp, d0, ie=True)); exp.append("ok " + enc(attr_on)); tags.append(("_reconstruct (switch on)", repr(mp)))
            res.evaluations += 1
            if mp is sw_maps[1]:
                g = feature_from_line(str(f), dialect=copy.deepcopy(d0))
                if g.attributes._d != mp:
                    res.oracle_failures.append(("with ignore_url_escape_characters on, a mapping free of reserved characters "
                                                "does not survive print/parse", {"mapping": mp, "printed": str(f)}))
    finally:
        constants.ignore_url_escape_characters = False
    for mp in sw_maps:
        why, line = oracle_roundtrip(mp, d0, ["c", "s", "t", "1", "2", ".", "+", "."], [])
        res.evaluations += 1
        if why:
            res.oracle_failures.append((why + " (after ignore_url_escape_characters was switched on and off again)",
                                        {"mapping": mp, "printed": line}))
    n = 1500 if not ctx.thorough else 20000
    for i in range(n):
        fmtpick = r.choice(["gff3", "gff3", "gtf"])
        mapping = rand_mapping(r, fmtpick)
        cols = ["chr1", "src", "gene", str(r.randrange(1, 10 ** 6)), r.choice([".", "2000000"]), ".", "+", "."]
        extra = [] if r.random() < 0.7 else ["x", ""][: r.choice([1, 2])]
        for d in (ds if i < 40 else r.sample(ds, 6)):
            if d["fmt"] == "gtf" and fmtpick != "gtf":
                continue
            res.evaluations += 1
            res.count("fmt_%s_kv%s_q%d_rk%d" % (d["fmt"], "eq" if d["keyval separator"] == "=" else "sp",
                                                d["quoted GFF2 values"], d["repeated keys"]))
            why, line = oracle_roundtrip(mapping, d, cols, extra)
            if any((c in RESERVED or ord(c) > 127) for vs in mapping.values() for v in vs for c in v):
                res.nontriv((repr(mapping), pyside.enc_dialect(d)))
            if why:
                if known_d14(d, mapping):
                    res.known_hits.setdefault("D14", {"mapping": mapping, "dialect": d})
                else:
                    res.oracle_failures.append((why, {"mapping": mapping, "dialect": d, "cols": cols, "extra": extra,
                                                      "printed": line}))
            if len(res.samples) < 3 and i % 7 == 0:
                res.sample({"mapping": mapping, "dialect": pyside.enc_dialect(d), "printed": line})
            # correspondence: reconstruct and provided-dialect split
            cmds.append(pyside.cmd_recon(mapping, d)); exp.append(pyside.impl_recon(mapping, d))
            tags.append(("_reconstruct", repr((mapping, d))))
            # the remaining print settings: keep_order and sort_attribute_values (sorts the values as written)
            for keep, srt in ((False, True), (True, True), (True, False)):
                cmds.append(pyside.cmd_recon(mapping, d, keep, srt)); exp.append(pyside.impl_recon(mapping, d, keep, srt))
                tags.append(("_reconstruct(keep_order=%r, sort_attribute_values=%r)" % (keep, srt), repr((mapping, d))))
            if line is not None:
                a = line.split("\t")[8]
                cmds.append(pyside.cmd_split(a, d)); exp.append(pyside.impl_split(a, d))
                tags.append(("_split_keyvals(supplied dialect)", repr((a, d))))
                cmds.append(pyside.cmd_line(line, d, True, False)); exp.append(safe_impl_line(line, d, True, False))
                tags.append(("feature_from_line(supplied dialect)", repr((line, d))))

    # quote / unquote ------------------------------------------------------------------------------
    def q(s):
        return "".join(parser.quoter[c] for c in s)
    strs = ["", "%", "%%", "a%2", "%2", "%g0", "%0g"]
    hexd = "0123456789abcdefABCDEF"
    strs += ["%" + a + b for a in hexd for b in hexd]                                   # every 1-byte escape
    for a in ["c2", "c3", "df", "e0", "ed", "ef", "f0", "f4", "f5", "80", "bf", "c0", "c1", "e1", "F1"]:
        for b in ["80", "9f", "a0", "bf", "7f", "c0", "00", "8f", "90"]:
            strs.append("%" + a + "%" + b)
            for c in ["80", "bf", "41", "c2"]:
                strs.append("%" + a + "%" + b + "%" + c)
                strs.append("%" + a + "%" + b + "%" + c + "%80")
    for i in range(6000 if not ctx.thorough else 100000):
        strs.append(rand_value(r, "gff3") + r.choice(["", "%", "%4", "%C3%A9", "%E4%B8%AD", "%F0%9F%98%80", "%ff%fe"]))
    for s in strs:
        res.evaluations += 1
        u = urllib.parse.unquote(s)
        cmds.append("unquote " + enc(s)); exp.append(enc(u)); tags.append(("urllib.parse.unquote", s))
        qs = q(s)
        cmds.append("quote " + enc(s)); exp.append(enc(qs)); tags.append(("parser.quoter", s))
        if urllib.parse.unquote(qs) != s:
            res.oracle_failures.append(("unquote(quote(s)) != s", {"s": s, "quoted": qs}))
    # isspace / \w / line-break tables over every code point -----------------------------------------
    import re
    wpat = re.compile(r"\w")
    for lo in range(0, 0x110000, 0x1000):
        chars = "".join(chr(c) for c in range(lo, min(lo + 0x1000, 0x110000)) if not 0xD800 <= c <= 0xDFFF)
        if not chars:
            continue
        cmds.append("chars space " + enc(chars)); exp.append("".join("1" if c.isspace() else "0" for c in chars))
        tags.append(("str.isspace table", hex(lo)))
        cmds.append("chars word " + enc(chars)); exp.append("".join("1" if wpat.match(c) else "0" for c in chars))
        tags.append(("re \\w table", hex(lo)))
        cmds.append("chars linebreak " + enc(chars))
        exp.append("".join("1" if len((c + "x").splitlines()) == 2 else "0" for c in chars))
        tags.append(("str.splitlines table", hex(lo)))

    # totality: every string, inferring and supplied ---------------------------------------------------
    # judged on parser._split_keyvals AND on the public path, feature_from_line of a nine-column line with that string
    # as its attribute column (strings with a tab excepted: a tab ends the column)
    def totality(s, d, comp, model_line=True, line=True):
        res.evaluations += 1
        why = totality_split(s, d)
        if why:
            res.oracle_failures.append((why, {"attribute_column": s, "dialect": d, "via": "_split_keyvals"}))
        cmds.append(pyside.cmd_split(s, d)); exp.append(pyside.impl_split(s, d))
        tags.append((comp, repr((s, d))))
        if "\t" in s or not line:
            return
        res.evaluations += 1
        why = totality_line(s, d)
        if why:
            res.oracle_failures.append((why, {"attribute_column": s, "dialect": d, "via": "feature_from_line"}))
        if model_line:
            cmds.append(pyside.cmd_line(LINE_PREFIX + s, d, True, False))
            exp.append(safe_impl_line(LINE_PREFIX + s, d, True, False))
            tags.append(("feature_from_line (any attribute column; %s)" % comp, repr((s, d))))

    maxlen = 5 if not ctx.thorough else 6
    some_ds = [None] + r.sample(ds, 5)
    nstr = 0
    for s in gen_spec.exhaustive_strings(';=," %a1 ', maxlen):
        nstr += 1
        for d in ([None] if (len(s) > 4 and nstr % 7) else some_ds):
            totality(s, d, "_split_keyvals", model_line=(len(s) <= 3 or (d is None and nstr % 8 == 0)),
                     line=(len(s) <= 4 or nstr % 5 == 0 or ctx.thorough))
    # attribute columns that are JSON documents, alone and with blanks / a separator around them
    for s0 in JSONISH:
        for s in (s0, " " + s0, s0 + " ", s0 + ";", s0 + "\n"):
            for d in [None] + ds[::5] + r.sample(ds, 3):
                res.count("jsonlike_attribute_column")
                totality(s, d, "_split_keyvals (JSON-looking column)")
    alph = list(';=," %\t\n\rab1_ é中\x00\x1f\x85　') + ["%3B", "%C3%A9", "; ", " ; ", '""']
    for i in range(15000 if not ctx.thorough else 300000):
        if i % 10 == 3:
            s = r.choice(JSONISH) if r.random() < 0.5 else \
                stdjson_dumps(r.choice([r.randrange(-50, 1000), r.random(), [r.randrange(9)], {"ID": r.choice(["g", 1, ["g"]])},
                                        r.choice("abc"), None, True]))
            s = r.choice(["", " ", "\n"]) + s + r.choice(["", "", " ", ";", "\r\n"])
        else:
            s = "".join(r.choice(alph) for _ in range(r.randrange(0, 20)))
        d = r.choice([None, None] + ds)
        totality(s, d, "_split_keyvals", model_line=(i % 4 == 0))

    # supplied dialects whose "multival separator" is not a comma: the parser splits values on "," whatever it says
    for i in range(600 if not ctx.thorough else 10000):
        s = "".join(r.choice(alph + ["|", "a|b", ","]) for _ in range(r.randrange(0, 14)))
        d = dict(r.choice(ds))
        d["multival separator"] = r.choice(["|", "| ", ";"])
        res.evaluations += 1
        res.count("multival_separator_" + d["fmt"])
        try:
            a, dd = parser._split_keyvals(s, dialect=copy.deepcopy(d))
            if any(not isinstance(v, list) or any(not isinstance(x, str) for x in v) for v in a._d.values()):
                res.oracle_failures.append(("parser returned a value that is not a list of strings",
                                            {"attribute_column": s, "dialect": d}))
        except Exception as ex:
            res.oracle_failures.append(("parsing raised %r" % ex, {"attribute_column": s, "dialect": d}))
        cmds.append(pyside.cmd_split(s, d)); exp.append(pyside.impl_split(s, d))
        tags.append(("_split_keyvals(multival separator)", repr((s, d))))
        mp = rand_mapping(r, "gff3" if d["fmt"] == "gff3" else "gtf")
        cmds.append(pyside.cmd_recon(mp, d)); exp.append(pyside.impl_recon(mp, d))
        tags.append(("_reconstruct(multival separator)", repr((mp, d))))
    # supplied dialects with "leading semicolon" set (the remaining dialect key; parser.py L228-244)
    for i in range(1500 if not ctx.thorough else 30000):
        s = "".join(r.choice(alph) for _ in range(r.randrange(0, 14)))
        d = dict(r.choice(ds))
        d["leading semicolon"] = True
        res.evaluations += 1
        res.count("leading_semicolon_" + d["fmt"])
        try:
            a, dd = parser._split_keyvals(s, dialect=copy.deepcopy(d))
            if any(not isinstance(v, list) or any(not isinstance(x, str) for x in v) for v in a._d.values()):
                res.oracle_failures.append(("parser returned a value that is not a list of strings",
                                            {"attribute_column": s, "dialect": d}))
        except Exception as ex:
            res.oracle_failures.append(("parsing raised %r" % ex, {"attribute_column": s, "dialect": d}))
        cmds.append(pyside.cmd_split(s, d)); exp.append(pyside.impl_split(s, d))
        tags.append(("_split_keyvals(leading semicolon)", repr((s, d))))

    out = ctx.model(cmds)
    if out is not None:
        for c, m, e, (comp, inp) in zip(cmds, out, exp, tags):
            res.corr_checked += 1
            if m != e:
                res.corr_disagreements.append((comp, inp[:500], m[:600], e[:600]))
    res.assumptions = ["supplied dialect dictionaries are structurally valid (all nine keys, non-empty separators)",
                       "lone surrogates are outside the domain (they cannot be written to a UTF-8 file)"]
    return res


def replay(ctx, payload):
    res = common.Result("C08")
    i = payload.get("input", {})
    if "mapping" in i:
        why, line = oracle_roundtrip(i["mapping"], i["dialect"], i["cols"], i["extra"])
        print("replay: %r -> %r : %s" % (i["mapping"], line, why or "holds"))
        res.evaluations = 1
        if why and not known_d14(i["dialect"], i["mapping"]):
            res.oracle_failures.append((why, i))
    elif "attribute_column" in i:
        s, d = i["attribute_column"], i.get("dialect")
        res.evaluations = 1
        for via, fn in (("_split_keyvals", totality_split), ("feature_from_line", totality_line)):
            if via == "feature_from_line" and "\t" in s:
                continue
            why = fn(s, d)
            print("replay: attribute column %r, dialect %s, through %s: %s (%s)"
                  % (s, "inferred" if d is None else pyside.enc_dialect(d), via, why or "holds", common.repo_dir()))
            if why and via == i.get("via", via):
                res.oracle_failures.append((why, dict(i, via=via)))
    return res
