"""C04 - primary keys follow id_spec, are unique, and look-ups are exact.

correspondence: create_db with every id_spec form vs the Lean model (Create.idHandler / fileFeature), end to end.
oracle (real code only): the key of every line recomputed from the property text; uniqueness; db[key], db[feature],
FeatureNotFoundError; multi-valued id attributes rejected.
"""
import os

import common
import dbside
import gen_db
from common import enc, dec

TRUSTED = ["sqlite PRIMARY KEY(id) uniqueness (modelled as Db.insert's IntegrityError)"]
LEANCHECKER_MODULES = ["GffProofs.Props.C04"]

FIELDS = ["seqid", "source", "featuretype", "strand", "frame", "score", "start", "end"]


def rand_features(r, n):
    """list of dict(cols..., attrs=[(k,[v..])])"""
    out = []
    for i in range(n):
        attrs = []
        x = r.random()
        if x < 0.6:
            attrs.append(("ID", ["id%d" % r.randrange(0, n + 2)]))
        elif x < 0.7:
            attrs.append(("ID", ["a%d" % i, "b%d" % i]))          # multi-valued id attribute
        elif x < 0.75:
            attrs.append(("ID", ["d%d" % i, "d%d" % i]))          # ... also when the values are equal
        if r.random() < 0.5:
            attrs.append(("Name", ["nm%d" % r.randrange(0, 4)] * 1))
        if r.random() < 0.15:
            attrs.append(("Alias", ["al%d" % i, "al%d_2" % i]))
        if r.random() < 0.3:
            attrs.append(("gene_id", ["g%d" % r.randrange(0, 3)]))
        if r.random() < 0.2:
            attrs.append(("flag", []))
        r.shuffle(attrs)
        attrs.sort(key=lambda kv: not kv[1])        # a valueless flag first would switch the line to the 'key value' style
        if attrs and not attrs[0][1]:
            attrs = []                              # ... and so would a line whose only attribute is the flag
        # (an EMPTY source column now and then: with ':source:' the key is the empty string, not '.')
        out.append({"seqid": r.choice(["chr1", "chr2"]), "source": r.choice(["s1", "s2", "s1", "s2", "s1", "s2", "s1", "", "."]),
                    "ftype": r.choice(["gene", "mRNA", "exon"]), "start": r.randrange(1, 1000),
                    "end": r.randrange(1000, 2000), "strand": r.choice("+-"), "attrs": attrs})
    return out


def lines_of(feats):
    """an attribute named in the feature's "rep" list is written by REPEATING THE KEY once per value (ID=a;ID=b) -
    the other legal GFF3 notation of several values - instead of the comma form (ID=a,b)"""
    out = []
    for f in feats:
        parts = []
        for k, v in f["attrs"]:
            if k in f.get("rep", ()) and len(v) > 1:
                parts += ["%s=%s" % (k, x) for x in v]
            else:
                parts.append("%s=%s" % (k, ",".join(v)) if v else k)
        out.append("\t".join([f["seqid"], f["source"], f["ftype"], str(f["start"]), str(f["end"]), ".", f["strand"], ".",
                              ";".join(parts)]))
    return out


def rand_features_rep(r, n):
    """files for the repeated-key notation: few comma-form multi-valued IDs, and (mostly) one feature whose id
    attribute - ID, sometimes Name as well - is defined twice by repeating the key, anywhere in the file (inside or
    beyond the dialect-inspection window, which the caller makes small)"""
    feats = rand_features(r, n)
    for i, f in enumerate(feats):
        f["rep"] = []
        attrs = []
        for k, v in f["attrs"]:
            if k == "ID" and len(v) > 1 and r.random() < 0.7:
                v = v[:1]
            if len(v) > 1 and r.random() < 0.6:
                f["rep"].append(k)
            attrs.append((k, v))
        f["attrs"] = attrs
    x = r.random()
    picks = [("ID", ["gX", "gY"])] if x < 0.5 else [("Name", ["nmX", "nmY"])] if x < 0.75 else \
        [("ID", ["gX", "gX"])] if x < 0.85 else []
    for k, v in picks:
        f = feats[r.randrange(len(feats))] if r.random() < 0.6 else feats[-1]
        if f["attrs"] and not f["attrs"][0][1]:
            continue
        f["attrs"] = [(kk, vv) for kk, vv in f["attrs"] if kk != k]
        f["attrs"].insert(r.randrange(len(f["attrs"]) + 1) if f["attrs"] and f["attrs"][0][1] else 0, (k, v))
        f["attrs"].sort(key=lambda kv: not kv[1])
        f["rep"] = list(f.get("rep", [])) + [k]
    return feats


def rand_idspec(r):
    k = r.randrange(10)
    A = lambda name: ("a", name)
    C = lambda name: ("c", name)
    if k == 0:
        return dbside.IdSpec()
    if k == 1:
        return dbside.IdSpec("L", [A(r.choice(["ID", "Name", "gene_id", "missing"]))], form="str")
    if k == 2:
        return dbside.IdSpec("L", [A(x) for x in r.sample(["ID", "Name", "gene_id", "Alias", "missing", "flag"], r.randrange(1, 4))])
    if k == 3:
        return dbside.IdSpec("L", [A(":%s:" % r.choice(FIELDS))], form="str")
    if k == 4:
        return dbside.IdSpec("L", [C(r.choice(list(dbside.CALLZOO)))], form="callable")
    if k == 5:
        return dbside.IdSpec("L", [C(r.choice(["none", "empty", "name"])), A(r.choice(["ID", "Name"]))])
    if k == 6:
        t = {}
        for ft in r.sample(["gene", "mRNA", "exon"], r.randrange(1, 4)):
            t[ft] = [A(r.choice(["ID", "Name", "gene_id"]))] if r.random() < 0.6 else \
                [A(x) for x in r.sample(["ID", "Name", "gene_id", "missing"], 2)]
        return dbside.IdSpec("D", table=t)
    if k == 7:
        return dbside.IdSpec("L", [A("missing"), C("auto")])
    if k == 8:
        # a listed attribute that is present WITHOUT a value (a flag) is not usable: the next one decides
        return dbside.IdSpec("L", [A("flag"), A(r.choice(["ID", "Name"]))])
    return dbside.IdSpec("L", [A("Name"), A("ID")])


def ref_keys(feats, spec, strategy):
    """the keys the property prescribes, in input order; 'REJECT' when a multi-valued id attribute is met.
    returns (keys or None, rejected: bool). create_unique renames a colliding key k to k_1, k_2, ...
    (C05's rule; needed here only to know the final keys)."""
    counters = {}

    def incr(base):
        counters[base] = counters.get(base, 0) + 1
        return "%s_%d" % (base, counters[base])

    def attr(f, k):
        for kk, v in f["attrs"]:
            if kk == k:
                return v
        return None

    used = set()
    keys = []
    for f in feats:
        if spec.kind == "default":
            ks = [("a", "ID")]
        elif spec.kind == "L":
            ks = spec.keys
        else:
            ks = spec.table.get(f["ftype"])
        key = None
        if ks is not None:
            for t, k in ks:
                if t == "c":
                    class F:  # what the zoo needs
                        pass
                    v = {"none": None, "empty": "", "const": "fixed", "name": (attr(f, "Name") or [None])[0],
                         "auto": "autoincrement:" + f["ftype"] + "x", "autochr": "autoincrement:" + f["seqid"],
                         "autocolon": "autoincrement:%s:%s" % (f["seqid"], f["ftype"]),
                         "pos": "%s_%s" % (f["seqid"], f["start"])}[k]
                    if v:
                        key = incr(v[14:]) if v.startswith("autoincrement:") else v
                        break
                else:
                    if len(k) > 3 and k[0] == ":" and k[-1] == ":":
                        key = str({"seqid": f["seqid"], "source": f["source"], "featuretype": f["ftype"],
                                   "strand": f["strand"], "frame": ".", "score": ".", "start": f["start"],
                                   "end": f["end"]}[k[1:-1]])
                        break
                    v = attr(f, k)
                    if v is not None and len(v) > 1:
                        return None, True
                    if v:
                        key = v[0]
                        break
        if key is None:
            key = incr(f["ftype"])
        if key in used:
            if strategy == "create_unique":
                key = incr(key)
                if key in used:
                    return None, False      # the renamed key is taken as well: the import aborts (stated in C05)
            else:
                return None, False
        used.add(key)
        keys.append(key)
    return keys, False


def mk_case(scenario, lines, feats, cfg, **kw):
    """a self-contained case: the lines, the generator's record of every line, the configuration (id_spec, strategy)"""
    return dict({"scenario": scenario, "input": list(lines), "records": list(feats), "parallel": ["records"],
                 "config": cfg.to_json()}, **kw)


def attrs_of(f):
    return [(k, list(v)) for k, v in f["attrs"]]


def check_keys(case, feats, spec, db, rep, res):
    """the stored keys against id_spec.  returns the keys when they are as prescribed (the look-ups can be judged),
    else None"""
    want, rejected = ref_keys(feats, spec, "create_unique")
    if rejected:
        res.count("multi_valued_rejected")
        if db is not None or rep != "err ValueError":
            common.fail(res, case, "multi_valued_id_not_rejected",
                        "an id attribute with several values was not rejected with ValueError",
                        observed=rep, expected="err ValueError")
        return None
    if want is None:
        res.count("create_unique_name_taken")
        return None
    if db is None:
        common.fail(res, case, "create_db_raised",
                    "create_db raised although every line has a well-defined key: " + rep,
                    error=rep, observed=rep, expected="ok")
        return None
    got = [str(x["id"]) for x in dbside.rows_of(db)]
    if got != want:
        common.fail(res, case, "keys_not_id_spec", "keys do not follow id_spec", observed=got, expected=want)
        return None
    return got


def check_lookups(case, feats, lines, db, got, res):
    import gffutils
    if len(set(got)) != len(got):
        common.fail(res, case, "keys_not_unique", "keys are not unique", observed=got)
    for k, f, line in zip(got, feats, lines):
        try:
            g = db[k]
            cols = [g.seqid, g.source, g.featuretype, str(g.start), str(g.end), g.strand]
            wantc = [f["seqid"], f["source"], f["ftype"], str(f["start"]), str(f["end"]), f["strand"]]
            if g.id != k or cols != wantc or [(a, list(b)) for a, b in g.attributes._d.items()] != attrs_of(f):
                common.fail(res, case, "lookup_wrong", "db[key] is not the feature stored under that key",
                            key=k, observed=str(g), expected=line)
            if db[g].id != k:
                common.fail(res, case, "lookup_by_feature_wrong", "db[feature] does not use feature.id", key=k)
        except Exception as ex:
            common.fail(res, case, "lookup_raised",
                        "db[%r] raised %r" % (k, ex), error=dbside.err_name(ex), key=k, observed=repr(ex))
    for absent in ["__absent__", got[0] + "_zz", ""]:
        if absent in got:
            continue
        try:
            db[absent]
            common.fail(res, case, "absent_key_found", "an absent key did not raise FeatureNotFoundError", key=absent)
        except gffutils.FeatureNotFoundError:
            pass
        except Exception as ex:
            common.fail(res, case, "absent_key_wrong_exception",
                        "an absent key raised %r instead of FeatureNotFoundError" % ex,
                        key=absent, observed=repr(ex))


def check_foreign_features(case, db, got, feats, res):
    """look-ups by Feature OBJECT in another database: db2 is built from a reversed subset of db's features; db2[f] for a
    feature object f that came from db is the feature stored in db2 under f.id - found when it is there (whatever its
    position in either database), FeatureNotFoundError when it is not"""
    import gffutils
    import warnings
    # the features whose key is their (single) ID attribute: re-importing them under the default id_spec keeps their keys
    objs = [o for o in db.all_features() if list(o.attributes._d.get("ID", [])) == [o.id]]
    if len(objs) < 3:
        return
    sub = list(reversed(objs))[::2]
    try:
        with warnings.catch_warnings():
            warnings.simplefilter("ignore")
            db2 = gffutils.create_db(sub, ":memory:", verbose=False)
    except Exception as ex:
        common.fail(res, case, "create_db_raised", "create_db from Feature objects of another database raised %r" % ex,
                    error=dbside.err_name(ex))
        return
    inside = {f.id for f in sub}
    res.count("lookup_by_feature_object_of_another_database")
    for f in objs:
        try:
            g = db2[f]
            if f.id not in inside:
                common.fail(res, case, "absent_key_found",
                            "db2[feature] returned a feature although no feature is stored under feature.id in db2",
                            key=f.id, observed=str(g))
                return
            if g.id != f.id or str(g) != str(f):
                common.fail(res, case, "lookup_by_feature_wrong", "db2[feature] is not the feature stored under feature.id",
                            key=f.id, observed=str(g), expected=str(f))
                return
        except gffutils.FeatureNotFoundError:
            if f.id in inside:
                common.fail(res, case, "lookup_raised", "db2[feature] raised FeatureNotFoundError for a stored key", key=f.id)
                return


def check_delete(case, db, got, res):
    """look-ups stay exact after deletions on the same FeatureDB object: the victims are looked up, deleted (by id or
    as Feature objects), and every key is looked up again"""
    import gffutils
    victims = [v for v in case["victims"] if v in got]
    if not victims:
        return
    held = {v: db[v] for v in victims}         # looked up before the deletion; the objects are kept
    if case["delete_by"] == "features":
        db.delete([db[v] for v in victims], make_backup=False)
    else:
        db.delete(list(victims), make_backup=False)
    for k in got:
        try:
            g = db[k]
            if k in victims:
                common.fail(res, case, "deleted_feature_returned",
                            "db[key] returned a feature that was deleted (FeatureNotFoundError "
                            "expected)", key=k, deleted=victims, observed=str(g), expected="FeatureNotFoundError")
            elif g.id != k:
                common.fail(res, case, "lookup_wrong_after_delete",
                            "db[key] wrong after a deletion", key=k, deleted=victims)
        except gffutils.FeatureNotFoundError:
            if k not in victims:
                common.fail(res, case, "lookup_lost_after_delete",
                            "db[key] lost a feature that was not deleted", key=k, deleted=victims)
    # db[feature] is a look-up by the feature's key like any other: a Feature object fetched before its row was
    # deleted must not be handed back
    for v, obj in held.items():
        try:
            g = db[obj]
            common.fail(res, case, "deleted_feature_returned",
                        "db[feature] returned a feature that was deleted (FeatureNotFoundError expected)",
                        key=v, deleted=victims, observed=str(g), expected="FeatureNotFoundError", by="Feature object")
        except gffutils.FeatureNotFoundError:
            pass


def check_rewrite(case, db, got, res):
    """look-ups stay exact after a stored feature is REWRITTEN IN PLACE on the same FeatureDB object: the key is looked up,
    the feature rewritten through add_relation(..., child_func=/parent_func=) (which stores what the function returns),
    and the key looked up again - db[key] must be the row now stored, as a direct read of the table shows it"""
    p, c = case["rewrite_parent"], case["rewrite_child"]
    if p not in got or c not in got or p == c:
        return
    before = {k: db[k] for k in (p, c)}                 # looked up before the rewrite

    def child_func(parent, child):
        child.attributes["Parent"] = [parent.id]
        child.attributes["rewritten"] = ["yes"]
        return child

    def parent_func(parent, child):
        parent.attributes["touched"] = ["1", "2"]
        parent.source = "edited"
        return parent

    kw = {"child": {"child_func": child_func}, "parent": {"parent_func": parent_func},
          "both": {"child_func": child_func, "parent_func": parent_func}}[case["rewrite_with"]]
    try:
        db.add_relation(p if case["rewrite_args"] == "ids" else before[p], c if case["rewrite_args"] == "ids" else before[c],
                        level=1, **kw)
    except Exception as ex:
        # (parent, child, 1) may exist already: sqlite rejects the duplicate relation; nothing was rewritten
        if dbside.err_name(ex) == "IntegrityError":
            res.count("rewrite_relation_existed")
            db.conn.rollback()
            return
        common.fail(res, case, "add_relation_raised", "add_relation raised %r" % ex, error=dbside.err_name(ex))
        return
    rows = {str(x["id"]): x for x in dbside.rows_of(db)}
    for k in (p, c):
        g = db[k]
        row = rows[k]
        if {a: list(b) for a, b in g.attributes._d.items()} != {a: list(b) for a, b in row["attributes"].items()} \
                or g.source != row["source"]:
            common.fail(res, case, "lookup_stale_after_rewrite",
                        "db[key] is not the feature stored under the key after the row was rewritten in place "
                        "(add_relation with child_func / parent_func)", key=k,
                        observed={"source": g.source, "attributes": {a: list(b) for a, b in g.attributes._d.items()}},
                        expected={"source": row["source"], "attributes": row["attributes"]})


GTF_DEFAULT = [gen_db.gtf_line("chr1", "gene", 1, 100, "+", [("gene_id", ["G"])]),
               gen_db.gtf_line("chr1", "transcript", 1, 100, "+", [("gene_id", ["G"]), ("transcript_id", ["T"])]),
               gen_db.gtf_line("chr1", "exon", 1, 50, "+", [("gene_id", ["G"]), ("transcript_id", ["T"])]),
               gen_db.gtf_line("chr1", "exon", 60, 100, "+", [("gene_id", ["G"]), ("transcript_id", ["T"])])]


def check_gtf_default(ctx, case, res):
    """default id_spec by format: GTF default is the dict {gene: gene_id, transcript: transcript_id}"""
    path = dbside.write_lines(os.path.join(ctx.scratch, "c04.gtf"), case["input"])
    db, rep = dbside.py_create(path, dbside.Cfg.from_json(case["config"]))
    got = [str(x["id"]) for x in dbside.rows_of(db)] if db else rep
    if got != case["expected_keys"]:
        common.fail(res, case, "gtf_default_keys",
                    "default GTF id_spec: keys are not gene_id / transcript_id / <featuretype>_<n>",
                    observed=got, expected=case["expected_keys"])


# ---- the default id_spec is that of the DATABASE'S FORMAT (importer), not of the notation of the data ----------------
GFF_DEFAULT_SPEC = dbside.IdSpec("L", [("a", "ID")], form="str")
GTF_DEFAULT_SPEC = dbside.IdSpec("D", table={"gene": [("a", "gene_id")], "transcript": [("a", "transcript_id")]})
BASE_GFF3 = [gen_db.gff_line("chrB", "region", 1, 10, "+", [("ID", ["base1"])]),
             gen_db.gff_line("chrB", "region", 20, 30, "+", [("ID", ["base2"])])]
BASE_GTF = [gen_db.gtf_line("chrB", "gene", 1, 100, "+", [("gene_id", ["G0"])]),
            gen_db.gtf_line("chrB", "transcript", 1, 100, "+", [("gene_id", ["G0"]), ("transcript_id", ["T0"])])]


def rand_features_ids(r, n):
    """records whose lines carry ID, gene_id, transcript_id and Name in every combination (single values), of the
    featuretypes both default id_specs distinguish"""
    out = []
    for i in range(n):
        ft = r.choice(["gene", "transcript", "exon", "CDS"])
        attrs = []
        if r.random() < 0.75:
            attrs.append(("gene_id", ["g%d" % r.randrange(0, 3)]))
        if r.random() < 0.7:
            attrs.append(("transcript_id", ["t%d" % r.randrange(0, 4)]))
        if r.random() < 0.65:
            attrs.append(("ID", ["i%d" % r.randrange(0, n + 2)]))
        if r.random() < 0.3:
            attrs.append(("Name", ["nm%d" % r.randrange(0, 3)]))
        r.shuffle(attrs)
        if not attrs:
            attrs = [("note", ["x%d" % i])]
        out.append({"seqid": r.choice(["chr1", "chr2"]), "source": "src", "ftype": ft, "start": r.randrange(1, 1000),
                    "end": r.randrange(1000, 2000), "strand": r.choice("+-"), "attrs": attrs})
    return out


def lines_in(notation, feats):
    if notation == "gtf":
        return [gen_db.gtf_line(f["seqid"], f["ftype"], f["start"], f["end"], f["strand"], f["attrs"]) for f in feats]
    return [gen_db.gff_line(f["seqid"], f["ftype"], f["start"], f["end"], f["strand"], f["attrs"]) for f in feats]


def check_defaults(ctx, case, res, cmds=None, exp=None, tags=None):
    """scenario 'force_gff_default': GTF-notation lines imported with force_gff=True and no id_spec are keyed by the GFF
    default ('ID'); scenario 'update_default': an update() without id_spec files the new features under the default
    id_spec of the database's format whatever notation the update data is written in (a GTF file, or Features parsed
    from GFF3 lines, added to a database of the other format)"""
    import warnings
    from gffutils.feature import feature_from_line
    lines, feats = case["input"], case["records"]
    if len(lines) != len(feats) or not lines:
        return
    cfg = dbside.Cfg.from_json(case["config"])
    want_spec = GFF_DEFAULT_SPEC if case["db_format"] == "gff3" else GTF_DEFAULT_SPEC
    want, rejected = ref_keys(feats, want_spec, "create_unique")
    inp = {"scenario": case["scenario"], "lines": lines, "db_format": case["db_format"], "base": case.get("base"),
           "form": case.get("form"), "config": cfg.describe()}
    if case["scenario"] == "force_gff_default":
        path = dbside.write_lines(os.path.join(ctx.scratch, "c04d.gtf"), lines)
        db, rep = dbside.py_create(path, cfg)
        nbase = 0
        if cmds is not None:
            cmds.append(dbside.cmd_create(lines, cfg)); exp.append(rep); tags.append(("create_db force_gff", repr(inp)))
    else:
        bcfg = dbside.Cfg.from_json(case["base_config"])
        bpath = dbside.write_lines(os.path.join(ctx.scratch, "c04b.txt"), case["base"])
        db, rep = dbside.py_create(bpath, bcfg)
        nbase = len(case["base"])
        if cmds is not None:
            cmds.append(dbside.cmd_create(case["base"], bcfg)); exp.append(rep); tags.append(("create_db base", repr(inp)))
        if db is None:
            common.fail(res, case, "create_db_raised", "create_db raised on the base file: " + rep, error=rep)
            return
        upath = dbside.write_lines(os.path.join(ctx.scratch, "c04u.txt"), lines)
        try:
            with warnings.catch_warnings():
                warnings.simplefilter("ignore")
                if case.get("form") == "features":
                    db.update([feature_from_line(l) for l in lines], make_backup=False, **cfg.update_kwargs())
                else:
                    db.update(upath, make_backup=False, **cfg.update_kwargs())
            rep = "ok"
        except Exception as ex:
            rep = "err " + dbside.err_name(ex)
            db = None
        if cmds is not None:
            cmds.append(dbside.cmd_update(lines, cfg)); exp.append(rep); tags.append(("update other notation", repr(inp)))
    if want is None:
        res.count("defaults_create_unique_name_taken")
        return
    if db is None:
        common.fail(res, case, "create_db_raised", "the import raised although every line has a well-defined key: " + rep,
                    error=rep, observed=rep, expected="ok")
        return
    got = [str(x["id"]) for x in dbside.rows_of(db)][nbase:]
    if cmds is not None:
        cmds.append("dump"); exp.append(dbside.dump(db)); tags.append(("tables after " + case["scenario"], repr(inp)))
    if got != want:
        common.fail(res, case, "default_idspec_not_by_format",
                    "with id_spec=None the keys do not follow the default id_spec of the database's format (%s)"
                    % case["db_format"], observed=got, expected=want)
        return
    for k in got[:3]:
        try:
            if db[k].id != k:
                common.fail(res, case, "lookup_wrong", "db[key] is not the feature stored under that key", key=k)
        except Exception as ex:
            common.fail(res, case, "lookup_raised", "db[%r] raised %r" % (k, ex), error=dbside.err_name(ex), key=k)


def gen_defaults(r, i):
    feats = rand_features_ids(r, r.randrange(1, 9))
    k = i % 3
    if k == 0:
        cfg = dbside.Cfg(strategy="create_unique", force_gff=True)
        return mk_case("force_gff_default", lines_in("gtf", feats), feats, cfg, db_format="gff3")
    cfg = dbside.Cfg(strategy="create_unique", disG=True, disT=True)
    if k == 1:      # GTF-notation data into a GFF3 database
        return mk_case("update_default", lines_in("gtf", feats), feats, cfg, db_format="gff3", base=BASE_GFF3,
                       base_config=dbside.Cfg().to_json(), form=r.choice(["path", "features"]))
    return mk_case("update_default", lines_in("gff3", feats), feats, cfg, db_format="gtf", base=BASE_GTF,
                   base_config=dbside.Cfg(disG=True, disT=True).to_json(), form=r.choice(["path", "features"]))


# ---- GTF import with inference: the keys handed to INFERRED genes / transcripts come from the same counters ---------------
GTF_COUNTER_SPECS = [dbside.IdSpec("D", table={"gene": [("a", "gene_id")]}),
                     dbside.IdSpec("D", table={"transcript": [("a", "transcript_id")]}),
                     dbside.IdSpec("L", [("c", "none")], form="callable"),
                     dbside.IdSpec("D", table={"exon": [("a", "missing")]})]
GTF_SECOND = [gen_db.gtf_line("chr9", "transcript", 5000, 5400, "+", [("gene_id", ["gNEW"]), ("transcript_id", ["tNEW"])]),
              gen_db.gtf_line("chr9", "exon", 5000, 5400, "+", [("gene_id", ["gNEW"]), ("transcript_id", ["tNEW"])])]


def numbered(ids):
    """{base: sorted numbers} of the keys shaped '<featuretype>_<n>' for the featuretypes the importer numbers"""
    out = {}
    for k in ids:
        b, _, n = k.rpartition("_")
        if b in ("gene", "transcript", "exon", "CDS", "start_codon", "UTR") and n.isdigit():
            out.setdefault(b, []).append(int(n))
    return {b: sorted(v) for b, v in out.items()}


def check_gtf_counters(ctx, case, res, cmds=None, exp=None, tags=None):
    """scenario 'gtf_counters': a GTF file imported with gene / transcript inference under an id_spec that leaves
    some featuretype - also an INFERRED one - to '<featuretype>_<n>'.  The numbers handed out are 1..k per featuretype,
    the stored counters say k, and after reopening the file an update() that needs more such keys continues with k+1
    (keys stay unique, nothing raises)"""
    import gffutils
    import warnings
    lines = case["input"]
    cfg = dbside.Cfg.from_json(case["config"])
    path = dbside.write_lines(os.path.join(ctx.scratch, "c04c.gtf"), lines)
    dbfn = os.path.join(ctx.scratch, "c04c-%d.db" % case.get("serial", 0))
    db, rep = dbside.py_create(path, cfg, dbfn=dbfn)
    inp = {"scenario": "gtf_counters", "lines": lines, "config": cfg.describe()}
    if cmds is not None:
        cmds.append(dbside.cmd_create(lines, cfg)); exp.append(rep); tags.append(("create_db GTF counters", repr(inp)))
    if db is None:
        common.fail(res, case, "create_db_raised", "create_db raised on a GTF file whose keys are well defined: " + rep,
                    error=rep, observed=rep, expected="ok")
        return
    ids = [str(x["id"]) for x in dbside.rows_of(db)]
    if cmds is not None:
        cmds.append("dump"); exp.append("COUNTERS " + dbside.dump(db)); tags.append(("counters after GTF import", repr(inp)))
    nums = numbered(ids)
    want = {b: len(v) for b, v in nums.items()}
    if len(set(ids)) != len(ids) or any(v != list(range(1, len(v) + 1)) for v in nums.values()):
        common.fail(res, case, "numbering_not_1_to_k", "the '<featuretype>_<n>' keys are not numbered 1..k per featuretype",
                    observed=nums)
        return
    stored = {k: v for k, v in dbside.pauto_of(db).items() if k in want or v}
    if stored != want:
        common.fail(res, case, "stored_counters_behind_keys",
                    "the id counters stored in the database are not the numbers of the '<featuretype>_<n>' keys handed out "
                    "(a later import would hand a key out again)", observed=stored, expected=want)
        return
    del db
    db2 = gffutils.FeatureDB(dbfn)
    upath = dbside.write_lines(os.path.join(ctx.scratch, "c04c2.gtf"), GTF_SECOND)
    try:
        with warnings.catch_warnings():
            warnings.simplefilter("ignore")
            db2.update(upath, make_backup=False, **cfg.update_kwargs())
        rep2 = "ok"
    except Exception as ex:
        rep2 = "err " + dbside.err_name(ex)
    if cmds is not None:
        cmds.append("reopen"); exp.append("ok"); tags.append(("reopen", repr(inp)))
        cmds.append(dbside.cmd_update(GTF_SECOND, cfg)); exp.append(rep2); tags.append(("update after reopen (GTF counters)", repr(inp)))
    if rep2 != "ok":
        common.fail(res, case, "update_after_reopen_raised",
                    "after reopening, an update whose features need further '<featuretype>_<n>' keys raised " + rep2,
                    error=rep2, observed=rep2, expected="ok")
        return
    ids2 = [str(x["id"]) for x in dbside.rows_of(db2)]
    nums2 = numbered(ids2)
    if len(set(ids2)) != len(ids2) or any(v != list(range(1, len(v) + 1)) for v in nums2.values()):
        common.fail(res, case, "numbering_not_continued", "after reopen + update the '<featuretype>_<n>' keys are not 1..k",
                    observed=nums2)
    if cmds is not None:
        cmds.append("dump"); exp.append("COUNTERS " + dbside.dump(db2)); tags.append(("counters after reopen + update", repr(inp)))


def judge(ctx, case):
    res = common.Result("C04")
    if case["scenario"] == "gtf_default_idspec":
        check_gtf_default(ctx, case, res)
        return res
    if case["scenario"] == "gtf_counters":
        check_gtf_counters(ctx, case, res)
        return res
    if case["scenario"] in ("force_gff_default", "update_default"):
        check_defaults(ctx, case, res)
        return res
    lines, feats = case["input"], case["records"]
    if len(lines) != len(feats):
        return res
    cfg = dbside.Cfg.from_json(case["config"])
    path = dbside.write_lines(os.path.join(ctx.scratch, "c04.gff3"), lines)
    db, rep = dbside.py_create(path, cfg, checklines=case.get("checklines", 10), supplied=case.get("supplied"))
    got = check_keys(case, feats, cfg.idspec, db, rep, res)
    if got is None:
        return res
    if case["scenario"] == "import":
        check_lookups(case, feats, lines, db, got, res)
    elif case["scenario"] == "delete_lookup":
        check_delete(case, db, got, res)
    elif case["scenario"] == "rewrite_lookup":
        check_rewrite(case, db, got, res)
    elif case["scenario"] == "foreign_features":
        check_foreign_features(case, db, got, feats, res)
    return res


def run(ctx):
    import gffutils
    res = common.Result("C04")
    r = ctx.rng("c04")
    res.rule = ("GFF3 inputs of 1-12 lines whose features have, lack, share or multiply define ID/Name/gene_id/Alias; every "
                "id_spec form (default, string, list, ':field:', callable zoo incl. None/''/'autoincrement:X', dict of "
                "string or list with missing featuretypes); merge_strategy create_unique so that all lines are kept; files "
                "of 1-16 lines where ID / Name are defined twice by REPEATING THE KEY (ID=a;ID=b), inside and beyond the "
                "inspection window (checklines 0-10) or with a supplied dialect; id_spec=None on GTF-notation input imported with "
                "force_gff=True, and on update() data written in the other notation than the database's (GTF file or "
                "GFF3-parsed Features): the default follows the database's format. "
                "non-trivial = distinct (input, id_spec) where at least one key is not the plain ID attribute")
    cmds, exp, tags = [], [], []
    n = 250 if not ctx.thorough else 4000
    nrep = 200 if not ctx.thorough else 2500
    rr = ctx.rng("c04", "repeated-key notation")
    import pyside
    for i in range(n + nrep):
        cl, supplied, rv = 10, None, r
        if i < n:
            feats = rand_features(r, r.randrange(1, 13))
            spec = rand_idspec(r)
            zoo = sorted(dbside.CALLZOO)
            if i < 2 * len(zoo):
                # every callable of the zoo is used in every run (among them 'autoincrement:<seqid>:<featuretype>', whose
                # base contains a colon), alone and behind an attribute that is sometimes missing
                C_ = ("c", zoo[i % len(zoo)])
                spec = dbside.IdSpec("L", [C_], form="callable") if i < len(zoo) else dbside.IdSpec("L", [("a", "missing"), C_])
        else:
            # the id attribute defined twice by repeating the key (ID=a;ID=b, Name=x;Name=y), inside and beyond the
            # dialect-inspection window (checklines + 1 features): small windows, files longer than the window; sometimes
            # the dialect is supplied (no window at all)
            rv = rr
            feats = rand_features_rep(rr, rr.randrange(1, 17))
            A = lambda name: ("a", name)
            spec = rr.choice([dbside.IdSpec(), dbside.IdSpec("L", [A("ID")], form="str"),
                              dbside.IdSpec("L", [A("Name"), A("ID")]), dbside.IdSpec("L", [A("Name")], form="str"),
                              dbside.IdSpec("D", table={"gene": [A("ID")], "mRNA": [A("Name"), A("ID")], "exon": [A("ID")]}),
                              rand_idspec(rr), rand_idspec(rr)])
            cl = rr.choice([0, 1, 2, 3, 5, 10])
            if rr.random() < 0.15:
                supplied = pyside.mk_dialect(order=["ID", "Name"])
        cfg = dbside.Cfg(idspec=spec, strategy="create_unique")
        lines = lines_of(feats)
        path = dbside.write_lines(os.path.join(ctx.scratch, "c04.gff3"), lines)
        db, rep = dbside.py_create(path, cfg, checklines=cl, supplied=supplied)
        res.evaluations += 1
        res.count("spec_" + spec.kind + "_" + (spec.form if spec.kind == "L" else ""))
        inp = {"lines": lines, "id_spec": spec.describe(), "merge_strategy": "create_unique"}
        case = mk_case("import", lines, feats, cfg)
        if i >= n:
            inp.update(checklines=cl, dialect=supplied)
            case.update(checklines=cl, supplied=supplied)
            for j, f in enumerate(feats):
                for k in f.get("rep", ()):
                    res.count("key_repeated_%s_%s" % (k, "supplied_dialect" if supplied else
                                                      "inside_window" if j <= cl else "beyond_window"))
            if db is not None:
                res.count("repeat_files_dialect_repeated_keys_%s" % db.dialect["repeated keys"])
        cmds.append(dbside.cmd_create(lines, cfg, checklines=cl, supplied=supplied)); exp.append(rep)
        tags.append(("create_db", repr(inp)))
        got = check_keys(case, feats, spec, db, rep, res)
        if got is None:
            continue
        if any(k != (dict(f["attrs"]).get("ID") or [None])[0] for k, f in zip(got, feats)):
            res.nontriv((tuple(lines), spec.describe()))
        check_lookups(case, feats, lines, db, got, res)
        if i % 4 == 0:
            check_foreign_features(mk_case("foreign_features", lines, feats, cfg), db, got, feats, res)
        cmds.append("dump"); exp.append(dbside.dump(db)); tags.append(("tables after import", repr(inp)))
        cmds.append("get " + enc(got[-1])); exp.append("IDONLY " + got[-1]); tags.append(("__getitem__", repr(inp)))
        cmds.append("get " + enc("__absent__")); exp.append("err FeatureNotFoundError")
        tags.append(("__getitem__ absent", repr(inp)))
        # look-ups stay exact after deletions on the same FeatureDB object (by id and by Feature object)
        if len(got) >= 2 and i % 2 == 1:
            pc = rv.sample(got, 2)
            wcase = mk_case("rewrite_lookup", lines, feats, cfg, rewrite_parent=pc[0], rewrite_child=pc[1],
                            rewrite_with=rv.choice(["child", "parent", "both"]), rewrite_args=rv.choice(["ids", "features"]))
            if i >= n:
                wcase.update(checklines=cl, supplied=supplied)
            res.count("rewrite_lookup_" + wcase["rewrite_with"])
            check_rewrite(wcase, db, got, res)
        if len(got) >= 2 and i % 2 == 0:
            victims = rv.sample(got, rv.randrange(1, min(3, len(got)) + 0))
            by = "features" if rv.random() < 0.5 else "ids"
            dcase = mk_case("delete_lookup", lines, feats, cfg, victims=victims, delete_by=by)
            if i >= n:
                dcase.update(checklines=cl, supplied=supplied)
            check_delete(dcase, db, got, res)
            cmds.append("delete " + dbside.enc_list(victims)); exp.append("ok"); tags.append(("delete", repr(inp)))
            cmds.append("get " + enc(victims[0])); exp.append("err FeatureNotFoundError"); tags.append(("__getitem__ after delete", repr(inp)))
        if len(res.samples) < 3:
            res.sample(dict(inp, keys=got))
    check_gtf_default(ctx, {"scenario": "gtf_default_idspec", "input": GTF_DEFAULT, "no_shrink": True,
                            "config": dbside.Cfg(disG=True, disT=True).to_json(),
                            "expected_keys": ["G", "T", "exon_1", "exon_2"]}, res)
    res.evaluations += 1
    rd = ctx.rng("c04", "default id_spec by database format")
    for i in range(90 if not ctx.thorough else 900):
        dcase = gen_defaults(rd, i)
        res.evaluations += 1
        res.count("defaults_%s_%s_%s" % (dcase["scenario"], dcase["db_format"], dcase.get("form", "-")))
        check_defaults(ctx, dcase, res, cmds, exp, tags)
    rg = ctx.rng("c04", "GTF inference and the counters")
    for i in range(24 if not ctx.thorough else 240):
        recs = gen_db.rand_gtf_forest(rg, explicit=False)
        if not recs:
            continue
        gcfg = dbside.Cfg(idspec=GTF_COUNTER_SPECS[i % len(GTF_COUNTER_SPECS)])
        gcase = {"scenario": "gtf_counters", "input": gen_db.gtf_lines(recs), "config": gcfg.to_json(), "serial": i,
                 "no_shrink": True}
        res.evaluations += 1
        res.count("gtf_counters_idspec_" + gcfg.idspec.describe()[:24])
        check_gtf_counters(ctx, gcase, res, cmds, exp, tags)
    out = ctx.model(cmds)
    if out is not None:
        for c, m, e, (comp, inp) in zip(cmds, out, exp, tags):
            res.corr_checked += 1
            if e.startswith("COUNTERS "):
                # the model and sqlite derive genes / transcripts in different orders, so WHICH derived feature gets
                # transcript_1 differs; compared: the set of keys and both counter tables
                a, b = dbside.parse_dump(m), dbside.parse_dump(e[9:])
                pa = (sorted(f["id"] for f in a.get("features", [])), a.get("auto"), a.get("pauto"), a.get("error"))
                pb = (sorted(f["id"] for f in b.get("features", [])), b.get("auto"), b.get("pauto"), b.get("error"))
                if pa != pb:
                    res.corr_disagreements.append((comp, inp[:800], repr(pa)[:800], repr(pb)[:800]))
                continue
            if e.startswith("IDONLY "):
                ok = m.startswith("ok ")
                if not ok:
                    res.corr_disagreements.append((comp, inp[:800], m[:300], e))
                continue
            if m != e:
                res.corr_disagreements.append((comp, inp[:800], m[:800], e[:800]))
    res.assumptions = ["':start:'/':end:' specs are used with integer coordinates only (a '.' coordinate would give a NULL key)",
                       "callables are the zoo of harness/dbside.py, mirrored in GffModel/ProtoDb.lean"]
    common.shrink_first_failure(res, lambda case: judge(ctx, case))
    return res


def replay(ctx, payload):
    return common.replay_failure("C04", payload, lambda case: judge(ctx, case))
