"""C03 - GTF import infers exact gene/transcript extents and the three-level hierarchy.

correspondence: create_db on GTF text vs the Lean model (Create.populateGtf, updateRelationsGtf), end to end.
oracle (real code only): min/max over the exon lines per id; the relation set computed from the ids on each line;
the disable flags; explicit gene/transcript lines.
"""
import os

import common
import dbside
import gen_db
from common import enc, dec

TRUSTED = ["sqlite MIN/MAX aggregates, JOIN, DISTINCT, ORDER BY on text (modelled in GffModel/Create.lean: extent, "
           "updateRelationsGtf; validated by the correspondence)"]
LEANCHECKER_MODULES = ["GffProofs.Props.C03"]


FEATURE_FORMS = ["generator", "iter", "map", "all_features"]


def mk_case(lines, recs, cfg, form="file", checklines=10):
    """a self-contained case: the GTF lines in file order, the generator's record of every line, the configuration,
    and how the lines reach create_db: "file" (a path) or as Feature objects (feature_from_line of every line) from a
    one-shot source - "generator" (generator expression), "iter" (iter(list)), "map" (a map object), "all_features"
    (db.all_features() of a database holding exactly the lines) - with the given checklines"""
    return {"scenario": "import", "input": list(lines), "records": list(recs), "parallel": ["records"],
            "config": cfg.to_json(), "form": form, "checklines": checklines}


def same_as_line(row, e):
    """the stored row is the file's gene / transcript line: its extent, its source column, its own attribute"""
    return ((row["start"], row["end"]) == (e["start"], e["end"]) and row["source"] == e.get("source", "src")
            and row["featuretype"] == e["ftype"] and row["attributes"].get("note") == ([e["note"]] if "note" in e else None))


def oracle(recs, db, cfg, res, case):
    disG, disT, sub, gkey, tkey = cfg.disG, cfg.disT, cfg.sub, cfg.gkey, cfg.tkey
    rows = dbside.rows_of(db)
    byid = {}
    for x in rows:
        byid.setdefault(str(x["id"]), []).append(x)
    dup = [k for k, v in byid.items() if len(v) > 1]
    if dup:
        common.fail(res, case, "several_features_one_id", "several features stored under one id", ids=dup)
    rels = set(dbside.rels_of(db))
    tx = {}
    gx = {}
    for x in recs:
        if x["ftype"] == sub:
            if x["transcript"] is not None:
                tx.setdefault(x["transcript"], []).append(x)
            gx.setdefault(x["gene"], []).append(x)
    explicit_t = {x["transcript"]: x for x in recs if x["ftype"] == "transcript"}
    explicit_g = {x["gene"]: x for x in recs if x["ftype"] == "gene"}
    gene_of = {x["transcript"]: x["gene"] for x in recs if x["transcript"] is not None}
    # derived transcripts
    for t, exs in tx.items():
        got = byid.get(t, [])
        if t in explicit_t:
            e = explicit_t[t]
            if len(got) != 1 or not same_as_line(got[0], e):
                common.fail(res, case, "explicit_transcript_not_single",
                            "an explicit transcript line is not the single feature under its id",
                            id=t, observed=[(g["featuretype"], g["start"], g["end"], g["source"]) for g in got],
                            expected=("transcript", e["start"], e["end"], e.get("source", "src"), e.get("note")))
            continue
        if disT:
            if got:
                common.fail(res, case, "disable_infer_transcripts_ignored",
                            "disable_infer_transcripts did not suppress a derived transcript", id=t)
            continue
        want = (min(e["start"] for e in exs), max(e["end"] for e in exs), exs[0]["seqid"], exs[0]["strand"])
        if len(got) != 1 or got[0]["featuretype"] != "transcript" or \
                (got[0]["start"], got[0]["end"], got[0]["seqid"], got[0]["strand"]) != want:
            common.fail(res, case, "derived_transcript_extent",
                        "derived transcript does not span min start .. max end of its exons on their "
                        "seqid/strand", id=t, expected=want,
                        observed=[(g["featuretype"], g["start"], g["end"], g["seqid"], g["strand"]) for g in got])
        else:
            try:
                f = db[t]
                assert f.featuretype == "transcript"
            except Exception as ex:
                common.fail(res, case, "derived_transcript_not_retrievable",
                            "derived transcript not retrievable by its id: %r" % ex, id=t)
            ga = got[0]["attributes"]
            if ga.get(tkey) != [t] or ga.get(gkey) != [gene_of[t]]:
                common.fail(res, case, "derived_transcript_ids",
                            "the derived transcript stored under %r does not carry that transcript's ids" % t,
                            id=t, observed=ga, expected={tkey: [t], gkey: [gene_of[t]]})
    for g, exs in gx.items():
        got = byid.get(g, [])
        if g in explicit_g:
            e = explicit_g[g]
            if len(got) != 1 or not same_as_line(got[0], e):
                common.fail(res, case, "explicit_gene_not_single",
                            "an explicit gene line is not the single feature under its id",
                            id=g, observed=[(x["featuretype"], x["start"], x["end"], x["source"]) for x in got],
                            expected=("gene", e["start"], e["end"], e.get("source", "src"), e.get("note")))
            continue
        if disG:
            if got:
                common.fail(res, case, "disable_infer_genes_ignored",
                            "disable_infer_genes did not suppress a derived gene", id=g)
            continue
        if not any(e["transcript"] is not None for e in exs):
            continue
        want = (min(e["start"] for e in exs), max(e["end"] for e in exs), exs[0]["seqid"], exs[0]["strand"])
        if len(got) != 1 or got[0]["featuretype"] != "gene" or \
                (got[0]["start"], got[0]["end"], got[0]["seqid"], got[0]["strand"]) != want:
            common.fail(res, case, "derived_gene_extent",
                        "derived gene does not span all exons of the gene", id=g, expected=want,
                        observed=[(x["featuretype"], x["start"], x["end"], x["seqid"], x["strand"]) for x in got])
    # nothing derived beyond these
    file_lines_derived_source = {(x["gene"] if x["ftype"] == "gene" else x["transcript"]) for x in recs
                                 if x.get("source") == "gffutils_derived"}
    for x in rows:
        if x["source"] == "gffutils_derived" and str(x["id"]) not in file_lines_derived_source:
            k = str(x["id"])
            ok = (x["featuretype"] == "transcript" and k in tx and not disT) or \
                 (x["featuretype"] == "gene" and k in gx and not disG)
            if not ok:
                common.fail(res, case, "unwarranted_derived_feature",
                            "a derived feature exists that no exon line warrants (or a flag forbids)",
                            id=k, featuretype=x["featuretype"])
    # relations: every other line is level-1 child of its transcript, level-2 child of its gene; transcript -> gene
    want = set()
    counters = {}
    for x in recs:
        if x["ftype"] == "gene":
            continue
        if x["ftype"] == "transcript":
            want.add((x["gene"], x["transcript"], 1))
            continue
        counters[x["ftype"]] = counters.get(x["ftype"], 0) + 1
        xid = "%s_%d" % (x["ftype"], counters[x["ftype"]])
        if x["transcript"] is not None:
            want.add((x["transcript"], xid, 1))
            want.add((x["gene"], x["transcript"], 1))
        want.add((x["gene"], xid, 2))
    if rels != want:
        common.fail(res, case, "relation_set", "the relation set is not exactly {line->transcript (1), line->gene (2), "
                    "transcript->gene (1)}", extra=sorted(rels - want), missing=sorted(want - rels))
    for p, c, l in rels:
        if p == c:
            common.fail(res, case, "own_parent", "a feature is its own parent/child", id=p, level=l)
            break


def build(ctx, case):
    """import the lines of the case with its configuration, in its input form; returns (db, reply, cfg)"""
    import gffutils
    from gffutils.feature import feature_from_line
    cfg = dbside.Cfg.from_json(case["config"])
    form, cl = case.get("form", "file"), case.get("checklines", 10)
    data = dbside.write_lines(os.path.join(ctx.scratch, "c03.gtf"), case["input"])
    if form == "all_features":
        # a database holding exactly the lines (nothing inferred, keys '<featuretype>_<n>'), streamed in file order;
        # imported with the same checklines, so that its features carry the dialect the file form would vote
        src = gffutils.create_db(data, ":memory:", id_spec="no_such_attribute", disable_infer_genes=True, checklines=cl,
                                 disable_infer_transcripts=True, gtf_transcript_key=cfg.tkey, gtf_gene_key=cfg.gkey,
                                 gtf_subfeature=cfg.sub, verbose=False)
        data = src.all_features()
    elif form != "file":
        feats = [feature_from_line(l) for l in case["input"]]
        data = {"generator": (f for f in feats), "iter": iter(feats), "map": map(lambda f: f, feats)}[form]
    db, rep = dbside.py_create(data, cfg, checklines=cl)
    return db, rep, cfg


def judge(ctx, case):
    res = common.Result("C03")
    if len(case["input"]) != len(case["records"]):
        return res
    db, rep, cfg = build(ctx, case)
    if db is None:
        common.fail(res, case, "create_db_raised",
                    "create_db raised on a GTF file: " + rep, error=rep, observed=rep, expected="ok")
        return res
    oracle(case["records"], db, cfg, res, case)
    return res


def run(ctx):
    import gffutils
    res = common.Result("C03")
    r = ctx.rng("c03")
    res.rule = ("GTF forests: 1-3 genes x 1-3 transcripts x 0-4 exons (+CDS, start_codon, exon-less transcripts), lines "
                "shuffled or in order, with/without explicit gene and transcript lines, all four disable_infer_* "
                "combinations, custom transcript/gene keys and subfeature type; given as a file and (every second forest, and "
                "every one of more than 11 lines) as Feature objects from a generator / iter(list) / map / db.all_features() "
                "with checklines below, at and above the number of records. non-trivial = distinct (file, flags) with "
                ">= 1 transcript owning exons")
    cmds, exp, tags = [], [], []
    n = 200 if not ctx.thorough else 2000
    # minimised past failures run first (corpus)
    corpus = [
        # D21: an explicit transcript line `a` and another transcript called `a_1`
        [dict(ftype="transcript", gene="G1", transcript="a", start=1, end=100, seqid="chr1", strand="+"),
         dict(ftype="exon", gene="G1", transcript="a", start=1, end=100, seqid="chr1", strand="+"),
         dict(ftype="exon", gene="G0", transcript="a_1", start=500, end=600, seqid="chr1", strand="+")],
        [dict(ftype="exon", gene="G0", transcript="G1_1", start=500, end=600, seqid="chr1", strand="+"),
         dict(ftype="gene", gene="G1", transcript=None, start=1, end=100, seqid="chr1", strand="+"),
         dict(ftype="exon", gene="G1", transcript="t", start=1, end=100, seqid="chr1", strand="+")],
    ]
    for i in range(n):
        explicit = r.random() < 0.5
        recs = gen_db.rand_gtf_forest(r, explicit=explicit)
        if i < len(corpus):
            recs, explicit = corpus[i], True
        elif r.random() < 0.6:
            r.shuffle(recs)
        if not recs:
            continue
        disG, disT = r.random() < 0.3, r.random() < 0.3
        custom = r.random() < 0.2
        if i < len(corpus):
            disG = disT = custom = False
        gkey, tkey, sub = ("gid", "tid", "CDS") if custom else ("gene_id", "transcript_id", "exon")
        idspec = dbside.IdSpec() if not custom else dbside.IdSpec("D", table={"gene": [("a", gkey)], "transcript": [("a", tkey)]})
        cfg = dbside.Cfg(idspec=idspec, disG=disG, disT=disT, tkey=tkey, gkey=gkey, sub=sub)
        spaced = False
        if len(recs) > 13 and i % 4 == 1:
            spaced = True
            # lines beyond the dialect-inspection window written with blanks on both sides of the semicolons
            # (`gene_id "g" ; transcript_id "t" ;`): the same features, the same ids
            for x in recs[12:]:
                if r.random() < 0.6:
                    x["sep"] = " ; "
            res.count("lines_beyond_the_window_spaced_semicolons")
        lines = gen_db.gtf_lines(recs, gkey=gkey, tkey=tkey)
        if i % 6 == 3:
            # an earlier import of this process that used custom gtf_gene_key / gtf_transcript_key WITHOUT an id_spec of
            # its own (its outcome is not judged): whatever it did must not leak into the imports that follow
            pre = dbside.write_lines(os.path.join(ctx.scratch, "c03pre.gtf"), gen_db.gtf_lines(recs, gkey="gid", tkey="tid"))
            dbside.py_create(pre, dbside.Cfg(tkey="tid", gkey="gid"))
            res.count("preceded_by_custom_key_import_without_id_spec")
        path = dbside.write_lines(os.path.join(ctx.scratch, "c03.gtf"), lines)
        db, rep = dbside.py_create(path, cfg)
        res.evaluations += 1
        res.count("explicit" if explicit else "no_explicit")
        res.count("disG%d_disT%d" % (disG, disT))
        cmds.append(dbside.cmd_create(lines, cfg)); exp.append(rep); tags.append(("create_db (GTF)", repr((lines, cfg.describe()))))
        case = mk_case(lines, recs, cfg)
        if db is None:
            common.fail(res, case, "create_db_raised",
                        "create_db raised on a GTF file: " + rep, error=rep, observed=rep, expected="ok")
            continue
        if any(x["ftype"] == sub and x["transcript"] for x in recs):
            res.nontriv((tuple(lines), disG, disT))
        oracle(recs, db, cfg, res, case)
        cmds.append("dump"); exp.append(dbside.dump(db)); tags.append(("tables after GTF import", repr((lines, cfg.describe()))))
        if len(res.samples) < 2:
            res.sample({"lines": lines, "config": cfg.describe()})
        # the same GTF records as Feature objects from a one-shot source (the dialect peek must hand every item on to
        # the importer): same oracle; the tables are compared with the model's import of the lines
        # (not for files that mix two spacings: Feature objects parsed one by one carry their own line's dialect, whereas
        # the model of these forms re-reads the lines with ONE voted dialect - the stated single-dialect assumption)
        if (i % 2 == 0 or len(lines) > 11) and not spaced:
            form = r.choice(FEATURE_FORMS)
            cl = r.choice([10, 10, 10, 0, 1, 3, max(len(lines) - 2, 0), len(lines) - 1, len(lines)])
            case2 = mk_case(lines, recs, cfg, form, cl)
            db2, rep2, _ = build(ctx, case2)
            res.evaluations += 1
            res.count("form_" + form)
            res.count("feature_form_" + ("more_than_checklines_plus_1" if len(lines) > cl + 1 else "within_peek"))
            tag = repr((lines, cfg.describe(), form, cl))
            cmds.append(dbside.cmd_create(lines, cfg, checklines=cl)); exp.append(rep2)
            tags.append(("create_db (GTF, Feature objects from a one-shot source)", tag))
            if db2 is None:
                common.fail(res, case2, "create_db_raised", "create_db raised on GTF features given as %s: %s" % (form, rep2),
                            error=rep2, observed=rep2, expected="ok")
                continue
            oracle(recs, db2, cfg, res, case2)
            cmds.append("dump"); exp.append(dbside.dump(db2))
            tags.append(("tables after GTF import (Feature objects from a one-shot source)", tag))
    # outside the property's domain, correspondence only: the exons of one transcript / gene disagree on strand or seqid.
    # The derived feature then carries the strand and seqid of ONE exon - which one is sqlite's choice for bare columns
    # next to MIN()/MAX() (modelled in Create.extent: first row in child-id order that attains MAX(end))
    import gen_db as _g
    for i in range(40 if not ctx.thorough else 400):
        nex = r.choice([2, 2, 3, 4, 5, 11, 12])
        ends = [r.choice([100, 200, 300]) for _ in range(nex)]
        recs2 = [dict(ftype="exon", gene="G0", transcript="G0T%d" % r.randrange(2), start=r.randrange(1, 90), end=ends[j],
                      seqid=r.choice(["chr1", "chr2"]), strand=r.choice("+-")) for j in range(nex)]
        lines2 = _g.gtf_lines(recs2)
        cfg2 = dbside.Cfg()
        path2 = dbside.write_lines(os.path.join(ctx.scratch, "c03m.gtf"), lines2)
        db2, rep2 = dbside.py_create(path2, cfg2)
        res.evaluations += 1
        res.count("mixed_strand_or_seqid")
        cmds.append(dbside.cmd_create(lines2, cfg2)); exp.append(rep2); tags.append(("create_db (GTF, mixed strands)", repr(lines2)))
        if db2 is not None:
            cmds.append("dump"); exp.append(dbside.dump(db2)); tags.append(("tables after GTF import (mixed strands)", repr(lines2)))
    # one LARGE GTF per run: 1005 genes with one or two single- or two-exon transcripts each (more than a thousand derived
    # transcripts and genes), lines shuffled (oracle only)
    rb = ctx.rng("c03", "large forest")
    bigrecs = []
    for g in range(1005 if not ctx.thorough else 2100):
        for t in range(1 + (g % 7 == 0)):
            a = 100 * g + 10 * t + 1
            for e_ in range(1 + (g % 3 == 0)):
                bigrecs.append(dict(ftype="exon", gene="BG%d" % g, transcript="BG%dT%d" % (g, t), start=a + 40 * e_,
                                    end=a + 40 * e_ + 5, seqid="chr1", strand="+-"[g % 2]))
    rb.shuffle(bigrecs)
    bcfg = dbside.Cfg()
    blines = gen_db.gtf_lines(bigrecs)
    bdb, brep = dbside.py_create(dbside.write_lines(os.path.join(ctx.scratch, "c03big.gtf"), blines), bcfg)
    res.evaluations += 1
    res.count("large_forest_%d_lines" % len(blines))
    bcase = {"scenario": "large_forest", "input": ["(%d generated lines)" % len(blines)], "no_shrink": True}
    if bdb is None:
        common.fail(res, bcase, "create_db_raised", "create_db raised on a large GTF file: " + brep, error=brep)
    else:
        oracle(bigrecs, bdb, bcfg, res, bcase)
    out = ctx.model(cmds)
    if out is not None:
        for c, m, e, (comp, inp) in zip(cmds, out, exp, tags):
            res.corr_checked += 1
            if comp.startswith("tables"):
                a, b = dbside.parse_dump(m), dbside.parse_dump(e)
                if "error" in a or "error" in b:
                    same = m == e
                else:
                    def canon(d):
                        return (sorted((f["id"], tuple(f["cols"]), f["attrs"], f["bin"]) for f in d["features"]),
                                [f["id"] for f in d["features"] if not f["cols"][1] == "gffutils_derived"],
                                sorted(d["relations"]), d["pauto"], d["dialect"])
                    same = canon(a) == canon(b)
                if not same:
                    res.corr_disagreements.append((comp, inp[:3000], m[:200000], e[:200000]))
            elif m != e:
                res.corr_disagreements.append((comp, inp[:900], m[:300], e[:300]))
    res.assumptions = ["a transcript_id belongs to one gene_id", "subfeature lines have integer coordinates",
                       "the exons of a transcript agree on seqid and strand",
                       "the order in which derived features are inserted (ties in ORDER BY gene id) is not compared"]
    common.shrink_first_failure(res, lambda case: judge(ctx, case))
    return res


def replay(ctx, payload):
    return common.replay_failure("C03", payload, lambda case: judge(ctx, case))
