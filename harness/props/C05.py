"""C05 - duplicate keys are resolved exactly as the chosen merge_strategy says.

correspondence: create_db / FeatureDB.update with colliding keys vs the Lean model (Create.doMerge, fileFeature,
gffStep/gtfStep), end to end; attribute values of merged features compared as sets.
oracle (real code only): a grouping reference written from the property text (first / last / all / union per group),
including the Parent links of every arrival.
"""
import os

import common
import dbside
import gen_db
from common import enc, dec

TRUSTED = ["sqlite PRIMARY KEY(id) -> IntegrityError, UPDATE ... WHERE id (modelled in GffModel/Db.lean)",
           "list(set(v)) order is arbitrary in Python: merged attribute values are compared as sets"]
LEANCHECKER_MODULES = ["GffProofs.Props.C05"]

COLS = ["seqid", "source", "featuretype", "start", "end", "score", "strand", "frame"]
EXEMPTABLE = ["seqid", "source", "featuretype", "score", "strand", "frame"]


def c_first_id(f):
    """a callable id_spec: the first value of the ID (GFF3) / eid (GTF) attribute"""
    for k in ("ID", "eid"):
        try:
            return f.attributes[k][0]
        except (KeyError, IndexError):
            pass
    return None


dbside.CALLZOO.setdefault("first_id", c_first_id)     # used by the 'objects' scenario only (not in the model's zoo)

COLUMN_NAMED = ["score", "source", "strand", "end", "start", "frame", "seqid", "featuretype"]


def add_column_named(rc, arrivals):
    """attribute KEYS that are also names of GFF columns (score=high;source=ensembl): two names per case, carried by
    about half of the arrivals, so that colliding features both have them"""
    names = rc.sample(COLUMN_NAMED, 2)
    for a in arrivals:
        for nm in names:
            if rc.random() < 0.5:
                vals = [rc.choice(["u", "v", "w", "z", "hi", "lo"]) for _ in range(rc.choice([1, 1, 2]))]
                a["attrs"][nm] = list(dict.fromkeys(vals))
    return arrivals


def rand_family(r, n0, n1, nkeys):
    """arrivals for the history 'merge import, delete, merge update': per key three column variants; every arrival
    takes one of them, so that arrivals of the second phase meet '<key>_n' siblings with equal columns.
    returns (arrivals, phase)"""
    variants = {}
    out = []
    for i in range(n0 + n1):
        k = "k%d" % r.randrange(nkeys)
        if k not in variants:
            b = {"seqid": "chr1", "source": "A", "featuretype": "exon", "start": 10 + 7 * len(variants), "end": 500,
                 "score": ".", "strand": "+", "frame": "."}
            variants[k] = [dict(b), dict(b, start=b["start"] + 1), dict(b, strand="-", source=r.choice(["A", "B"]))]
        if r.random() < 0.08 and out:
            k = "%s_%d" % (k, r.randrange(1, 3))          # an arrival whose own key is a generated '<key>_n'
            variants.setdefault(k, variants[k.rsplit("_", 1)[0]])
        cols = dict(r.choice(variants[k]))
        attrs = {}
        for a in r.sample(["Name", "Note", "tag"], r.randrange(0, 3)):
            attrs[a] = list(dict.fromkeys(r.choice(["u", "v", "w", "z"]) for _ in range(r.choice([1, 1, 2]))))
        out.append({"key": k, "cols": cols, "attrs": attrs, "parents": r.sample(["P1", "P2", "P3"], r.choice([0, 1, 1, 2]))})
    return out, [0] * n0 + [1] * n1


def rand_arrivals(r, n, nkeys, fmt):
    """arrivals colliding on few keys; columns drawn from 2 alternatives so that groups of equal columns occur"""
    out = []
    base = {}
    # in about a fifth of the cases the coordinates of the arrivals are '.' (stored as NULL) or alternate between '.'
    # and a number: two arrivals whose start (end) is '.' agree in that column like any other two equal values
    dots = r.random() < 0.2
    for i in range(n):
        k = "k%d" % r.randrange(nkeys)
        if r.random() < 0.12:
            k = "k%d_%d" % (r.randrange(nkeys), r.randrange(1, 3))       # collides with a generated '<key>_n'
        b = base.setdefault(k, {"seqid": "chr1", "source": "A", "featuretype": "exon", "start": 10 + 7 * len(base),
                                "end": 500, "score": ".", "strand": "+", "frame": "."})
        if dots and k not in base.get("__dotted__", ()):
            base.setdefault("__dotted__", set()).add(k)
            x = r.random()
            if x < 0.4:
                b["start"] = "."
            elif x < 0.7:
                b["end"] = "."
            elif x < 0.85:
                b["start"] = b["end"] = "."
        cols = dict(b)
        if dots and r.random() < 0.25:
            c = r.choice(["start", "end"])
            cols[c] = "." if cols[c] != "." else (17 if c == "start" else 500)
        for c, alts in (("source", ["A", "B", "C"]), ("strand", ["+", "-"]), ("start", [b["start"], b["start"] + 1 if b["start"] != "." else 11]),
                        ("score", [".", "5"]), ("frame", [".", "0"])):
            if r.random() < 0.25:
                cols[c] = r.choice(alts)
        attrs = {}
        for a in r.sample(["Name", "Note", "tag", "x"], r.randrange(0, 3)):
            attrs[a] = [r.choice(["u", "v", "w", "z"]) for _ in range(r.choice([1, 1, 2]))]
            attrs[a] = list(dict.fromkeys(attrs[a]))
        parents = r.sample(["P1", "P2", "P3"], r.choice([0, 1, 1, 2]))
        out.append({"key": k, "cols": cols, "attrs": attrs, "parents": parents})
    return out


def lines_of(arrivals, fmt):
    out = []
    for a in arrivals:
        c = a["cols"]
        if fmt == "gff3":
            attrs = [("ID", [a["key"]])] + ([("Parent", a["parents"])] if a["parents"] else []) + \
                [(k, v) for k, v in a["attrs"].items()]
            out.append(gen_db.gff_line(c["seqid"], c["featuretype"], c["start"], c["end"], c["strand"], attrs,
                                       source=c["source"], score=c["score"], frame=c["frame"]))
        else:
            attrs = [("eid", [a["key"]])] + ([("transcript_id", a["parents"][:1])] if a["parents"] else []) + \
                [(k, v) for k, v in a["attrs"].items()]
            out.append(gen_db.gtf_line(c["seqid"], c["featuretype"], c["start"], c["end"], c["strand"], attrs,
                                       source=c["source"], score=c["score"], frame=c["frame"]))
    return out


EVER = {}          # id -> every Parent link any arrival filed under that id ever carried (reset per case)


def reference(arrivals, strategy, force, fmt, stored=None, counters=None, dupmap=None, after_delete=False):
    """the outcome the property prescribes.  returns ('error'|'abort'|'ambiguous'|'ok', stored) with
    stored: id -> {cols, attrs: k -> set, links: set(parent ids), exempt: col -> set}
    after_delete: features were deleted from `stored` - only then can TWO members of a key's family have columns equal
    to a newcomer's (the deleted key was filed again with the columns of a sibling); which of them the union goes to
    is not prescribed: 'ambiguous'"""
    stored = stored if stored is not None else {}
    counters = counters if counters is not None else {}
    dupmap = dupmap if dupmap is not None else {}


    def new(a):
        attrs = {k: set(v) for k, v in a["attrs"].items()}
        if fmt == "gff3":
            attrs["ID"] = {a["key"]}
            if a["parents"]:
                attrs["Parent"] = set(a["parents"])
        else:
            attrs["eid"] = {a["key"]}
            if a["parents"]:
                attrs["transcript_id"] = set(a["parents"][:1])
        links = set(a["parents"]) if fmt == "gff3" else set(a["parents"][:1])
        return {"cols": dict(a["cols"]), "attrs": attrs, "links": links,
                "exempt": {c: {str(a["cols"][c])} for c in force}}

    def incr(base):
        counters[base] = counters.get(base, 0) + 1
        return "%s_%d" % (base, counters[base])

    for a in arrivals:
        k = a["key"]
        if k not in stored:
            stored[k] = new(a)
            EVER.setdefault(k, set()).update(stored[k]["links"])
            continue
        if strategy == "error":
            return "error", stored
        if strategy == "warning":
            continue
        if strategy == "replace":
            stored[k] = new(a)
            EVER.setdefault(k, set()).update(stored[k]["links"])
            continue
        if strategy == "create_unique":
            nk = incr(k)
            if nk in stored:
                return "abort", stored
            stored[nk] = new(a)
            EVER.setdefault(nk, set()).update(stored[nk]["links"])
            continue
        # merge
        target = None
        nmatch = 0
        for cand in list(dict.fromkeys([k] + dupmap.get(k, []))):
            if cand in stored and all(str(stored[cand]["cols"][c]) == str(a["cols"][c]) for c in COLS if c not in force):
                target = cand
                nmatch += 1
        if after_delete and nmatch > 1:
            return "ambiguous", stored
        if target is None:
            nk = incr(k)
            if nk in stored:
                return "abort", stored
            stored[nk] = new(a)
            EVER.setdefault(nk, set()).update(stored[nk]["links"])
            dupmap.setdefault(k, []).append(nk)
            continue
        t = stored[target]
        n = new(a)
        for kk, vs in n["attrs"].items():
            t["attrs"].setdefault(kk, set()).update(vs)
        t["links"] |= n["links"]
        EVER.setdefault(target, set()).update(n["links"])
        for c in force:
            t["exempt"][c] |= n["exempt"][c]
    return "ok", stored


def observe(db, fmt):
    out = {}
    for row in dbside.rows_of(db):
        if row["source"] == "gffutils_derived":
            continue
        out[str(row["id"])] = {"cols": {"seqid": row["seqid"], "source": row["source"], "featuretype": row["featuretype"],
                                        "start": "." if row["start"] is None else row["start"],     # '.' is stored as NULL
                                        "end": "." if row["end"] is None else row["end"], "score": row["score"],
                                        "strand": row["strand"], "frame": row["frame"]},
                               "attrs": {k: set(v) for k, v in row["attributes"].items()},
                               "attr_lists": row["attributes"], "links": set()}
    for p, c, l in dbside.rels_of(db):
        if l == 1 and c in out:
            out[c]["links"].add(p)
    return out


def compare(status, want, rep, db, fmt, force):
    """returns list of (what, detail, classification, kind) ; classification None = violation, or a known-finding
    key; kind = the name of the oracle"""
    probs = []
    if status == "error":
        if db is not None:
            probs.append(("merge_strategy='error' did not abort on a duplicate key", rep, None,
                          "error_strategy_did_not_abort"))
        return probs
    if status in ("abort", "ambiguous"):
        return probs                      # '<key>_n' already taken: outcome not prescribed (the code aborts);
                                          # two family members with the newcomer's columns (after a delete): not prescribed
    if db is None:
        probs.append(("create_db raised (%s) although the strategy prescribes an outcome" % rep, rep, None,
                      "import_raised"))
        return probs
    got = observe(db, fmt)
    if set(got) != set(want):
        probs.append(("stored keys differ", {"stored": sorted(got), "expected": sorted(want)}, None, "stored_keys_differ"))
        return probs
    for k in want:
        w, g = want[k], got[k]
        for c in COLS:
            wc = ",".join(sorted(w["exempt"][c])) if c in force else str(w["cols"][c])
            if str(g["cols"][c]) != wc:
                probs.append(("column %s of %r" % (c, k), {"stored": g["cols"][c], "expected": wc}, None, "column_differs"))
        if g["attrs"] != w["attrs"]:
            probs.append(("attribute values of %r" % k, {"stored": {a: sorted(b) for a, b in g["attrs"].items()},
                                                         "expected": {a: sorted(b) for a, b in w["attrs"].items()}}, None,
                          "attribute_values_differ"))
        for a, vs in g["attr_lists"].items():
            if len(vs) != len(set(vs)):
                probs.append(("attribute %s of %r has repeated values" % (a, k), vs, None, "attribute_values_repeated"))
        if g["links"] != w["links"]:
            probs.append(("Parent links of %r" % k, {"stored": sorted(g["links"]), "expected": sorted(w["links"])},
                          "links", "parent_links_differ"))
    return probs


def mk_case(lines, arrivals, cfg, fmt, phase=None):
    """a self-contained case: the lines, the generator's record (arrival) of every line, the configuration of the
    import under test, the format; with "phase" (0/1 per line) the phase-0 lines are imported with create_unique and
    the phase-1 lines arrive through FeatureDB.update with the configuration under test"""
    case = {"scenario": "create_db" if phase is None else "create_db+update", "input": list(lines),
            "records": list(arrivals), "parallel": ["records"], "config": cfg.to_json(), "fmt": fmt}
    if phase is not None:
        case["phase"] = list(phase)
        case["parallel"] = ["records", "phase"]
    return case


def execute(ctx, case):
    """the reference outcome and the real outcome of a case.  returns None when the case is outside the domain (the
    preparatory create_unique import of an update case is not prescribed / fails), else a dict with status, want, db,
    rep (and cfg0, rep0, first, rest for an update case)"""
    import warnings
    EVER.clear()
    lines, arrivals, fmt = case["input"], case["records"], case["fmt"]
    cfg = dbside.Cfg.from_json(case["config"])
    strategy, force = cfg.strategy, cfg.force
    ext = "gff3" if fmt == "gff3" else "gtf"
    if "phase" not in case:
        status, want = reference(arrivals, strategy, force, fmt)
        path = dbside.write_lines(os.path.join(ctx.scratch, "c05." + ext), lines)
        db, rep = dbside.py_create(path, cfg)
        return {"status": status, "want": want, "db": db, "rep": rep, "cfg": cfg}
    cut = sum(1 for ph in case["phase"] if ph == 0)
    if not 0 < cut < len(lines) or list(case["phase"]) != [0] * cut + [1] * (len(lines) - cut):
        return None
    st = {}; cn = {}; dm = {}
    # the preparatory import uses create_unique, or - "phase0": "merge" - the merge strategy itself, so that the update
    # meets a database whose duplicates table already has entries written by an earlier importer object
    p0 = case.get("phase0", "create_unique")
    status0, _ = reference(arrivals[:cut], p0, force, fmt, st, cn, dm)
    cfg0 = dbside.Cfg(idspec=cfg.idspec, strategy=p0, force=force if p0 == "merge" else [], disG=True, disT=True)
    path = dbside.write_lines(os.path.join(ctx.scratch, "c05a." + ext), lines[:cut])
    db, rep0 = dbside.py_create(path, cfg0)
    if status0 != "ok" or db is None:
        return None
    if p0 != "merge":
        dm = {}       # the duplicates table only records what the 'merge' strategy files
    # "delete": keys removed with FeatureDB.delete between the import and the update.  The reference forgets the
    # feature and its links - nothing else: the '<key>_n' entries filed for a deleted key stay what they are, features
    # of that key's family that a later arrival with equal columns is merged into
    deleted = [k for k in case.get("delete", []) if k in st]
    for k in deleted:
        st.pop(k)
        EVER.pop(k, None)
    if deleted:
        db.delete(list(deleted) if len(deleted) > 1 or case.get("delete_by") != "feature" else db[deleted[0]],
                  make_backup=False)
    status, want = reference(arrivals[cut:], strategy, force, fmt, st, cn, dm, after_delete=bool(deleted))
    path2 = dbside.write_lines(os.path.join(ctx.scratch, "c05b." + ext), lines[cut:])
    try:
        with warnings.catch_warnings():
            warnings.simplefilter("ignore")
            db.update(path2, **cfg.update_kwargs())
        rep = "ok"
    except Exception as ex:
        rep = "err " + dbside.err_name(ex)
        db = None
    return {"status": status, "want": want, "db": db, "rep": rep, "cfg": cfg, "cfg0": cfg0, "rep0": rep0,
            "first": lines[:cut], "rest": lines[cut:], "deleted": deleted}


def plan_selection(plan, n):
    """the positions (into the case's lines) a plan of an 'objects' case imports, in import order, and the cut
    between create_db and update (None: create_db alone)"""
    sel = list(range(n))
    if plan.get("reverse"):
        sel.reverse()
    keep = plan.get("keep", "all")
    if len(sel) > 1:
        sel = {"all": sel, "skip_first": sel[1:], "last_only": sel[-1:], "second_half": sel[len(sel) // 2:]}[keep]
    cut = None
    if plan.get("via") == "create_db+update" and len(sel) >= 2:
        cut = min(len(sel) - 1, max(1, int(len(sel) * plan.get("cut_frac", 0.5))))
    return sel, cut


def execute_objects(ctx, case):
    """ONE list of Feature objects (the lines of the case parsed once, by DataIterator) handed to several fresh
    databases in turn - "plans": each plan imports the objects (all of them, or reversed / only the later ones) through
    create_db or create_db + update.  Every database has to hold what the strategy prescribes for the features IT was
    given: what an earlier import did with the caller's objects must not show.  Only stored results are judged (the
    objects themselves are not inspected).  returns a list of (plan, execute()-like dict | None)"""
    import warnings
    import gffutils
    lines, arrivals, fmt = case["input"], case["records"], case["fmt"]
    cfg = dbside.Cfg.from_json(case["config"])
    strategy, force = cfg.strategy, cfg.force
    path = dbside.write_lines(os.path.join(ctx.scratch, "c05o." + ("gff3" if fmt == "gff3" else "gtf")), lines)
    objs = list(gffutils.DataIterator(path))
    if len(objs) != len(lines):
        return []
    outs = []
    for plan in case["plans"]:
        EVER.clear()
        sel, cut = plan_selection(plan, len(lines))
        arr = [arrivals[i] for i in sel]
        feats = [objs[i] for i in sel]
        if cut is None:
            status, want = reference(arr, strategy, force, fmt)
            db, rep = dbside.py_create(feats, cfg)
            outs.append((plan, {"status": status, "want": want, "db": db, "rep": rep, "cfg": cfg,
                                "lines": [lines[i] for i in sel], "ever": dict(EVER)}))
            continue
        st = {}; cn = {}; dm = {}
        p0 = "merge" if strategy == "merge" else "create_unique"
        status0, _ = reference(arr[:cut], p0, force, fmt, st, cn, dm)
        cfg0 = dbside.Cfg(idspec=cfg.idspec, strategy=p0, force=force if p0 == "merge" else [], disG=True, disT=True)
        db, rep0 = dbside.py_create(feats[:cut], cfg0)
        if status0 != "ok":
            outs.append((plan, None))
            continue
        if db is None:
            # the preparatory import is itself prescribed (status0 == ok): its failure is a failure of that import
            outs.append((plan, {"status": status0, "want": st, "db": None, "rep": rep0, "cfg": cfg0,
                                "lines": [lines[i] for i in sel[:cut]], "ever": dict(EVER)}))
            continue
        if p0 != "merge":
            dm = {}
        status, want = reference(arr[cut:], strategy, force, fmt, st, cn, dm)
        try:
            with warnings.catch_warnings():
                warnings.simplefilter("ignore")
                db.update(feats[cut:], **cfg.update_kwargs())
            rep = "ok"
        except Exception as ex:
            rep = "err " + dbside.err_name(ex)
            db = None
        outs.append((plan, {"status": status, "want": want, "db": db, "rep": rep, "cfg": cfg, "cfg0": cfg0, "rep0": rep0,
                            "first": [lines[i] for i in sel[:cut]], "rest": [lines[i] for i in sel[cut:]],
                            "ever": dict(EVER)}))
    return outs


def check_objects(ctx, case, res):
    """judge every database of an 'objects' case; returns execute_objects' list"""
    outs = execute_objects(ctx, case)
    for n, (plan, ex) in enumerate(outs):
        if ex is not None:
            EVER.clear(); EVER.update(ex["ever"])
            check_outcome(dict(case, database=n, plan=plan), ex, res)
    return outs


def check_outcome(case, ex, res):
    """compare the real outcome with the reference; a difference that matches the predicate of a known finding is
    recorded as such, every other one is an oracle failure"""
    strategy = ex["cfg"].strategy
    probs = compare(ex["status"], ex["want"], ex["rep"], ex["db"], case["fmt"], ex["cfg"].force)
    for what, detail, cls, kind in probs:
        known = None
        if cls == "links" and strategy == "replace":
            # D12b: the kept key carries, besides the last arrival's links, only links of arrivals that were
            # filed under it earlier and have been replaced
            key = what.split("'")[1]
            every = EVER.get(key, set())
            if set(detail["expected"]) <= set(detail["stored"]) <= every:
                known = "D12b"
        if known:
            res.known_hits.setdefault(known, dict(case, what=what, detail=detail))
        else:
            common.fail(res, case, kind, what + " not as merge_strategy=%r prescribes" % strategy,
                        error=ex["rep"] if kind == "import_raised" else None, observed_expected=detail,
                        reference_status=ex["status"])


def judge(ctx, case):
    res = common.Result("C05")
    if len(case["input"]) != len(case["records"]):
        return res
    if case["scenario"] == "objects":
        check_objects(ctx, case, res)
        return res
    ex = execute(ctx, case)
    if ex is not None:
        check_outcome(case, ex, res)
    return res


def run(ctx):
    import gffutils
    res = common.Result("C05")
    r = ctx.rng("c05")
    res.rule = ("2-7 arrivals over 1-2 keys with equal/different columns and attribute sets, Parent links, arrivals "
                "whose own key is an earlier '<key>_n'; all five strategies; all subsets (<= 2) of force_merge_fields; "
                "GFF3 and GTF importers; create_db and update; attribute keys named like GFF columns; history merge import "
                "-> delete(key or '<key>_n' sibling) -> update with arrivals of that family; one list of Feature objects "
                "imported into 2-3 fresh databases in turn (create_db / create_db + update, also reversed or shortened). "
                "non-trivial = distinct input with >= 1 collision")
    cmds, exp, tags = [], [], []
    rc = ctx.rng("c05", "column-named attributes")
    n = 400 if not ctx.thorough else 6000
    # directed, every run: for each importer and each column that can be exempted, three arrivals of one key that differ in
    # that column only - merged into one feature whose column holds the comma-joined set (create_db and update); and
    # arrivals whose coordinates differ only beyond 2**53 (they are different columns: no merge)
    directed = []
    for fmt_ in ("gff3", "gtf"):
        for col in EXEMPTABLE:
            alt = {"seqid": "chr2", "source": "B", "featuretype": "CDS", "score": "5", "strand": "-", "frame": "0"}[col]
            b0 = {"seqid": "chr1", "source": "A", "featuretype": "exon", "start": 10, "end": 500, "score": ".", "strand": "+",
                  "frame": "."}
            arr = [{"key": "d0", "cols": dict(b0), "attrs": {"Name": ["u"]}, "parents": ["P1"]},
                   {"key": "d0", "cols": dict(b0, **{col: alt}), "attrs": {"Note": ["v"]}, "parents": []},
                   {"key": "d0", "cols": dict(b0), "attrs": {"tag": ["w"]}, "parents": ["P2"]}]
            for upd in (False, True):
                directed.append((fmt_, "merge", [col], arr, upd))
        big = {"seqid": "chr1", "source": "A", "featuretype": "exon", "start": 9007199254740992, "end": 9007199254740999,
               "score": ".", "strand": "+", "frame": "."}
        directed.append((fmt_, "merge", [], [{"key": "h0", "cols": dict(big), "attrs": {"Name": ["u"]}, "parents": []},
                                              {"key": "h0", "cols": dict(big, start=9007199254740993), "attrs": {"Note": ["v"]},
                                               "parents": []}], False))
    for i in range(n + len(directed)):
        fmt = "gff3" if r.random() < 0.7 else "gtf"
        strategy = r.choice(["error", "warning", "replace", "create_unique", "merge", "merge", "merge"])
        force = r.sample(EXEMPTABLE, r.choice([0, 0, 1, 2])) if strategy == "merge" else []
        arrivals = rand_arrivals(r, r.randrange(2, 8), r.choice([1, 1, 2]), fmt)
        forced_update = None
        if i >= n:
            fmt, strategy, force, arrivals, forced_update = directed[i - n]
            arrivals = [dict(a, cols=dict(a["cols"]), attrs={k: list(v) for k, v in a["attrs"].items()}) for a in arrivals]
            res.count("directed_exempt_column_or_huge_coordinates")
        if rc.random() < 0.35:
            add_column_named(rc, arrivals)
            res.count("attribute_keys_named_like_columns")
        use_update = r.random() < 0.3
        if forced_update is not None:
            use_update = forced_update
        idspec = dbside.IdSpec() if fmt == "gff3" else dbside.IdSpec("L", [("a", "eid")], form="str")
        cfg = dbside.Cfg(idspec=idspec, strategy=strategy, force=force, disG=True, disT=True)
        lines = lines_of(arrivals, fmt)
        inp = {"lines": lines, "merge_strategy": strategy, "force_merge_fields": force, "via_update": use_update}
        res.evaluations += 1
        res.count("%s_%s%s" % (fmt, strategy, "_update" if use_update else ""))
        if len(set(a["key"] for a in arrivals)) < len(arrivals):
            res.nontriv(tuple(lines) + (strategy, tuple(force)))
        if not use_update:
            case = mk_case(lines, arrivals, cfg, fmt)
        else:
            cut = r.randrange(1, len(arrivals))
            case = mk_case(lines, arrivals, cfg, fmt, phase=[0] * cut + [1] * (len(arrivals) - cut))
            if strategy == "merge" and r.random() < 0.5:
                case["phase0"] = "merge"
                res.count("update_after_merge_import")
        ex = execute(ctx, case)
        if ex is None:
            continue
        status, db, rep = ex["status"], ex["db"], ex["rep"]
        if not use_update:
            cmds.append(dbside.cmd_create(lines, cfg)); exp.append(rep); tags.append(("create_db", repr(inp)))
        else:
            cmds.append(dbside.cmd_create(ex["first"], ex["cfg0"])); exp.append(ex["rep0"])
            tags.append(("create_db", repr(inp)))
            cmds.append(dbside.cmd_update(ex["rest"], cfg)); exp.append(rep); tags.append(("FeatureDB.update", repr(inp)))
        check_outcome(case, ex, res)
        if db is not None and status == "ok":
            cmds.append("dump"); exp.append(dbside.dump(db)); tags.append(("tables", repr(inp)))
        if len(res.samples) < 3 and status == "ok":
            res.sample(inp)
    # history: merge import -> FeatureDB.delete of a key (the plain key or one of its '<key>_n' siblings) -> update with
    # arrivals for that key's family -----------------------------------------------------------------------------------
    rdel = ctx.rng("c05", "delete")
    for i in range(120 if not ctx.thorough else 1500):
        fmt = "gff3" if rdel.random() < 0.75 else "gtf"
        strategy = rdel.choice(["merge"] * 5 + ["create_unique", "replace"])
        force = rdel.sample(EXEMPTABLE, rdel.choice([0, 0, 0, 1])) if strategy == "merge" else []
        arrivals, phase = rand_family(rdel, rdel.randrange(2, 5), rdel.randrange(2, 5), rdel.choice([1, 1, 2]))
        if rdel.random() < 0.3:
            add_column_named(rdel, arrivals)
        idspec = dbside.IdSpec() if fmt == "gff3" else dbside.IdSpec("L", [("a", "eid")], form="str")
        cfg = dbside.Cfg(idspec=idspec, strategy=strategy, force=force, disG=True, disT=True)
        lines = lines_of(arrivals, fmt)
        cut = phase.count(0)
        EVER.clear()
        st0 = {}
        status0, _ = reference(arrivals[:cut], "merge", force, fmt, st0, {}, {})
        if status0 != "ok":
            continue
        plain = sorted({a["key"] for a in arrivals[:cut]})
        sibs = sorted(set(st0) - set(plain))
        victims = [rdel.choice(plain)] if (not sibs or rdel.random() < 0.7) else [rdel.choice(sibs)]
        if rdel.random() < 0.15 and len(st0) > 1:
            victims = sorted(set(victims + [rdel.choice(sorted(st0))]))
        case = mk_case(lines, arrivals, cfg, fmt, phase=phase)
        case.update(scenario="merge_import+delete+update", phase0="merge", delete=victims,
                    delete_by=rdel.choice(["id", "feature"]))
        inp = {"lines": lines, "merge_strategy": strategy, "force_merge_fields": force, "via_update": True,
               "deleted_after_import": victims}
        res.evaluations += 1
        res.count("%s_%s_merge_import_delete_update" % (fmt, strategy))
        res.nontriv(tuple(lines) + (strategy, tuple(force), tuple(victims)))
        ex = execute(ctx, case)
        if ex is None:
            continue
        res.count("delete_history_outcome_" + ex["status"])
        cmds.append(dbside.cmd_create(ex["first"], ex["cfg0"])); exp.append(ex["rep0"]); tags.append(("create_db", repr(inp)))
        cmds.append("delete " + dbside.enc_list(ex["deleted"])); exp.append("ok"); tags.append(("delete", repr(inp)))
        cmds.append(dbside.cmd_update(ex["rest"], cfg)); exp.append(ex["rep"]); tags.append(("FeatureDB.update", repr(inp)))
        check_outcome(case, ex, res)
        if ex["db"] is not None and ex["status"] == "ok":
            cmds.append("dump"); exp.append(dbside.dump(ex["db"])); tags.append(("tables", repr(inp)))

    # ONE list of Feature objects imported into several fresh databases in turn ---------------------------------------
    robj = ctx.rng("c05", "objects")
    for i in range(150 if not ctx.thorough else 1500):
        fmt = "gff3" if robj.random() < 0.75 else "gtf"
        strategy = robj.choice(["merge"] * 6 + ["create_unique", "replace", "warning", "error"])
        force = robj.sample(EXEMPTABLE, robj.choice([0, 0, 1])) if strategy == "merge" else []
        arrivals = rand_arrivals(robj, robj.randrange(2, 7), robj.choice([1, 1, 2]), fmt)
        if robj.random() < 0.25:
            add_column_named(robj, arrivals)
        idspec = dbside.IdSpec() if fmt == "gff3" else dbside.IdSpec("L", [("a", "eid")], form="str")
        if robj.random() < 0.4:
            # a callable id_spec (the first ID / eid value): the key does not depend on how many values the attribute has
            idspec = dbside.IdSpec("L", [("c", "first_id")], form="callable")
        cfg = dbside.Cfg(idspec=idspec, strategy=strategy, force=force, disG=True, disT=True)
        lines = lines_of(arrivals, fmt)
        via = lambda: robj.choice(["create_db", "create_db", "create_db+update"])
        plans = [{"via": via(), "cut_frac": robj.random()}, {"via": via(), "cut_frac": robj.random()}]
        if robj.random() < 0.85:
            # a database that is given only some of the objects (which an earlier import may have met as newcomers)
            plans.append({"via": via(), "cut_frac": robj.random(), "reverse": robj.random() < 0.3,
                          "keep": robj.choice(["skip_first", "skip_first", "last_only", "second_half", "all"])})
        case = mk_case(lines, arrivals, cfg, fmt)
        case.update(scenario="objects", plans=plans)
        inp = {"lines": lines, "merge_strategy": strategy, "force_merge_fields": force, "feature_objects": True,
               "id_spec": idspec.describe()}
        res.evaluations += 1
        res.count("%s_%s_objects" % (fmt, strategy))
        for plan, ex in check_objects(ctx, case, res):
            if ex is None or idspec.form == "callable":
                continue        # first_id is not in the model's callable zoo: oracle only
            pinp = repr(dict(inp, plan=plan))
            if "first" in ex:
                cmds.append(dbside.cmd_create(ex["first"], ex["cfg0"])); exp.append(ex["rep0"])
                tags.append(("create_db (objects)", pinp))
                cmds.append(dbside.cmd_update(ex["rest"], cfg)); exp.append(ex["rep"]); tags.append(("FeatureDB.update", pinp))
            else:
                cmds.append(dbside.cmd_create(ex["lines"], ex["cfg"])); exp.append(ex["rep"])
                tags.append(("create_db (objects)", pinp))
            if ex["db"] is not None and ex["status"] == "ok":
                cmds.append("dump"); exp.append(dbside.dump(ex["db"])); tags.append(("tables", pinp))

    out = ctx.model(cmds)
    if out is not None:
        skip = False
        for c, m, e, (comp, inp) in zip(cmds, out, exp, tags):
            res.corr_checked += 1
            if comp == "tables":
                a, b = dbside.parse_dump(m), dbside.parse_dump(e)
                if "error" in a or "error" in b:
                    same = m == e
                else:
                    def canon(d):
                        return ([(f["id"], f["cols"], {k: sorted(v) for k, v in dbside.dec_attrs(f["attrs"]).items()})
                                 for f in d["features"]], sorted(d["relations"]), d["auto"], d["pauto"])
                    same = canon(a) == canon(b)
                if not same:
                    res.corr_disagreements.append((comp, inp[:900], m[:700], e[:700]))
            elif comp == "create_db (objects)":
                # the model imports the LINES of the objects: the reported dialect (key order, votes) is not compared
                if m.split(" ")[0] != e.split(" ")[0] or (m.startswith("err") and m != e):
                    res.corr_disagreements.append((comp, inp[:900], m[:300], e[:300]))
            elif m != e:
                res.corr_disagreements.append((comp, inp[:900], m[:300], e[:300]))
    res.assumptions = ["values of exempt columns contain no comma", "ids contain no tab",
                       "when the generated '<key>_n' is already taken the import aborts (outcome not prescribed)",
                       "after FeatureDB.delete a key can be filed again with the columns of one of its '<key>_n' siblings; "
                       "a later arrival with these columns then has two merge candidates and which of them receives the "
                       "union is decided by the order of a Python set (create.py _candidate_merges: list(set(...))): "
                       "outcome not prescribed, not judged and not compared with the model"]
    common.shrink_first_failure(res, lambda case: judge(ctx, case))
    return res


def replay(ctx, payload):
    return common.replay_failure("C05", payload, lambda case: judge(ctx, case))
