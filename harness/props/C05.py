"""C05 - duplicate keys are resolved exactly as the chosen merge_strategy says.

correspondence: create_db / FeatureDB.update with colliding keys vs the Lean model (Create.doMerge, fileFeature,
gffStep/gtfStep), end to end; attribute values of merged features compared as sets.
oracle (real code only): a grouping reference written from the property text (first / last / all / union per group),
including the Parent links of every arrival.
"""
import os

import common
import dbside
import gen_db
from common import enc, dec

TRUSTED = ["sqlite PRIMARY KEY(id) -> IntegrityError, UPDATE ... WHERE id (modelled in GffModel/Db.lean)",
           "list(set(v)) order is arbitrary in Python: merged attribute values are compared as sets"]
LEANCHECKER_MODULES = ["GffProofs.Props.C05"]

COLS = ["seqid", "source", "featuretype", "start", "end", "score", "strand", "frame"]
EXEMPTABLE = ["seqid", "source", "featuretype", "score", "strand", "frame"]


def rand_arrivals(r, n, nkeys, fmt):
    """arrivals colliding on few keys; columns drawn from 2 alternatives so that groups of equal columns occur"""
    out = []
    base = {}
    for i in range(n):
        k = "k%d" % r.randrange(nkeys)
        if r.random() < 0.12:
            k = "k%d_%d" % (r.randrange(nkeys), r.randrange(1, 3))       # collides with a generated '<key>_n'
        b = base.setdefault(k, {"seqid": "chr1", "source": "A", "featuretype": "exon", "start": 10 + 7 * len(base),
                                "end": 500, "score": ".", "strand": "+", "frame": "."})
        cols = dict(b)
        for c, alts in (("source", ["A", "B", "C"]), ("strand", ["+", "-"]), ("start", [b["start"], b["start"] + 1]),
                        ("score", [".", "5"]), ("frame", [".", "0"])):
            if r.random() < 0.25:
                cols[c] = r.choice(alts)
        attrs = {}
        for a in r.sample(["Name", "Note", "tag", "x"], r.randrange(0, 3)):
            attrs[a] = [r.choice(["u", "v", "w", "z"]) for _ in range(r.choice([1, 1, 2]))]
            attrs[a] = list(dict.fromkeys(attrs[a]))
        parents = r.sample(["P1", "P2", "P3"], r.choice([0, 1, 1, 2]))
        out.append({"key": k, "cols": cols, "attrs": attrs, "parents": parents})
    return out


def lines_of(arrivals, fmt):
    out = []
    for a in arrivals:
        c = a["cols"]
        if fmt == "gff3":
            attrs = [("ID", [a["key"]])] + ([("Parent", a["parents"])] if a["parents"] else []) + \
                [(k, v) for k, v in a["attrs"].items()]
            out.append(gen_db.gff_line(c["seqid"], c["featuretype"], c["start"], c["end"], c["strand"], attrs,
                                       source=c["source"], score=c["score"], frame=c["frame"]))
        else:
            attrs = [("eid", [a["key"]])] + ([("transcript_id", a["parents"][:1])] if a["parents"] else []) + \
                [(k, v) for k, v in a["attrs"].items()]
            out.append(gen_db.gtf_line(c["seqid"], c["featuretype"], c["start"], c["end"], c["strand"], attrs,
                                       source=c["source"], score=c["score"], frame=c["frame"]))
    return out


EVER = {}          # id -> every Parent link any arrival filed under that id ever carried (reset per case)


def reference(arrivals, strategy, force, fmt, stored=None, counters=None, dupmap=None):
    """the outcome the property prescribes.  returns ('error'|'abort'|'ok', stored) with
    stored: id -> {cols, attrs: k -> set, links: set(parent ids), exempt: col -> set}"""
    stored = stored if stored is not None else {}
    counters = counters if counters is not None else {}
    dupmap = dupmap if dupmap is not None else {}


    def new(a):
        attrs = {k: set(v) for k, v in a["attrs"].items()}
        if fmt == "gff3":
            attrs["ID"] = {a["key"]}
            if a["parents"]:
                attrs["Parent"] = set(a["parents"])
        else:
            attrs["eid"] = {a["key"]}
            if a["parents"]:
                attrs["transcript_id"] = set(a["parents"][:1])
        links = set(a["parents"]) if fmt == "gff3" else set(a["parents"][:1])
        return {"cols": dict(a["cols"]), "attrs": attrs, "links": links,
                "exempt": {c: {str(a["cols"][c])} for c in force}}

    def incr(base):
        counters[base] = counters.get(base, 0) + 1
        return "%s_%d" % (base, counters[base])

    for a in arrivals:
        k = a["key"]
        if k not in stored:
            stored[k] = new(a)
            EVER.setdefault(k, set()).update(stored[k]["links"])
            continue
        if strategy == "error":
            return "error", stored
        if strategy == "warning":
            continue
        if strategy == "replace":
            stored[k] = new(a)
            EVER.setdefault(k, set()).update(stored[k]["links"])
            continue
        if strategy == "create_unique":
            nk = incr(k)
            if nk in stored:
                return "abort", stored
            stored[nk] = new(a)
            EVER.setdefault(nk, set()).update(stored[nk]["links"])
            continue
        # merge
        target = None
        for cand in [k] + dupmap.get(k, []):
            if cand in stored and all(str(stored[cand]["cols"][c]) == str(a["cols"][c]) for c in COLS if c not in force):
                target = cand
        if target is None:
            nk = incr(k)
            if nk in stored:
                return "abort", stored
            stored[nk] = new(a)
            EVER.setdefault(nk, set()).update(stored[nk]["links"])
            dupmap.setdefault(k, []).append(nk)
            continue
        t = stored[target]
        n = new(a)
        for kk, vs in n["attrs"].items():
            t["attrs"].setdefault(kk, set()).update(vs)
        t["links"] |= n["links"]
        EVER.setdefault(target, set()).update(n["links"])
        for c in force:
            t["exempt"][c] |= n["exempt"][c]
    return "ok", stored


def observe(db, fmt):
    out = {}
    for row in dbside.rows_of(db):
        if row["source"] == "gffutils_derived":
            continue
        out[str(row["id"])] = {"cols": {"seqid": row["seqid"], "source": row["source"], "featuretype": row["featuretype"],
                                        "start": row["start"], "end": row["end"], "score": row["score"],
                                        "strand": row["strand"], "frame": row["frame"]},
                               "attrs": {k: set(v) for k, v in row["attributes"].items()},
                               "attr_lists": row["attributes"], "links": set()}
    for p, c, l in dbside.rels_of(db):
        if l == 1 and c in out:
            out[c]["links"].add(p)
    return out


def compare(status, want, rep, db, fmt, force):
    """returns list of (what, detail, classification, kind) ; classification None = violation, or a known-finding
    key; kind = the name of the oracle"""
    probs = []
    if status == "error":
        if db is not None:
            probs.append(("merge_strategy='error' did not abort on a duplicate key", rep, None,
                          "error_strategy_did_not_abort"))
        return probs
    if status == "abort":
        return probs                      # '<key>_n' already taken: outcome not prescribed (the code aborts)
    if db is None:
        probs.append(("create_db raised (%s) although the strategy prescribes an outcome" % rep, rep, None,
                      "import_raised"))
        return probs
    got = observe(db, fmt)
    if set(got) != set(want):
        probs.append(("stored keys differ", {"stored": sorted(got), "expected": sorted(want)}, None, "stored_keys_differ"))
        return probs
    for k in want:
        w, g = want[k], got[k]
        for c in COLS:
            wc = ",".join(sorted(w["exempt"][c])) if c in force else str(w["cols"][c])
            if str(g["cols"][c]) != wc:
                probs.append(("column %s of %r" % (c, k), {"stored": g["cols"][c], "expected": wc}, None, "column_differs"))
        if g["attrs"] != w["attrs"]:
            probs.append(("attribute values of %r" % k, {"stored": {a: sorted(b) for a, b in g["attrs"].items()},
                                                         "expected": {a: sorted(b) for a, b in w["attrs"].items()}}, None,
                          "attribute_values_differ"))
        for a, vs in g["attr_lists"].items():
            if len(vs) != len(set(vs)):
                probs.append(("attribute %s of %r has repeated values" % (a, k), vs, None, "attribute_values_repeated"))
        if g["links"] != w["links"]:
            probs.append(("Parent links of %r" % k, {"stored": sorted(g["links"]), "expected": sorted(w["links"])},
                          "links", "parent_links_differ"))
    return probs


def mk_case(lines, arrivals, cfg, fmt, phase=None):
    """a self-contained case: the lines, the generator's record (arrival) of every line, the configuration of the
    import under test, the format; with "phase" (0/1 per line) the phase-0 lines are imported with create_unique and
    the phase-1 lines arrive through FeatureDB.update with the configuration under test"""
    case = {"scenario": "create_db" if phase is None else "create_db+update", "input": list(lines),
            "records": list(arrivals), "parallel": ["records"], "config": cfg.to_json(), "fmt": fmt}
    if phase is not None:
        case["phase"] = list(phase)
        case["parallel"] = ["records", "phase"]
    return case


def execute(ctx, case):
    """the reference outcome and the real outcome of a case.  returns None when the case is outside the domain (the
    preparatory create_unique import of an update case is not prescribed / fails), else a dict with status, want, db,
    rep (and cfg0, rep0, first, rest for an update case)"""
    import warnings
    EVER.clear()
    lines, arrivals, fmt = case["input"], case["records"], case["fmt"]
    cfg = dbside.Cfg.from_json(case["config"])
    strategy, force = cfg.strategy, cfg.force
    ext = "gff3" if fmt == "gff3" else "gtf"
    if "phase" not in case:
        status, want = reference(arrivals, strategy, force, fmt)
        path = dbside.write_lines(os.path.join(ctx.scratch, "c05." + ext), lines)
        db, rep = dbside.py_create(path, cfg)
        return {"status": status, "want": want, "db": db, "rep": rep, "cfg": cfg}
    cut = sum(1 for ph in case["phase"] if ph == 0)
    if not 0 < cut < len(lines) or list(case["phase"]) != [0] * cut + [1] * (len(lines) - cut):
        return None
    st = {}; cn = {}; dm = {}
    # the preparatory import uses create_unique, or - "phase0": "merge" - the merge strategy itself, so that the update
    # meets a database whose duplicates table already has entries written by an earlier importer object
    p0 = case.get("phase0", "create_unique")
    status0, _ = reference(arrivals[:cut], p0, force, fmt, st, cn, dm)
    cfg0 = dbside.Cfg(idspec=cfg.idspec, strategy=p0, force=force if p0 == "merge" else [], disG=True, disT=True)
    path = dbside.write_lines(os.path.join(ctx.scratch, "c05a." + ext), lines[:cut])
    db, rep0 = dbside.py_create(path, cfg0)
    if status0 != "ok" or db is None:
        return None
    if p0 != "merge":
        dm = {}       # the duplicates table only records what the 'merge' strategy files
    status, want = reference(arrivals[cut:], strategy, force, fmt, st, cn, dm)
    path2 = dbside.write_lines(os.path.join(ctx.scratch, "c05b." + ext), lines[cut:])
    try:
        with warnings.catch_warnings():
            warnings.simplefilter("ignore")
            db.update(path2, **cfg.update_kwargs())
        rep = "ok"
    except Exception as ex:
        rep = "err " + dbside.err_name(ex)
        db = None
    return {"status": status, "want": want, "db": db, "rep": rep, "cfg": cfg, "cfg0": cfg0, "rep0": rep0,
            "first": lines[:cut], "rest": lines[cut:]}


def check_outcome(case, ex, res):
    """compare the real outcome with the reference; a difference that matches the predicate of a known finding is
    recorded as such, every other one is an oracle failure"""
    strategy = ex["cfg"].strategy
    probs = compare(ex["status"], ex["want"], ex["rep"], ex["db"], case["fmt"], ex["cfg"].force)
    for what, detail, cls, kind in probs:
        known = None
        if cls == "links" and strategy == "replace":
            # D12b: the kept key carries, besides the last arrival's links, only links of arrivals that were
            # filed under it earlier and have been replaced
            key = what.split("'")[1]
            every = EVER.get(key, set())
            if set(detail["expected"]) <= set(detail["stored"]) <= every:
                known = "D12b"
        if known:
            res.known_hits.setdefault(known, dict(case, what=what, detail=detail))
        else:
            common.fail(res, case, kind, what + " not as merge_strategy=%r prescribes" % strategy,
                        error=ex["rep"] if kind == "import_raised" else None, observed_expected=detail,
                        reference_status=ex["status"])


def judge(ctx, case):
    res = common.Result("C05")
    if len(case["input"]) != len(case["records"]):
        return res
    ex = execute(ctx, case)
    if ex is not None:
        check_outcome(case, ex, res)
    return res


def run(ctx):
    import gffutils
    res = common.Result("C05")
    r = ctx.rng("c05")
    res.rule = ("2-7 arrivals over 1-2 keys with equal/different columns and attribute sets, Parent links, arrivals "
                "whose own key is an earlier '<key>_n'; all five strategies; all subsets (<= 2) of force_merge_fields; "
                "GFF3 and GTF importers; create_db and update. non-trivial = distinct input with >= 1 collision")
    cmds, exp, tags = [], [], []
    n = 400 if not ctx.thorough else 6000
    for i in range(n):
        fmt = "gff3" if r.random() < 0.7 else "gtf"
        strategy = r.choice(["error", "warning", "replace", "create_unique", "merge", "merge", "merge"])
        force = r.sample(EXEMPTABLE, r.choice([0, 0, 1, 2])) if strategy == "merge" else []
        arrivals = rand_arrivals(r, r.randrange(2, 8), r.choice([1, 1, 2]), fmt)
        use_update = r.random() < 0.3
        idspec = dbside.IdSpec() if fmt == "gff3" else dbside.IdSpec("L", [("a", "eid")], form="str")
        cfg = dbside.Cfg(idspec=idspec, strategy=strategy, force=force, disG=True, disT=True)
        lines = lines_of(arrivals, fmt)
        inp = {"lines": lines, "merge_strategy": strategy, "force_merge_fields": force, "via_update": use_update}
        res.evaluations += 1
        res.count("%s_%s%s" % (fmt, strategy, "_update" if use_update else ""))
        if len(set(a["key"] for a in arrivals)) < len(arrivals):
            res.nontriv(tuple(lines) + (strategy, tuple(force)))
        if not use_update:
            case = mk_case(lines, arrivals, cfg, fmt)
        else:
            cut = r.randrange(1, len(arrivals))
            case = mk_case(lines, arrivals, cfg, fmt, phase=[0] * cut + [1] * (len(arrivals) - cut))
            if strategy == "merge" and r.random() < 0.5:
                case["phase0"] = "merge"
                res.count("update_after_merge_import")
        ex = execute(ctx, case)
        if ex is None:
            continue
        status, db, rep = ex["status"], ex["db"], ex["rep"]
        if not use_update:
            cmds.append(dbside.cmd_create(lines, cfg)); exp.append(rep); tags.append(("create_db", repr(inp)))
        else:
            cmds.append(dbside.cmd_create(ex["first"], ex["cfg0"])); exp.append(ex["rep0"])
            tags.append(("create_db", repr(inp)))
            cmds.append(dbside.cmd_update(ex["rest"], cfg)); exp.append(rep); tags.append(("FeatureDB.update", repr(inp)))
        check_outcome(case, ex, res)
        if db is not None and status == "ok":
            cmds.append("dump"); exp.append(dbside.dump(db)); tags.append(("tables", repr(inp)))
        if len(res.samples) < 3 and status == "ok":
            res.sample(inp)
    out = ctx.model(cmds)
    if out is not None:
        skip = False
        for c, m, e, (comp, inp) in zip(cmds, out, exp, tags):
            res.corr_checked += 1
            if comp == "tables":
                a, b = dbside.parse_dump(m), dbside.parse_dump(e)
                if "error" in a or "error" in b:
                    same = m == e
                else:
                    def canon(d):
                        return ([(f["id"], f["cols"], {k: sorted(v) for k, v in dbside.dec_attrs(f["attrs"]).items()})
                                 for f in d["features"]], sorted(d["relations"]), d["auto"], d["pauto"])
                    same = canon(a) == canon(b)
                if not same:
                    res.corr_disagreements.append((comp, inp[:900], m[:700], e[:700]))
            elif m != e:
                res.corr_disagreements.append((comp, inp[:900], m[:300], e[:300]))
    res.assumptions = ["values of exempt columns contain no comma", "ids contain no tab",
                       "when the generated '<key>_n' is already taken the import aborts (outcome not prescribed)"]
    common.shrink_first_failure(res, lambda case: judge(ctx, case))
    return res


def replay(ctx, payload):
    return common.replay_failure("C05", payload, lambda case: judge(ctx, case))
