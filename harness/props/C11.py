"""C11 - feature-type/strand filters, ordering and counts agree with a full scan.

correspondence (unit layer): all_features / features_of_type / count_features_of_type / featuretypes / seqids
vs Interface.runQuery / countFeatures / featuretypes / seqids.
oracle (real code only): brute-force filter; sortedness under sqlite's ordering (NULL < INTEGER < TEXT, text by
code point); counts; distinct lists - also when featuretypes()/seqids() are consumed lazily and other listing / count
queries run inside the loop or side by side.
"""
import os

import common
import dbside
from common import enc, dec
from pyside import enc_list

TRUSTED = ["sqlite ORDER BY: NULL < INTEGER < TEXT, BINARY collation = code point order of UTF-8 text; DESC binds to "
           "the last ORDER BY term only (modelled in GffModel/Interface.lean)",
           "sqlite semantics of the generated SQL subset as written down in GffModel/Sql.lean `eval` (affinity conversion of "
           "TEXT parameters on INT columns, NULL never TRUE, DISTINCT on whole rows, nested-loop JOIN) and CPython's set "
           "iteration order for small ints (`PySet`, used for the bin list) - validated against real sqlite / CPython by the "
           "correspondence of every run, not proved"]
LEANCHECKER_MODULES = ["GffProofs.Props.C11", "GffProofs.Props.C11Sql"]

COLUMNS = ["seqid", "source", "featuretype", "start", "end", "score", "strand", "frame", "attributes", "extra",
           "file_order", "length"]
MODEL_KEYS = {"seqid", "source", "featuretype", "start", "end", "score", "strand", "frame", "file_order", "length"}


def rand_set(r, n):
    feats = []
    for i in range(n):
        s = r.choice([1, 5, 5, 10, 100, 100, 2000, r.randrange(1, 3000)])
        e = s + r.choice([0, 0, 5, 10, 10, 99, r.randrange(0, 500)])
        start, end = str(s), str(e)
        if r.random() < 0.07:
            start = "."
        if r.random() < 0.07:
            end = "."
        feats.append({"id": "f%d" % i, "seqid": r.choice(["chr1", "Chr1", "chr10", "chr2", "chrÉ", "chré", "CHR1", "2L"]),
                      "source": r.choice(["a", "B", "10", "9", "é"]), "ftype": r.choice(["gene", "exon", "CDS", "Gene", "mRNA"]),
                      "start": start, "end": end, "score": r.choice([".", "10", "9", "0.5", "1e3"]),
                      "strand": r.choice(["+", "-", ".", "+", "-", "?", "1"]), "frame": r.choice([".", "0", "1", "2"]),
                      "extra": [] if r.random() < 0.7 else [r.choice(["x", "y", "10"])],
                      "note": r.choice(["a", "b", "Z", "é"])})
    return feats


def lines_of(feats):
    return ["\t".join([f["seqid"], f["source"], f["ftype"], f["start"], f["end"], f["score"], f["strand"], f["frame"],
                       "ID=%s;Note=%s" % (f["id"], f["note"])] + f["extra"]) for f in feats]


def sqlkey(v):
    """sqlite order: NULL < int < text(code points)"""
    if v is None:
        return (0, 0)
    if isinstance(v, int):
        return (1, v)
    return (2, v)          # Python compares str by code point, like BINARY collation on UTF-8


def keyfun(row, col):
    if col == "length":
        return sqlkey(None if row["start"] is None or row["end"] is None else row["end"] - row["start"])
    if col == "file_order":
        return sqlkey(row["rowid"])
    if col in ("attributes", "extra"):
        from gffutils import helpers
        return sqlkey(helpers._jsonify(row[col]))
    return sqlkey(row[col])


def in_sql_order(keys, reverse):
    """is the key sequence in `ORDER BY k1, ..., kn [DESC]` order: every term ascending, DESC binding to the last only"""
    for x, y in zip(keys, keys[1:]):
        for j, (a, b) in enumerate(zip(x, y)):
            if a != b:
                desc = reverse and j == len(x) - 1
                if (a < b) == desc:
                    return False
                break
    return True


def mk_case(scenario, lines, feats, **kw):
    """a self-contained case: the lines, the generator's record of every line, the arguments of the scenario"""
    return dict({"scenario": scenario, "input": lines, "records": feats, "parallel": ["records"],
                 "config": dbside.Cfg().to_json()}, **kw)


def order_by_of(cols, form):
    """the order_by argument as it is passed: a plain string, a tuple or a list of column names"""
    return None if not cols else (cols[0] if form == "str" else tuple(cols) if form != "list1" else list(cols))


def check_scan(case, db, feats, res):
    """a full iteration without order_by is in input order"""
    got = [f.id for f in db.all_features()]
    res.evaluations += 1
    if got != [f["id"] for f in feats]:
        common.fail(res, case, "full_scan_not_input_order", "a full iteration without order_by is not in input order",
                    observed=got, expected=[f["id"] for f in feats])
    return got


def check_count(case, db, feats, res):
    ft = case["featuretype"]
    n = db.count_features_of_type(ft)
    m = len(list(db.features_of_type(ft))) if ft is not None else len(list(db.all_features()))
    res.evaluations += 1
    want = sum(1 for f in feats if ft is None or f["ftype"] == ft)
    if n != m or n != want:
        common.fail(res, case, "count_differs", "count_features_of_type(%r) differs from the number iterated" % ft,
                    observed=n, iterated=m, expected=want)
    return n


def check_distinct(case, db, feats, res):
    fts = sorted(db.featuretypes()); sq = sorted(db.seqids())
    if fts != sorted(set(f["ftype"] for f in feats)) or sq != sorted(set(f["seqid"] for f in feats)) \
            or len(fts) != len(set(fts)) or len(sq) != len(set(sq)):
        common.fail(res, case, "distinct_lists_wrong",
                    "featuretypes()/seqids() are not exactly the distinct values present",
                    observed={"featuretypes": fts, "seqids": sq},
                    expected={"featuretypes": sorted(set(f["ftype"] for f in feats)),
                              "seqids": sorted(set(f["seqid"] for f in feats))})
    return fts, sq


LAZY_PATTERNS = ["count_per_featuretype", "count_per_seqid_total", "seqids_inside_featuretypes", "featuretypes_inside_seqids",
                 "zip_featuretypes_featuretypes", "zip_seqids_seqids", "zip_featuretypes_seqids", "alternate_next"]


def check_lazy_lists(case, db, feats, res):
    """featuretypes() / seqids() consumed LAZILY while other listing / counting queries run on the same FeatureDB (the
    table-of-counts loop, two listings side by side): the values yielded are still exactly the distinct values present,
    each once, and every count is the number of features of that type"""
    pat = case["pattern"]
    wf = sorted(set(f["ftype"] for f in feats)); ws = sorted(set(f["seqid"] for f in feats))
    nof = lambda t: sum(1 for f in feats if f["ftype"] == t)
    seen = {}            # listing -> values yielded, in order
    counts = {}
    try:
        if pat == "count_per_featuretype":
            seen["featuretypes"] = []
            for t in db.featuretypes():
                seen["featuretypes"].append(t)
                counts[t] = db.count_features_of_type(t)
        elif pat == "count_per_seqid_total":
            seen["seqids"] = []
            for sq in db.seqids():
                seen["seqids"].append(sq)
                counts[None] = db.count_features_of_type()
        elif pat == "seqids_inside_featuretypes":
            seen["featuretypes"] = []
            for i, t in enumerate(db.featuretypes()):
                seen["featuretypes"].append(t)
                seen["seqids (inner, pass %d)" % i] = list(db.seqids())
        elif pat == "featuretypes_inside_seqids":
            seen["seqids"] = []
            for i, sq in enumerate(db.seqids()):
                seen["seqids"].append(sq)
                seen["featuretypes (inner, pass %d)" % i] = list(db.featuretypes())
        elif pat.startswith("zip_"):
            _, na, nb = pat.split("_")
            a, b = iter(getattr(db, na)()), iter(getattr(db, nb)())
            la, lb = [], []
            while True:                     # what zip(a, b) does, without dropping the value taken last from `a`
                try:
                    la.append(next(a))
                    lb.append(next(b))
                except StopIteration:
                    break
            la.extend(a); lb.extend(b)
            seen[na + " (first of the pair)"] = la
            seen[nb + " (second of the pair)"] = lb
        else:
            a, b = iter(db.featuretypes()), iter(db.seqids())
            la, lb = [], []
            for pick in case["schedule"]:
                it, acc = (a, la) if pick == 0 else (b, lb)
                try:
                    acc.append(next(it))
                except StopIteration:
                    pass
                if pick == 2:
                    counts[None] = db.count_features_of_type()
            la.extend(a); lb.extend(b)
            seen["featuretypes"] = la
            seen["seqids"] = lb
    except Exception as ex:
        common.fail(res, case, "query_raised", "lazy listing raised %r" % ex, error=dbside.err_name(ex), observed=repr(ex))
        return None
    res.evaluations += 1
    bad = {}
    for name, vals in seen.items():
        want = wf if name.startswith("featuretypes") else ws
        if sorted(vals) != want:
            bad[name] = {"yielded": vals, "expected": want}
    badc = {str(t): {"count": n, "expected": (len(feats) if t is None else nof(t))} for t, n in counts.items()
            if n != (len(feats) if t is None else nof(t))}
    if pat == "count_per_featuretype" and sorted(counts) != wf and "featuretypes" not in bad:
        badc["<keys>"] = {"counted": sorted(counts), "expected": wf}
    if bad or badc:
        common.fail(res, case, "lazy_lists_wrong",
                    "featuretypes()/seqids() consumed lazily while other listing/count queries run on the same FeatureDB (%s) "
                    "are not exactly the distinct values present, or a count is wrong" % pat, listings=bad, counts=badc)
    return seen, counts


def check_query(case, db, feats, rows, res):
    """all_features / features_of_type with featuretype, strand, order_by, reverse against the brute-force filter and
    sqlite's ordering.  returns (ids | None, featuretype list | None)"""
    q = case["query"]
    ft = tuple(q["featuretype"]) if q.get("featuretype_is_tuple") else q["featuretype"]
    strand, cols, reverse = q["strand"], q["cols"], q["reverse"]
    order_by = order_by_of(cols, q["form"])
    try:
        if q["method"] == "features_of_type":
            got = list(db.features_of_type(ft, strand=strand, order_by=order_by, reverse=reverse))
        else:
            got = list(db.all_features(featuretype=ft, strand=strand, order_by=order_by, reverse=reverse))
    except Exception as ex:
        common.fail(res, case, "query_raised", "query raised %r" % ex, error=dbside.err_name(ex), observed=repr(ex))
        return None, None
    ids = [f.id for f in got]
    ftl = None if (ft is None or len(ft) == 0) else ([ft] if isinstance(ft, str) else list(ft))
    want = [f["id"] for f in feats if (ftl is None or f["ftype"] in ftl) and (strand is None or f["strand"] == strand)]
    if sorted(ids) != sorted(want):
        common.fail(res, case, "query_result_wrong", "query does not return exactly the matching features, each once",
                    observed=ids, expected=sorted(want))
        return None, None
    keys = [tuple(keyfun(rows[i], c) for c in cols) for i in ids]
    if cols and (len(cols) == 1 or not reverse):
        if keys != sorted(keys, reverse=(reverse and len(cols) == 1)):
            common.fail(res, case, "result_not_sorted", "result is not sorted by the requested column(s)",
                        observed=ids, keys=[str(k) for k in keys])
    return ids, ftl


def apply_step(ctx, db, step, alive):
    """one step of a history on ONE FeatureDB object: ["delete", featuretype, "ids"|"features"] deletes every feature
    of that type, ["update", record] adds one feature.  returns (alive afterwards, description)"""
    import warnings
    if step[0] == "delete":
        _, t, form = step
        victims = [f for f in alive if f["ftype"] == t]
        if form == "ids":
            db.delete([f["id"] for f in victims], make_backup=False)
        else:
            db.delete([db[f["id"]] for f in victims], make_backup=False)
        return [f for f in alive if f["ftype"] != t], "delete all %r (%s)" % (t, form)
    if step[0] == "failed_update":
        # an update that raises part-way on this FeatureDB: a new feature, then a line whose ID is already stored, under
        # merge_strategy='error'.  Whether the new row is visible afterwards is not prescribed (it is on a ':memory:'
        # database, whose connection the importer shares) - the content is read back by iteration, and the counts and
        # lists asked for afterwards must be those of that content
        nf, dupid = step[1], step[2]
        p2 = dbside.write_lines(os.path.join(ctx.scratch, "c11u.gff3"), lines_of([nf, dict(nf, id=dupid)]))
        try:
            with warnings.catch_warnings():
                warnings.simplefilter("ignore")
                db.update(p2, make_backup=False, merge_strategy="error")
        except Exception:
            pass
        present = set(f.id for f in db.all_features())
        return [f for f in alive + [nf] if f["id"] in present], "an update that failed part-way"
    nf = step[1]
    p2 = dbside.write_lines(os.path.join(ctx.scratch, "c11u.gff3"), lines_of([nf]))
    with warnings.catch_warnings():
        warnings.simplefilter("ignore")
        db.update(p2, make_backup=False)
    return alive + [nf], "update with a %r on %r" % (nf["ftype"], nf["seqid"])


def check_lists(case, db, alive, when, res):
    """the distinct lists and counts are those of the features alive at this point of the history"""
    fts = sorted(db.featuretypes()); sq = sorted(db.seqids())
    wf = sorted(set(f["ftype"] for f in alive)); ws = sorted(set(f["seqid"] for f in alive))
    counts_ok = all(db.count_features_of_type(t) == sum(1 for f in alive if f["ftype"] == t) for t in set(wf) | {"gene", "exon"})
    res.evaluations += 1
    if fts != wf or sq != ws or not counts_ok or len(list(db.all_features())) != len(alive):
        common.fail(res, case, "lists_after_history_wrong",
                    "featuretypes()/seqids()/counts are not the values present %s" % when,
                    observed={"featuretypes": fts, "seqids": sq}, expected={"featuretypes": wf, "seqids": ws},
                    counts_ok=counts_ok)


def judge(ctx, case):
    res = common.Result("C11")
    lines, feats = case["input"], case["records"]
    if len(lines) != len(feats):
        return res
    path = dbside.write_lines(os.path.join(ctx.scratch, "c11.gff3"), lines)
    db, rep = dbside.py_create(path, dbside.Cfg.from_json(case["config"]))
    if db is None:
        common.fail(res, case, "create_db_raised", "create_db raised: " + rep, error=rep, observed=rep)
        return res
    sc = case["scenario"]
    if sc == "full_scan":
        check_scan(case, db, feats, res)
    elif sc == "count":
        check_count(case, db, feats, res)
    elif sc == "distinct_lists":
        check_distinct(case, db, feats, res)
    elif sc == "lazy_lists":
        check_lazy_lists(case, db, feats, res)
    elif sc == "query":
        check_query(case, db, feats, {x["id"]: x for x in dbside.rows_of(db)}, res)
    elif sc == "history":
        # the lists are asked for after the import and after every step, as in the run (the questions are part of
        # the history: an answer may depend on what was asked before)
        alive = list(feats)
        check_lists(dict(case, history=[]), db, alive, "after import", res)
        for i, step in enumerate(case["history"]):
            if step[0] == "delete" and not any(f["ftype"] == step[1] for f in alive):
                continue
            alive, desc = apply_step(ctx, db, step, alive)
            check_lists(dict(case, history=case["history"][: i + 1]), db, alive, "after " + desc, res)
    return res


def run(ctx):
    import gffutils
    res = common.Result("C11")
    r = ctx.rng("c11")
    res.rule = ("feature sets of 3-30 features with mixed-case / non-ASCII seqids, numeric-looking text columns, ties and "
                "'.' coordinates; featuretype as string / list / tuple / absent; strand; order_by every valid column as a "
                "string, a 1-tuple and in pairs; reverse on/off; featuretypes()/seqids() also consumed lazily with counts / "
                "other listings asked for inside the loop or side by side (zip). non-trivial = distinct (set, query) with "
                ">= 2 results, or a lazy-listing pattern on a set with >= 2 featuretypes and >= 2 seqids")
    cmds, exp, tags = [], [], []
    nsets = 20 if not ctx.thorough else 250
    for si in range(nsets):
        feats = rand_set(r, r.randrange(3, 31))
        lines = lines_of(feats)
        path = dbside.write_lines(os.path.join(ctx.scratch, "c11.gff3"), lines)
        db, rep = dbside.py_create(path, dbside.Cfg())
        if db is None:
            common.fail(res, mk_case("import", lines, feats), "create_db_raised", "create_db raised: " + rep,
                        error=rep, observed=rep)
            continue
        rows = {x["id"]: x for x in dbside.rows_of(db)}
        cmds.append(dbside.cmd_load(db)); exp.append("ok"); tags.append(("load", ""))
        # full iteration without order_by is in input order
        got = check_scan(mk_case("full_scan", lines, feats), db, feats, res)
        cmds.append("q " + dbside.cmd_query()); exp.append("ok " + enc_list(got)); tags.append(("all_features()", repr(lines)))
        # counts / distinct lists
        for ft in [None, "gene", "exon", "Gene", "absent"]:
            n = check_count(mk_case("count", lines, feats, featuretype=ft), db, feats, res)
            cmds.append("count " + ("~" if ft is None else enc(ft))); exp.append("ok %d" % n)
            tags.append(("count_features_of_type", repr((lines, ft))))
        fts, sq = check_distinct(mk_case("distinct_lists", lines, feats), db, feats, res)
        cmds.append("ftypes"); exp.append("SET " + enc_list(fts)); tags.append(("featuretypes", repr(lines)))
        cmds.append("seqids"); exp.append("SET " + enc_list(sq)); tags.append(("seqids", repr(lines)))
        # the listings consumed lazily, with other listing / count queries in between (oracle only: the model's listings
        # are values, there is nothing to interleave)
        for pat in LAZY_PATTERNS:
            sched = [r.choice([0, 0, 1, 1, 2]) for _ in range(r.randrange(2, 14))] if pat == "alternate_next" else None
            check_lazy_lists(mk_case("lazy_lists", lines, feats, pattern=pat, schedule=sched), db, feats, res)
            res.count("lazy_" + pat)
            if len(set(f["ftype"] for f in feats)) >= 2 and len(set(f["seqid"] for f in feats)) >= 2:
                res.nontriv((si, "lazy", pat))
        # queries
        nq = 40 if not ctx.thorough else 80
        for qi in range(nq):
            ft = r.choice([None, None, "exon", "gene", ["exon", "CDS"], ("gene", "Gene"), ["absent"], []])
            strand = r.choice([None, None, "+", "-", ".", "?", "1"])
            form = r.choice(["str", "tuple1", "pair", "none", "list1"])
            cols = [] if form == "none" else ([r.choice(COLUMNS)] if form != "pair" else r.sample(COLUMNS, 2))
            if qi < len(COLUMNS):
                cols, form = [COLUMNS[qi]], "str"            # every column as a plain string, deterministically
            elif qi < 2 * len(COLUMNS):
                cols, form = [COLUMNS[qi - len(COLUMNS)]], "tuple1"
            order_by = order_by_of(cols, form)
            reverse = r.random() < 0.4
            use_type = ft is not None and ft != [] and r.random() < 0.5
            inp = {"lines": lines, "featuretype": ft, "strand": strand, "order_by": order_by, "reverse": reverse,
                   "method": "features_of_type" if use_type else "all_features"}
            res.evaluations += 1
            res.count("order_" + form)
            case = mk_case("query", lines, feats, query={
                "featuretype": list(ft) if isinstance(ft, tuple) else ft, "featuretype_is_tuple": isinstance(ft, tuple),
                "strand": strand, "cols": cols, "form": form, "reverse": reverse, "method": inp["method"]})
            ids, ftl = check_query(case, db, feats, rows, res)
            if ids is None:
                continue
            if len(ids) >= 2:
                res.nontriv((si, str(ft), strand, str(order_by), reverse))
            if all(c in MODEL_KEYS for c in cols):
                cmds.append("q " + dbside.cmd_query(ft=ftl or [], strand=strand, order_by=cols, reverse=reverse))
                exp.append(("KEYS", ids, cols, reverse, rows)); tags.append(("query", repr(inp)))
            if len(res.samples) < 3 and len(ids) > 2 and cols:
                res.sample({k: v for k, v in inp.items() if k != "lines"} | {"returned": ids})
    # a featuretype collection of more than a thousand entries (the stored types far apart in it) with order_by: still one
    # sorted result
    rl = ctx.rng("c11", "long featuretype collections")
    for li in range(3 if not ctx.thorough else 20):
        feats = rand_set(rl, rl.randrange(8, 20))
        lines = lines_of(feats)
        path = dbside.write_lines(os.path.join(ctx.scratch, "c11l.gff3"), lines)
        db, rep = dbside.py_create(path, dbside.Cfg())
        if db is None:
            continue
        rows = {x["id"]: x for x in dbside.rows_of(db)}
        filler = ["absent%d" % j for j in range(rl.choice([1100, 2100, 3100]))]
        present = sorted(set(f["ftype"] for f in feats))
        rl.shuffle(present)
        # the stored types alternately near the beginning and near the end of the collection
        ftl = present[0::2] + filler + present[1::2]
        for cols in (["start"], ["end"], ["seqid", "start"], ["length"], []):
            q = {"method": rl.choice(["all_features", "features_of_type"]), "featuretype": ftl,
                 "featuretype_is_tuple": rl.random() < 0.5, "strand": None, "cols": cols, "reverse": rl.random() < 0.3,
                 "form": "tuple"}
            res.evaluations += 1
            res.count("query_featuretype_collection_over_1000")
            check_query(mk_case("query", lines, feats, query=q, no_shrink=True), db, feats, rows, res)
    # the distinct lists and counts follow the content through a history on ONE FeatureDB object ----------------------
    for hi in range(15 if not ctx.thorough else 150):
        feats = rand_set(r, r.randrange(4, 15))
        lines = lines_of(feats)
        path = dbside.write_lines(os.path.join(ctx.scratch, "c11h.gff3"), lines)
        db, rep = dbside.py_create(path, dbside.Cfg())
        if db is None:
            continue
        alive = list(feats)
        steps = []
        check_lists(mk_case("history", lines, feats, history=[]), db, alive, "after import", res)
        for _ in range(r.randrange(1, 4)):
            if not alive:
                break
            k = r.random()
            if k < 0.6:
                t = r.choice(sorted(set(f["ftype"] for f in alive)))
                step = ["delete", t, r.choice(["ids", "features"])]
            else:
                step = ["update", {"id": "new%d" % len(steps), "seqid": r.choice(["chrNew", "chr1"]), "source": "a",
                                   "ftype": r.choice(["novel", "gene"]), "start": "5", "end": "9", "score": ".",
                                   "strand": "+", "frame": ".", "extra": [], "note": "a"}]
                if k > 0.8:
                    step = ["failed_update", dict(step[1], id="half%d" % len(steps)), r.choice(alive)["id"]]
                    res.count("history_step_failed_update")
            alive, desc = apply_step(ctx, db, step, alive)
            steps.append(step)
            check_lists(mk_case("history", lines, feats, history=list(steps)), db, alive, "after " + desc, res)
        res.count("histories")

    out = ctx.model(cmds)
    if out is not None:
        cur_rows = None
        for c, m, e, (comp, inp) in zip(cmds, out, exp, tags):
            res.corr_checked += 1
            if isinstance(e, tuple):
                _, ids, cols, reverse, rws = e
                mids = [dec(x) for x in m[3:].split(",") if x != "_"] if m.startswith("ok ") else None
                if mids is None or sorted(mids) != sorted(ids):
                    res.corr_disagreements.append((comp, inp[:900], m[:300], enc_list(ids)))
                elif not in_sql_order([tuple(keyfun(rws[i], c) for c in cols) for i in mids], reverse):
                    # the model's sequence must itself be in ORDER BY order (all terms ascending, DESC on the last one)
                    res.corr_disagreements.append((comp + " (order of the model's result)", inp[:900], m[:300], enc_list(ids)))
                continue            # order within ties is unspecified by SQL: multiset + each side's sortedness
            if e.startswith("SET "):
                m = "SET " + enc_list(sorted(dec(x) for x in m[3:].split(",") if x != "_")) if m.startswith("ok ") else m
            if m != e:
                res.corr_disagreements.append((comp, inp[:900], m[:300], e[:300]))
    res.assumptions = ["descending order is claimed for a single order_by column only (for several columns DESC binds to "
                       "the last term, as the SQL says)", "order among ties is unspecified"]
    # the SQL text layer (GffModel/Sql.lean): the text and arguments make_query / _relation / region hand to sqlite are the
    # rendering of the model's AST, and its textbook evaluation returns what sqlite returns (correspondence only)
    import sqltext
    sqltext.run_sqltext(ctx, res)
    common.shrink_first_failure(res, lambda case: judge(ctx, case))
    return res


def replay(ctx, payload):
    return common.replay_failure("C11", payload, lambda case: judge(ctx, case))
