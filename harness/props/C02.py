"""C02 - GFF3 hierarchy: children/parents are exactly the Parent graph, two levels deep.

correspondence: create_db + relations table + children()/parents() vs the Lean model (Create.populateGff,
updateRelationsGff, Interface.runRelation), end-to-end (the model imports the same text).
oracle (real code only): set algebra on the Parent attributes of the lines.
"""
import os

import common
import dbside
import gen_db
from common import enc, dec
from pyside import enc_list

TRUSTED = ["sqlite: PRIMARY KEY / INSERT OR IGNORE on relations, JOIN ... DISTINCT (modelled in GffModel/Db.lean, "
           "Interface.lean; validated by the correspondence)"]
LEANCHECKER_MODULES = ["GffProofs.Props.C02"]


def graph_oracle(nodes):
    """expected relations from the Parent attributes: stored = ids; lvl1[x] = {y | x in Parent(y)} (x may be dangling)"""
    stored = {x["id"] for x in nodes}
    lvl1 = {}
    for y in nodes:
        for p in set(y["parents"]):
            lvl1.setdefault(p, set()).add(y["id"])
    lvl2 = {}
    for x in stored:
        s = set()
        for y in lvl1.get(x, ()):
            s |= lvl1.get(y, set())
        if s:
            lvl2[x] = s
    return stored, lvl1, lvl2


def acyclic2(nodes):
    """no feature is its own ancestor within two steps (the property's DAG domain)"""
    stored, lvl1, lvl2 = graph_oracle(nodes)
    return all(x not in lvl1.get(x, ()) and x not in lvl2.get(x, ()) for x in stored)


CFG = dbside.Cfg()

# GFF3 percent-encoding of attribute values: the characters with a meaning in column 9 (and '%' itself, and control
# characters) MUST be written %XX in the file; any other character MAY be.  The parser decodes every value once: from
# then on the decoded text is the id.
GFF3_RESERVED = "%;=&,"


def q3(s, form=None):
    """the text `s` as it is written in a GFF3 attribute value.  form None / "min": only what must be encoded;
    "full": every character that is not a letter or digit; "lower": like "min" with lower-case hex digits"""
    out = []
    for ch in s:
        if ch in GFF3_RESERVED or ord(ch) < 32 or ord(ch) == 127 or (form == "full" and not ch.isalnum()):
            out.append(("%%%02x" if form == "lower" else "%%%02X") % ord(ch))
        else:
            out.append(ch)
    return "".join(out)


# pieces of STORED ids: literal percent signs followed by two hex digits (an id that an upstream tool percent-encoded
# once and that is kept verbatim: written %25XX in the file), percent signs not followed by hex digits, and the
# characters GFF3 reserves (written %3B, %2C, %3D, %26 in the file), space, colon
ID_TOKENS = ["%3A", "%3B", "%2C", "%25", "%41", "%7e", "%2541", "%3D", "%26", "%20", "%09", "%", "%%", "%G1", "%4",
             ";", ",", "=", "&", " ", " x ", ":", ";,=&", "%3A%3B"]


def special_ids(r, nodes):
    """the same graph with ids (stored features and, sometimes, the dangling Parent values) that contain reserved
    characters / literal percent sequences; every node gets an "idform" (how its line writes the values).  Sometimes an
    unrelated root feature is added whose id is what decoding such an id ONCE MORE would give."""
    from urllib.parse import unquote
    names = {}
    for x in nodes:
        for i in [x["id"]] + list(x["parents"]):
            if i in names:
                continue
            if (i.startswith("ghost") and r.random() < 0.6) or r.random() < 0.25:
                names[i] = i
                continue
            tok = r.choice(ID_TOKENS)
            new = r.choice([i + tok, tok + i, i[:1] + tok + i[1:]])
            if new != new.strip():
                new = i[:1] + tok + i[1:]
            if r.random() < 0.2:
                new += r.choice(ID_TOKENS).strip() or "%"
            names[i] = new
    if len(set(names.values())) != len(names):
        return nodes
    out = [dict(x, id=names[x["id"]], parents=[names[p] for p in x["parents"]],
                idform=r.choice([None, None, "full", "lower"])) for x in nodes]
    taken = set(names.values())
    twins = [unquote(v) for v in names.values() if unquote(v) != v and unquote(v) == unquote(v).strip()
             and "\t" not in unquote(v) and unquote(v) not in taken]
    if twins and r.random() < 0.35:
        t = r.choice(sorted(twins))
        out.insert(r.randrange(len(out) + 1),
                   {"id": t, "level": 0, "parents": [], "ftype": "gene", "seqid": "chr2", "start": 7000, "end": 7100,
                    "strand": "+", "idform": None})
    return out


def styled_lines(nodes):
    """the lines of a graph whose nodes may carry a notation: "dbx" = None | "first" | "last" (a Dbxref attribute with
    two values written with REPEATED KEYS, Dbxref=a;Dbxref=b, before or after the Parent attribute - enough of them in
    the inspection window make 'repeated keys' the file's dialect) and "pform" = "comma" | "repeated" (Parent=a,b or
    Parent=a;Parent=b).  Both notations are legal GFF3 and may be mixed in one file; nodes without these keys are
    written as gen_db.graph_lines writes them.  "id" and "parents" are the texts the parser hands out (the stored id):
    the line holds them percent-encoded (q3, "idform")."""
    out = []
    for i, x in enumerate(nodes):
        form = x.get("idform")
        parts = ["ID=%s" % q3(x["id"], form)]
        dbx = ["Dbxref=FB:%s" % q3(x["id"], form), "Dbxref=GI:%s" % q3(x["id"], form)]
        if x.get("dbx") == "first":
            parts += dbx
        if x["parents"]:
            if x.get("pform") == "repeated":
                parts += ["Parent=%s" % q3(p, form) for p in x["parents"]]
            else:
                parts.append("Parent=%s" % ",".join(q3(p, form) for p in x["parents"]))
        if x.get("dbx") == "last":
            parts += dbx
        out.append("\t".join([x["seqid"], "src", x["ftype"], str(x["start"]), str(x["end"]), ".", x["strand"], ".",
                              ";".join(parts)]))
    return out


def rand_notation(r, nodes):
    """mixed notation: most (or, sometimes, few) lines carry a repeated-key Dbxref; Parent lists mostly in the comma
    form"""
    pd = r.choice([0.9, 0.9, 0.75, 0.3])
    return [dict(x, dbx=(r.choice(["first", "last"]) if r.random() < pd else None),
                 pform=("repeated" if r.random() < 0.25 else "comma")) for x in nodes]


def mk_case(scenario, lines, nodes, **kw):
    """a self-contained case: the lines in the order they are imported, the generator's node of every line, the
    configuration; scenario arguments in kw"""
    return dict({"scenario": scenario, "input": list(lines), "records": list(nodes), "parallel": ["records"],
                 "config": CFG.to_json()}, **kw)


def in_domain(nodes):
    ids = [x["id"] for x in nodes]
    return len(set(ids)) == len(ids) and acyclic2(nodes)


def import_lines(ctx, lines, cfg, name="g.gff3", header=True, form="text"):
    """form 'gz_crlf': the same lines in a gzip file with CR LF line ends (gzip hands out bytes lines; no universal-newline
    translation); form 'escape_switch': imported while constants.ignore_url_escape_characters is True (used for files
    without any '%', on which the switch must not matter)"""
    all_lines = (["##gff-version 3"] if header else []) + list(lines)
    if form == "gz_crlf":
        import gzip
        path = os.path.join(ctx.scratch, name + ".gz")
        with gzip.open(path, "wb") as fh:
            fh.write("".join(l + "\r\n" for l in all_lines).encode("utf-8"))
        return dbside.py_create(path, cfg)
    path = dbside.write_lines(os.path.join(ctx.scratch, name), all_lines)
    if form == "escape_switch":
        import gffutils
        old = gffutils.constants.ignore_url_escape_characters
        gffutils.constants.ignore_url_escape_characters = True
        try:
            return dbside.py_create(path, cfg)
        finally:
            gffutils.constants.ignore_url_escape_characters = old
    return dbside.py_create(path, cfg)


def check_created(case, db, rep, res):
    if db is None:
        common.fail(res, case, "create_db_raised",
                    "create_db raised on a GFF3 graph (dangling parents must be harmless): " + rep,
                    error=rep, observed=rep, expected="ok")
        return False
    return True


def check_db(db, nodes, res, case):
    """children()/parents() at every level for every stored id and two absent ids, against the Parent graph"""
    stored, lvl1, lvl2 = graph_oracle(nodes)
    try:
        all_ids = [f.id for f in db.all_features()]
    except Exception as ex:
        common.fail(res, case, "all_features_raised",
                    "all_features raised %r" % ex, error=dbside.err_name(ex), observed=repr(ex))
        return
    if sorted(all_ids) != sorted(stored):
        common.fail(res, case, "stored_features_differ",
                    "stored features are not exactly the input lines (phantom or missing feature)",
                    observed=sorted(all_ids), expected=sorted(stored))
        return
    for x in sorted(stored) + ["ghost0", "nonexistent"]:
        want = {1: lvl1.get(x, set()) & stored, 2: lvl2.get(x, set()) if x in stored else set()}
        want[None] = want[1] | want[2]
        for level in (1, 2, None):
            try:
                got = [f.id for f in db.children(x, level=level)]
            except Exception as ex:
                common.fail(res, case, "children_raised", "children(%r, level=%r) raised %r" % (x, level, ex),
                            error=dbside.err_name(ex), id=x, level=level, observed=repr(ex))
                continue
            res.evaluations += 1
            if len(got) != len(set(got)):
                common.fail(res, case, "children_duplicate",
                            "children(%r, level=%r) returns a feature more than once" % (x, level),
                            id=x, level=level, observed=got)
            elif set(got) != want[level]:
                common.fail(res, case, "children_not_parent_graph",
                            "children(%r, level=%r) is not the Parent graph" % (x, level),
                            id=x, level=level, observed=sorted(got), expected=sorted(want[level]))
            if x in got:
                common.fail(res, case, "own_child", "%r is its own child" % x, id=x, level=level, observed=got)
        # parents: exact inverse
        if x in stored:
            for level in (1, 2, None):
                inv = set()
                for p in stored:
                    s1 = lvl1.get(p, set()); s2 = lvl2.get(p, set())
                    s = s1 if level == 1 else s2 if level == 2 else (s1 | s2)
                    if x in s:
                        inv.add(p)
                got = [f.id for f in db.parents(x, level=level)]
                res.evaluations += 1
                if len(got) != len(set(got)) or set(got) != inv:
                    common.fail(res, case, "parents_not_inverse",
                                "parents(%r, level=%r) is not the inverse of children" % (x, level),
                                id=x, level=level, observed=sorted(got), expected=sorted(inv))


def check_pending(db, nodes, res, case):
    """several children()/parents() results requested BEFORE any of them is iterated (kids, folks = db.children(x),
    db.parents(y); a dict of pending iterators; zip of two): each still yields the relatives of ITS id"""
    stored, lvl1, lvl2 = graph_oracle(nodes)
    ids = sorted(stored)
    if len(ids) < 2:
        return
    def inv(x):
        return {p for p in stored if x in (lvl1.get(p, set()) | lvl2.get(p, set()))}
    asks = []
    for i, x in enumerate(ids[:6]):
        if i % 2 == 0:
            asks.append(("children", x, (lvl1.get(x, set()) & stored) | lvl2.get(x, set())))
        else:
            asks.append(("parents", x, inv(x)))
    try:
        pending = [(kind, x, want, getattr(db, kind)(x)) for kind, x, want in asks]      # nothing iterated yet
        results = [(kind, x, want, [f.id for f in it]) for kind, x, want, it in reversed(pending)]
    except Exception as ex:
        common.fail(res, case, "children_raised", "pending children()/parents() iterators raised %r" % ex,
                    error=dbside.err_name(ex), observed=repr(ex))
        return
    res.evaluations += 1
    for kind, x, want, got in results:
        if set(got) != want or len(got) != len(set(got)):
            common.fail(res, case, "pending_iterators_mixed_up",
                        "%s(%r), requested together with other children()/parents() results before any of them was iterated, "
                        "does not yield the relatives of %r" % (kind, x, x), id=x, observed=sorted(got), expected=sorted(want))
            return


def check_order(case, rels, other_rels, res):
    """the relation set of the lines in this order against that of the same lines in the order given by the ranks"""
    if rels != other_rels:
        common.fail(res, case, "relations_depend_on_order", "the relation set depends on the order of the lines",
                    observed=[list(x) for x in rels], expected=[list(x) for x in other_rels])


def check_children_args(case, db, nodes, res):
    """children(id, featuretype=, order_by='start', reverse=)"""
    stored, lvl1, lvl2 = graph_oracle(nodes)
    x, ft, rev = case["id"], case["featuretype"], case["reverse"]
    got = [f.id for f in db.children(x, featuretype=ft, order_by="start", reverse=rev)]
    want = [y for y in (lvl1.get(x, set()) & stored) | lvl2.get(x, set())]
    byid = {n["id"]: n for n in nodes}
    if ft is not None:
        fts = [ft] if isinstance(ft, str) else ft
        want = [y for y in want if byid[y]["ftype"] in fts]
    keys = [byid[y]["start"] for y in got if y in byid]
    if sorted(got) != sorted(want) or keys != sorted(keys, reverse=rev):
        common.fail(res, case, "children_args_wrong",
                    "children(featuretype=%r, order_by='start', reverse=%r) wrong" % (ft, rev),
                    observed=got, observed_starts=keys, expected_set=sorted(want))
    res.evaluations += 1


EXTRA_LINE = "chrZ\tsrc\tregion\t1\t2\t.\t+\t.\tID=zz_extra"


def check_create_update(ctx, case, nodes, res, draw_extra=None):
    """the same graph reached through create_db of the phase-0 lines + update of the phase-1 lines (+ optionally a
    further update with one unrelated line): relations are recomputed on a table that already holds level-2 rows.
    "extra" is drawn (draw_extra) once the first update went through, as the run always did, and recorded in the case."""
    lines = case["input"]
    first = [l for l, ph in zip(lines, case["phase"]) if ph == 0]
    rest = [l for l, ph in zip(lines, case["phase"]) if ph == 1]
    if not first or not rest or first + rest != list(lines):
        return
    cfg = dbside.Cfg.from_json(case["config"])
    dbu, repu = import_lines(ctx, first, cfg, "g1.gff3", header=False)
    if dbu is None:
        return
    p2 = dbside.write_lines(os.path.join(ctx.scratch, "g2.gff3"), rest)
    try:
        dbu.update(p2, make_backup=False, **cfg.update_kwargs())
        if "extra" not in case:
            case["extra"] = draw_extra() if draw_extra else False
        if case["extra"]:
            dbu.update(dbside.write_lines(os.path.join(ctx.scratch, "g3.gff3"), [EXTRA_LINE]),
                       make_backup=False, **cfg.update_kwargs())
            nodes_u = list(nodes) + [{"id": "zz_extra", "parents": [], "ftype": "region", "level": 0}]
        else:
            nodes_u = nodes
        check_db(dbu, nodes_u, res, case)
    except Exception as ex:
        common.fail(res, case, "update_raised", "update raised %r" % ex, error=dbside.err_name(ex), observed=repr(ex))


def draw_readd(r, nodes):
    """a stored LEAF (no stored feature names it) that has parents, and other Parent values to file it under again:
    earlier features of a shallower level, a dangling value, or none.  returns (victim id, new parents) or None"""
    stored, lvl1, lvl2 = graph_oracle(nodes)
    leaves = [x for x in nodes if x["parents"] and not lvl1.get(x["id"])]
    if not leaves:
        return None
    x = r.choice(leaves)
    cands = [y["id"] for y in nodes if y["level"] < x["level"] and y["id"] not in x["parents"]]
    new = r.sample(cands, min(len(cands), r.choice([1, 1, 2]))) if cands else []
    if r.random() < 0.2:
        new.append("ghost7")
    if r.random() < 0.15:
        new = []
    return x["id"], new


def readd_nodes(case, nodes):
    """(the victim's node, the nodes after the victim was deleted, the nodes after it was filed again under the other
    Parent values, the line that files it again) - None when the victim is not a leaf of this input"""
    stored, lvl1, lvl2 = graph_oracle(nodes)
    v = [x for x in nodes if x["id"] == case["victim"]]
    if len(v) != 1 or lvl1.get(case["victim"]):
        return None
    v = v[0]
    without = [x for x in nodes if x is not v]
    again = dict(v, parents=list(case["new_parents"]), dbx=None, pform="comma")
    return v, without, without + [again], styled_lines([again])[0]


def check_delete_readd(ctx, case, nodes, res, db=None):
    """history: import, delete a leaf (by id or as Feature object), update() filing the same id again under other
    Parent values.  After every step children()/parents() are the Parent graph of what is stored.  (Only leaves are
    deleted: the level-2 rows that passed THROUGH a deleted inner feature are outside this property.)
    returns (db, the line of the update) when the history went through"""
    rn = readd_nodes(case, nodes)
    if rn is None:
        return None
    v, without, after, line = rn
    if not in_domain(after):
        return None
    cfg = dbside.Cfg.from_json(case["config"])
    if db is None:
        db, rep = import_lines(ctx, case["input"], cfg, "gd.gff3")
        if db is None:
            return None
    try:
        db.delete(db[v["id"]] if case["delete_by"] == "feature" else v["id"], make_backup=False)
        check_db(db, without, res, dict(case, step="after delete"))
        db.update(dbside.write_lines(os.path.join(ctx.scratch, "gd2.gff3"), [line]), make_backup=False,
                  **cfg.update_kwargs())
        check_db(db, after, res, dict(case, step="after update"))
    except Exception as ex:
        common.fail(res, case, "delete_update_raised", "delete + update raised %r" % ex, error=dbside.err_name(ex),
                    observed=repr(ex))
        return None
    return db, line


def check_iter(case, db, nodes, res):
    stored, lvl1, lvl2 = graph_oracle(nodes)
    for unit in db.iter_by_parent_childs(featuretype="gene"):
        p = unit[0].id
        kids = sorted(f.id for f in unit[1:])
        want = sorted((lvl1.get(p, set()) & stored) | lvl2.get(p, set()))
        if kids != want:
            common.fail(res, case, "iter_by_parent_childs_wrong",
                        "iter_by_parent_childs yields wrong children for %r" % p,
                        id=p, observed=kids, expected=want)


def judge(ctx, case):
    """rebuild the case and run the oracle(s) of its scenario on the real code; a fresh Result"""
    res = common.Result("C02")
    lines, nodes = case["input"], case["records"]
    if len(lines) != len(nodes) or not in_domain(nodes):
        return res
    cfg = dbside.Cfg.from_json(case["config"])
    sc = case["scenario"]
    if sc == "create_update":
        check_create_update(ctx, dict(case), nodes, res)
        return res
    if sc == "delete_readd":
        check_delete_readd(ctx, case, nodes, res)
        return res
    db, rep = import_lines(ctx, lines, cfg, form=case.get("input_form", "text"))
    if not check_created(case, db, rep, res):
        return res
    if sc == "import":
        check_db(db, nodes, res, case)
    elif sc == "order_independence":
        rank = case["rank"]
        other = [lines[j] for j in sorted(range(len(lines)), key=lambda j: rank[j])]
        db2, rep2 = import_lines(ctx, other, cfg, "go.gff3")
        if db2 is not None:
            check_order(case, sorted(dbside.rels_of(db)), sorted(dbside.rels_of(db2)), res)
    elif sc == "pending_iterators":
        check_pending(db, nodes, res, case)
    elif sc == "children_args":
        check_children_args(case, db, nodes, res)
    elif sc == "iter_by_parent_childs":
        check_iter(case, db, nodes, res)
    return res


def run(ctx):
    import gffutils
    res = common.Result("C02")
    r = ctx.rng("c02")
    rs = ctx.rng("c02", "notation")
    rd = ctx.rng("c02", "delete_readd")
    ri = ctx.rng("c02", "ids with reserved characters")
    res.rule = ("GFF3 DAGs with unique IDs: depth <= 4, 0-3 Parent values per feature (shared children, repeated and "
                "dangling Parent values), lines in every permutation (<= 6 lines) or random shuffles; children/parents at "
                "level 1, 2, None for every stored id and two absent ids; featuretype/order_by/reverse arguments; "
                "iter_by_parent_childs; 40% of the graphs in mixed notation (repeated-key Dbxref on most lines, Parent "
                "lists in the comma form or as repeated keys); history import -> delete a leaf -> update() filing it under "
                "other Parent values; 35% of the graphs with ids (and Parent values) holding literal percent sequences "
                "('gene%3A7', written ID=gene%253A7), bare '%', and the reserved characters ; , = & (written %3B %2C %3D "
                "%26), space, colon - minimally, fully or lower-case percent-encoded in the file - now and then next to an "
                "unrelated feature whose id is the once-more-decoded text; one ordering of every graph is read from a gzip file with "
                "CR LF line ends or (no '%' in the file) under constants.ignore_url_escape_characters=True. "
                "non-trivial = distinct graph with >= 1 level-2 relation")
    cmds, exp, tags = [], [], []
    ngraphs = 150 if not ctx.thorough else 900      # 900 graphs (was 1000): the thorough tier sits at its ~10 min budget
    cfg = CFG
    for gi in range(ngraphs):
        nodes = gen_db.rand_gff3_graph(r, n=r.choice([1, 2, 3, 4, 5, 6, 6, 8, 11, 15]))
        if not acyclic2(nodes):
            continue
        if ri.random() < 0.35:
            nodes = special_ids(ri, nodes)
            if any("idform" in x for x in nodes):
                res.count("ids_with_reserved_characters")
                if any(__import__("re").search("%[0-9A-Fa-f]{2}", x["id"]) for x in nodes):
                    res.count("ids_with_literal_percent_hex")
        stored, lvl1, lvl2 = graph_oracle(nodes)
        mixed = rs.random() < 0.4
        if mixed:
            # both GFF3 notations of a multi-valued attribute in one file (repeated-key Dbxref, comma-form Parent)
            nodes = rand_notation(rs, nodes)
            res.count("mixed_notation")
        base_lines = styled_lines(nodes)
        orders = gen_db.permutations_or_sample(r, list(range(len(nodes))), limit=120 if not ctx.thorough else 720,
                                               nsample=4)
        if len(nodes) > 4 and not ctx.thorough:
            orders = orders[:: max(1, len(orders) // 12)]
        first_rel = None
        pos0 = {bi: k for k, bi in enumerate(orders[0])}
        for oi, order in enumerate(orders):
            lines = [base_lines[i] for i in order]
            onodes = [nodes[i] for i in order]
            # the second ordering of every graph is read in another input form: a gzip file with CR LF line ends, or
            # (files without '%' only) under the ignore_url_escape_characters switch
            form = "text"
            if oi == 1:
                form = "gz_crlf" if gi % 2 == 0 else ("escape_switch" if not any("%" in l for l in lines) else "text")
                res.count("import_form_" + form)
            db, rep = import_lines(ctx, lines, cfg, form=form)
            res.evaluations += 1
            if not check_created(mk_case("import", lines, onodes, permutation=oi, input_form=form), db, rep, res):
                continue
            rels = sorted(dbside.rels_of(db))
            if first_rel is None:
                first_rel = rels
            else:
                check_order(mk_case("order_independence", lines, onodes, rank=[pos0[i] for i in order],
                                    parallel=["records", "rank"]), rels, first_rel, res)
            if oi < 3 or oi == len(orders) - 1:
                check_db(db, onodes, res, mk_case("import", lines, onodes, permutation=oi, input_form=form))
            if oi == 0:
                check_pending(db, onodes, res, mk_case("pending_iterators", lines, onodes))
            if oi == 0:
                if lvl2:
                    res.nontriv(tuple(base_lines))
                res.count("nodes_%d" % len(nodes))
                if len(res.samples) < 3:
                    res.sample({"lines": lines})
                # correspondence end-to-end: import + dump + relation queries
                cmds.append(dbside.cmd_create(["##gff-version 3"] + lines, cfg)); exp.append(rep)
                tags.append(("create_db (GFF3)", repr(lines)))
                cmds.append("dump"); exp.append(dbside.dump(db)); tags.append(("tables after import", repr(lines)))
                ids = sorted(stored)
                for x in ids[:6] + ["ghost0"]:
                    for level in (None, 1, 2):
                        for kind in ("children", "parents"):
                            got = sorted(f.id for f in getattr(db, kind)(x, level=level))
                            cmds.append("rel %s %s %s %s" % (kind, enc(x), "~" if level is None else level,
                                                             dbside.cmd_query()))
                            exp.append("SET " + enc_list(got)); tags.append(("%s(level=%r)" % (kind, level), repr((lines, x))))
                # arguments: featuretype / order_by / reverse
                for x in ids[:3]:
                    ft = r.choice(["exon", "mRNA", ["exon", "CDS"], None])
                    rev = r.random() < 0.5
                    check_children_args(mk_case("children_args", lines, onodes, id=x, featuretype=ft, reverse=rev),
                                        db, onodes, res)
                # the same graph reached through create_db of a prefix + update of the rest (relations are
                # recomputed on a table that already holds level-2 rows)
                if len(lines) >= 2:
                    cut = r.randrange(1, len(lines))
                    check_create_update(ctx, mk_case("create_update", lines, onodes, parallel=["records", "phase"],
                                                     phase=[0] * cut + [1] * (len(lines) - cut)),
                                        onodes, res, draw_extra=lambda: r.random() < 0.5)
                # ... and split by role: first every feature that NAMES a parent (all their top-level parents are dangling
                # then), afterwards one update() whose batch holds only the Parent-less features (the missing genes)
                withp = [k for k, x in enumerate(onodes) if x["parents"]]
                nop = [k for k, x in enumerate(onodes) if not x["parents"]]
                if withp and nop:
                    idx = withp + nop
                    check_create_update(ctx, mk_case("create_update", [lines[k] for k in idx], [onodes[k] for k in idx],
                                                     parallel=["records", "phase"], phase=[0] * len(withp) + [1] * len(nop),
                                                     extra=False),
                                        [onodes[k] for k in idx], res)
                    res.count("create_then_update_with_parentless_batch")
                # iter_by_parent_childs
                check_iter(mk_case("iter_by_parent_childs", lines, onodes), db, onodes, res)
                if db.dialect["repeated keys"] and any(len(set(x["parents"])) > 1 and x.get("pform") != "repeated"
                                                       for x in onodes):
                    res.count("repeated_keys_dialect_with_comma_multiparent")
                # history: delete a leaf, update() files the same id again under other Parent values (last use of db)
                dr = draw_readd(rd, onodes) if gi % (2 if not ctx.thorough else 4) == 0 else None
                if dr is not None:
                    dcase = mk_case("delete_readd", lines, onodes, victim=dr[0], new_parents=dr[1],
                                    delete_by=rd.choice(["id", "feature"]))
                    done = check_delete_readd(ctx, dcase, onodes, res, db=db)
                    res.count("delete_readd")
                    if done is not None:
                        cmds.append(dbside.cmd_create(["##gff-version 3"] + lines, cfg)); exp.append(rep)
                        tags.append(("create_db (GFF3)", repr(lines)))
                        cmds.append("delete " + enc_list([dr[0]])); exp.append("ok"); tags.append(("delete", repr((lines, dr[0]))))
                        cmds.append(dbside.cmd_update([done[1]], cfg)); exp.append("ok")
                        tags.append(("update", repr((lines, done[1]))))
                        cmds.append("dump"); exp.append(dbside.dump(done[0]))
                        tags.append(("tables after delete + update", repr((lines, dr[0], done[1]))))
    # one LARGE file per run: 40 genes x 6 mRNAs x 5 exons (1200 grandchild pairs, 1480 lines), lines shuffled: the whole
    # relation table against the Parent graph (oracle only)
    rb = ctx.rng("c02", "large graph")
    big = []
    for g in range(40 if not ctx.thorough else 90):
        big.append({"id": "G%d" % g, "parents": [], "ftype": "gene", "level": 0})
        for m_ in range(6):
            big.append({"id": "G%dm%d" % (g, m_), "parents": ["G%d" % g], "ftype": "mRNA", "level": 1})
            for e_ in range(5):
                big.append({"id": "G%dm%de%d" % (g, m_, e_), "parents": ["G%dm%d" % (g, m_)], "ftype": "exon", "level": 2})
    for k, x in enumerate(big):
        x.update(seqid="chr1", start=10 * k + 1, end=10 * k + 8, strand="+")
    rb.shuffle(big)
    bdb, brep = import_lines(ctx, gen_db.graph_lines(big), cfg, "big.gff3")
    res.evaluations += 1
    res.count("large_graph_%d_lines" % len(big))
    if bdb is None:
        res.oracle_failures.append(("create_db raised on a large GFF3 graph: " + brep, {"lines": len(big)}))
    else:
        bstored, bl1, bl2 = graph_oracle(big)
        want_rels = {(p_, c_, 1) for p_, cs_ in bl1.items() for c_ in cs_ if p_ in bstored} | \
                    {(p_, c_, 2) for p_, cs_ in bl2.items() for c_ in cs_}
        got_rels = set(dbside.rels_of(bdb))
        if got_rels != want_rels:
            miss = sorted(want_rels - got_rels)[:5]
            extra = sorted(got_rels - want_rels)[:5]
            res.oracle_failures.append(("the relation table of a large GFF3 file (%d lines, %d grandchild pairs) is not the "
                                        "Parent graph" % (len(big), sum(1 for x in want_rels if x[2] == 2)),
                                        {"missing": miss, "unexpected": extra, "n_missing": len(want_rels - got_rels),
                                         "n_unexpected": len(got_rels - want_rels)}))
    out = ctx.model(cmds)
    if out is not None:
        for c, m, e, (comp, inp) in zip(cmds, out, exp, tags):
            res.corr_checked += 1
            if e.startswith("SET "):
                m = "SET " + enc_list(sorted(dec(x) for x in m[3:].split(",") if x != "_")) if m.startswith("ok ") else m
            if m != e:
                res.corr_disagreements.append((comp, inp[:800], m[:800], e[:800]))
    res.assumptions = ["IDs are unique, free of tab / line breaks and of leading/trailing whitespace (the importer passes ids "
                       "through a tab-separated temp file); reserved characters are written percent-encoded in the file", "no feature is its own ancestor within two steps"]
    common.shrink_first_failure(res, lambda case: judge(ctx, case))
    return res


def replay(ctx, payload):
    return common.replay_failure("C02", payload, lambda case: judge(ctx, case))
