"""C02 - GFF3 hierarchy: children/parents are exactly the Parent graph, two levels deep.

correspondence: create_db + relations table + children()/parents() vs the Lean model (Create.populateGff,
updateRelationsGff, Interface.runRelation), end-to-end (the model imports the same text).
oracle (real code only): set algebra on the Parent attributes of the lines.
"""
import os

import common
import dbside
import gen_db
from common import enc, dec
from pyside import enc_list

TRUSTED = ["sqlite: PRIMARY KEY / INSERT OR IGNORE on relations, JOIN ... DISTINCT (modelled in GffModel/Db.lean, "
           "Interface.lean; validated by the correspondence)"]
LEANCHECKER_MODULES = ["GffProofs.Props.C02"]


def graph_oracle(nodes):
    """expected relations from the Parent attributes: stored = ids; lvl1[x] = {y | x in Parent(y)} (x may be dangling)"""
    stored = {x["id"] for x in nodes}
    lvl1 = {}
    for y in nodes:
        for p in set(y["parents"]):
            lvl1.setdefault(p, set()).add(y["id"])
    lvl2 = {}
    for x in stored:
        s = set()
        for y in lvl1.get(x, ()):
            s |= lvl1.get(y, set())
        if s:
            lvl2[x] = s
    return stored, lvl1, lvl2


def acyclic2(nodes):
    """no feature is its own ancestor within two steps (the property's DAG domain)"""
    stored, lvl1, lvl2 = graph_oracle(nodes)
    return all(x not in lvl1.get(x, ()) and x not in lvl2.get(x, ()) for x in stored)


def check_db(db, nodes, res, lines, what):
    stored, lvl1, lvl2 = graph_oracle(nodes)
    bytype = {x["id"]: x for x in nodes}
    try:
        all_ids = [f.id for f in db.all_features()]
    except Exception as ex:
        res.oracle_failures.append(("all_features raised %r" % ex, {"lines": lines}))
        return
    if sorted(all_ids) != sorted(stored):
        res.oracle_failures.append(("stored features are not exactly the input lines (phantom or missing feature)",
                                    {"lines": lines, "stored": sorted(all_ids)}))
        return
    for x in sorted(stored) + ["ghost0", "nonexistent"]:
        want = {1: lvl1.get(x, set()) & stored, 2: lvl2.get(x, set()) if x in stored else set()}
        want[None] = want[1] | want[2]
        for level in (1, 2, None):
            try:
                got = [f.id for f in db.children(x, level=level)]
            except Exception as ex:
                res.oracle_failures.append(("children(%r, level=%r) raised %r" % (x, level, ex), {"lines": lines}))
                continue
            res.evaluations += 1
            if len(got) != len(set(got)):
                res.oracle_failures.append(("children(%r, level=%r) returns a feature more than once" % (x, level),
                                            {"lines": lines, "returned": got, "scenario": what}))
            elif set(got) != want[level]:
                res.oracle_failures.append(("children(%r, level=%r) is not the Parent graph" % (x, level),
                                            {"lines": lines, "returned": sorted(got), "expected": sorted(want[level]),
                                             "scenario": what}))
            if x in got:
                res.oracle_failures.append(("%r is its own child" % x, {"lines": lines}))
        # parents: exact inverse
        if x in stored:
            for level in (1, 2, None):
                inv = set()
                for p in stored:
                    s1 = lvl1.get(p, set()); s2 = lvl2.get(p, set())
                    s = s1 if level == 1 else s2 if level == 2 else (s1 | s2)
                    if x in s:
                        inv.add(p)
                got = [f.id for f in db.parents(x, level=level)]
                res.evaluations += 1
                if len(got) != len(set(got)) or set(got) != inv:
                    res.oracle_failures.append(("parents(%r, level=%r) is not the inverse of children" % (x, level),
                                                {"lines": lines, "returned": sorted(got), "expected": sorted(inv),
                                                 "scenario": what}))


def run(ctx):
    import gffutils
    res = common.Result("C02")
    r = ctx.rng("c02")
    res.rule = ("GFF3 DAGs with unique IDs: depth <= 4, 0-3 Parent values per feature (shared children, repeated and "
                "dangling Parent values), lines in every permutation (<= 6 lines) or random shuffles; children/parents at "
                "level 1, 2, None for every stored id and two absent ids; featuretype/order_by/reverse arguments; "
                "iter_by_parent_childs. non-trivial = distinct graph with >= 1 level-2 relation")
    cmds, exp, tags = [], [], []
    ngraphs = 150 if not ctx.thorough else 1000
    cfg = dbside.Cfg()
    for gi in range(ngraphs):
        nodes = gen_db.rand_gff3_graph(r, n=r.choice([1, 2, 3, 4, 5, 6, 6, 8, 11, 15]))
        if not acyclic2(nodes):
            continue
        stored, lvl1, lvl2 = graph_oracle(nodes)
        base_lines = gen_db.graph_lines(nodes)
        orders = gen_db.permutations_or_sample(r, list(range(len(nodes))), limit=120 if not ctx.thorough else 720,
                                               nsample=4)
        if len(nodes) > 4 and not ctx.thorough:
            orders = orders[:: max(1, len(orders) // 12)]
        first_rel = None
        for oi, order in enumerate(orders):
            lines = [base_lines[i] for i in order]
            path = dbside.write_lines(os.path.join(ctx.scratch, "g.gff3"), ["##gff-version 3"] + lines)
            db, rep = dbside.py_create(path, cfg)
            res.evaluations += 1
            if db is None:
                res.oracle_failures.append(("create_db raised on a GFF3 graph (dangling parents must be harmless): " + rep,
                                            {"lines": lines}))
                continue
            rels = sorted(dbside.rels_of(db))
            if first_rel is None:
                first_rel = rels
            elif rels != first_rel:
                res.oracle_failures.append(("the relation set depends on the order of the lines",
                                            {"lines": lines, "relations": rels, "relations_other_order": first_rel}))
            if oi < 3 or oi == len(orders) - 1:
                check_db(db, nodes, res, lines, "permutation %d" % oi)
            if oi == 0:
                if lvl2:
                    res.nontriv(tuple(base_lines))
                res.count("nodes_%d" % len(nodes))
                if len(res.samples) < 3:
                    res.sample({"lines": lines})
                # correspondence end-to-end: import + dump + relation queries
                cmds.append(dbside.cmd_create(["##gff-version 3"] + lines, cfg)); exp.append(rep)
                tags.append(("create_db (GFF3)", repr(lines)))
                cmds.append("dump"); exp.append(dbside.dump(db)); tags.append(("tables after import", repr(lines)))
                ids = sorted(stored)
                for x in ids[:6] + ["ghost0"]:
                    for level in (None, 1, 2):
                        for kind in ("children", "parents"):
                            got = sorted(f.id for f in getattr(db, kind)(x, level=level))
                            cmds.append("rel %s %s %s %s" % (kind, enc(x), "~" if level is None else level,
                                                             dbside.cmd_query()))
                            exp.append("SET " + enc_list(got)); tags.append(("%s(level=%r)" % (kind, level), repr((lines, x))))
                # arguments: featuretype / order_by / reverse
                for x in ids[:3]:
                    ft = r.choice(["exon", "mRNA", ["exon", "CDS"], None])
                    rev = r.random() < 0.5
                    got = [f.id for f in db.children(x, featuretype=ft, order_by="start", reverse=rev)]
                    want = [y for y in (lvl1.get(x, set()) & stored) | lvl2.get(x, set())]
                    byid = {n["id"]: n for n in nodes}
                    if ft is not None:
                        fts = [ft] if isinstance(ft, str) else ft
                        want = [y for y in want if byid[y]["ftype"] in fts]
                    keys = [byid[y]["start"] for y in got]
                    if sorted(got) != sorted(want) or keys != sorted(keys, reverse=rev):
                        res.oracle_failures.append(("children(featuretype=%r, order_by='start', reverse=%r) wrong" % (ft, rev),
                                                    {"lines": lines, "id": x, "returned": got, "expected_set": sorted(want)}))
                    res.evaluations += 1
                # the same graph reached through create_db of a prefix + update of the rest (relations are
                # recomputed on a table that already holds level-2 rows)
                if len(lines) >= 2:
                    cut = r.randrange(1, len(lines))
                    p1 = dbside.write_lines(os.path.join(ctx.scratch, "g1.gff3"), lines[:cut])
                    p2 = dbside.write_lines(os.path.join(ctx.scratch, "g2.gff3"), lines[cut:])
                    dbu, repu = dbside.py_create(p1, cfg)
                    if dbu is not None:
                        try:
                            dbu.update(p2, make_backup=False, **cfg.update_kwargs())
                            if r.random() < 0.5:
                                dbu.update(dbside.write_lines(os.path.join(ctx.scratch, "g3.gff3"),
                                                             ["chrZ\tsrc\tregion\t1\t2\t.\t+\t.\tID=zz_extra"]),
                                           make_backup=False, **cfg.update_kwargs())
                                nodes_u = nodes + [{"id": "zz_extra", "parents": [], "ftype": "region", "level": 0}]
                            else:
                                nodes_u = nodes
                            check_db(dbu, nodes_u, res, lines, "create_db(first %d lines) + update(rest)" % cut)
                        except Exception as ex:
                            res.oracle_failures.append(("update raised %r" % ex, {"lines": lines, "cut": cut}))
                # iter_by_parent_childs
                for unit in db.iter_by_parent_childs(featuretype="gene"):
                    p = unit[0].id
                    kids = sorted(f.id for f in unit[1:])
                    want = sorted((lvl1.get(p, set()) & stored) | lvl2.get(p, set()))
                    if kids != want:
                        res.oracle_failures.append(("iter_by_parent_childs yields wrong children for %r" % p,
                                                    {"lines": lines, "returned": kids, "expected": want}))
    out = ctx.model(cmds)
    if out is not None:
        for c, m, e, (comp, inp) in zip(cmds, out, exp, tags):
            res.corr_checked += 1
            if e.startswith("SET "):
                m = "SET " + enc_list(sorted(dec(x) for x in m[3:].split(",") if x != "_")) if m.startswith("ok ") else m
            if m != e:
                res.corr_disagreements.append((comp, inp[:800], m[:800], e[:800]))
    res.assumptions = ["IDs are unique, free of tab and of leading/trailing whitespace (the importer passes ids through a "
                       "tab-separated temp file)", "no feature is its own ancestor within two steps"]
    return res


def replay(ctx, payload):
    res = common.Result("C02")
    print("replay:", payload.get("what"), payload.get("input", {}).get("lines"))
    return res
