"""C07 - parsing a line and printing it reproduces the line in every consistent dialect.

correspondence: feature_from_line / str(Feature) / _split_keyvals vs the Lean model on (a) rendered line
specifications over every dialect combination, (b) a malformed stream (exhaustive short strings over the
structural alphabet, random longer ones), (c) the repository's own annotation files.
oracle (real code only): for specs the model's decidable WF accepts - columns, decoded mapping in order,
byte-identical print with keep_order=True; for WFspaces - strict=False parse of the space rendering equals
the tab parse.
"""
import itertools

import common
import gen_spec
import parser_common as pc
import pyside
from common import dec, enc

TRUSTED = ["Python str.split/strip/isspace/splitlines, int(), re \\w, urllib.parse.unquote are modelled "
           "(GffModel/Str.lean, Quote.lean, generated WordTable.lean) and validated by the correspondence"]
LEANCHECKER_MODULES = ["GffProofs.Props.C07"]


def dimension_specs(r):
    """every combination of separator x trailing x style x quoted x repeated with a few attribute shapes"""
    out = []
    shapes = [
        [("ID", ["a"]), ("Name", ["b", "c"]), ("flag", [])],
        [("gene_id", ["g1"]), ("transcript_id", ["t 1", "t2"]), ("Note", ["x"])],
        [("ID", ["a;b=c,d&e%f"]), ("k1", ["\tq", "r\n"])],
        [("ID", ["a"]), ("Name", ["b"])],
    ]
    for sep, tr, style, q, rep, sh in itertools.product(gen_spec.SEPS, [False, True], ["eq", "space"], [False, True],
                                                        [False, True], range(len(shapes))):
        s = gen_spec.Spec()
        s.mode = "dimension"
        s.sep, s.trailing, s.style, s.quoted, s.repeated = sep, tr, style, q, rep
        fmt = "gtf" if (style == "space" and q) else "gff3"
        attrs = []
        for k, vals in shapes[sh]:
            if fmt == "gtf":
                vals = [v.translate({ord(c): "_" for c in ';,"\t\n'}) for v in vals]
            attrs.append((k, list(vals)))
        s.attrs = attrs
        s.cols = gen_spec.rand_cols(r)
        s.extra = [] if sh % 2 else ["x", ""]
        out.append(s)
    return out


def extra_column_specs(r):
    """trailing extra columns whose text happens to be a JSON document (or is empty): exactly one such column, and such a
    column among several, under a few attribute styles.  A column is text: the parsed `extra` is the list of the column
    texts and the printed line is the input line"""
    out = []
    texts = gen_spec.EXTRA_POOL + [" 7 ", " ", "[1, 2]", '{"ID":["a"]}', "1.0", "-0", "nul", "tru", '"', "[", "1 2"]
    shapes = [("eq", False, ";", [("ID", ["g1"]), ("Name", ["abc"])]),
              ("space", True, "; ", [("gene_id", ["g1"]), ("transcript_id", ["t1"])]),
              ("eq", False, ";", [])]
    for t in texts:
        for extra in ([t], [t, "x"], ["x", t], [t, t], [t, ""], ["", t], [t, "12", "null"]):
            for style, q, sep, attrs in (shapes if len(extra) == 1 else [r.choice(shapes)]):
                s = gen_spec.Spec()
                s.mode = "extra_columns"
                s.sep, s.trailing, s.style, s.quoted, s.repeated = sep, False, style, q, False
                s.attrs = [(k, list(v)) for k, v in attrs]
                s.cols = gen_spec.rand_cols(r)
                s.extra = list(extra)
                out.append(s)
    return out


def safe_impl_line(line, dialect, strict, keep):
    """pyside.impl_line, also when the parsed Feature cannot be rendered in the protocol (e.g. `extra` is not a list)"""
    try:
        return pyside.impl_line(line, dialect, strict, keep)
    except Exception as ex:
        return "unrenderable " + type(ex).__name__


def feature_cols(f):
    return [f.seqid, f.source, f.featuretype, "." if f.start is None else str(f.start),
            "." if f.end is None else str(f.end), f.score, f.strand, f.frame]


def oracle_spec(s, row):
    """property C07 on the real code for one in-domain spec; returns None or a description"""
    from gffutils.feature import feature_from_line
    line = row["line"]
    try:
        f = feature_from_line(line, keep_order=True)
    except Exception as ex:
        return "feature_from_line raised %r" % ex
    if feature_cols(f) != list(s.cols):
        return "columns differ: %r" % (feature_cols(f),)
    if not isinstance(f.extra, list) or f.extra != list(s.extra):
        return "extra columns differ: %r" % (f.extra,)
    got = [(k, list(v)) for k, v in f.attributes._d.items()]
    if got != [(k, list(v)) for k, v in s.attrs]:
        return "decoded attribute mapping differs: %r" % (got,)
    try:
        printed = str(f)
    except Exception as ex:
        return "printing raised %r" % ex
    if printed != line:
        return "printed line differs: %r" % printed
    # the parsed Feature is the caller's: editing its value lists / extra columns in place must not change what parsing
    # the same line again gives
    for v in f.attributes._d.values():
        v.append("edited-in-place")
    f.extra.append("edited-in-place")
    try:
        again = str(feature_from_line(line, keep_order=True))
    except Exception as ex:
        return "parsing the same line again raised %r" % ex
    if again != line:
        return "the same line parsed again, after the first Feature was edited in place, prints differently: %r" % again
    return None


def oracle_spaces(row):
    from gffutils.feature import feature_from_line
    try:
        a = feature_from_line(row["line"], strict=True)
        b = feature_from_line(row["spaces"], strict=False)
    except Exception as ex:
        return "raised %r" % ex
    if not (a == b and feature_cols(a) == feature_cols(b) and a.attributes._d == b.attributes._d
            and a.dialect == b.dialect and a.extra == b.extra):
        return "strict=False parse of the space rendering differs from the tab parse: %r vs %r" % (str(b), str(a))
    return None


def run(ctx):
    res = common.Result("C07")
    r = ctx.rng("specs")
    res.rule = ("line specifications (8 columns, separator, trailing semicolon, k=v / k v, quoting, repeated keys vs "
                "comma lists, 0-6 attributes with 0-3 values, flags, reserved/Unicode characters, 0-3 extra columns) "
                "rendered by the model's writer; judged by the oracle when the model's decidable WF holds; plus 20% "
                "perturbed specs, the malformed stream and the repository data files (correspondence only). "
                "non-trivial = distinct WF line with >= 1 attribute")
    res.constants_checked = pc.parser_constants(ctx, res)
    # history: a line with every reserved character printed once while constants.ignore_url_escape_characters is on,
    # then the switch goes back to its default - everything below runs under the default and must not be affected
    # (this runs FIRST, so the reserved characters are met for the first time while the switch is on)
    from gffutils import constants, parser as _parser
    from gffutils.feature import feature_from_line as _ffl
    try:
        constants.ignore_url_escape_characters = True
        raw = "".join(c for c in sorted(getattr(_parser, "_to_quote", "%;=&,")) if c not in "\t\n\r;=,")
        str(_ffl("c\ts\tt\t1\t2\t.\t+\t.\tID=a" + raw + "b;Note=x%y&z", keep_order=True))
    except Exception:
        pass
    finally:
        constants.ignore_url_escape_characters = False
    n = 6000 if not ctx.thorough else 80000
    specs = dimension_specs(r) + extra_column_specs(r) + [gen_spec.rand_spec(r, valid=(i % 5 != 0)) for i in range(n)]
    rows = pc.run_specs(ctx, specs)
    cmds, exp, tags = [], [], []
    for i, s in enumerate(specs):
        row = rows[i] if rows is not None else None
        if rows is not None and row is None:
            res.corr_disagreements.append(("protocol", s.cmd()[:200], "bad-op", "spec"))
            continue
        if row is None:
            row = {"wf": s.mode != "perturbed", "wfs": False, "line": pc.py_wf_render(s), "spaces": "",
                   "mapping": None, "dialect": None}
        res.evaluations += 1
        res.count("mode_" + s.mode)
        res.count("style_%s_q%d_rep%d_sep%d_tr%d" % (s.style, s.quoted, s.repeated, gen_spec.SEPS.index(s.sep)
                                                    if s.sep in gen_spec.SEPS else 9, s.trailing))
        if row["wf"]:
            res.count("wf")
            if s.attrs:
                res.nontriv(row["line"])
            why = oracle_spec(s, row)
            if why:
                res.oracle_failures.append((why, {"line": row["line"], "spec": s.as_dict()}))
            if len(res.samples) < 4:
                res.sample({"wf_line": row["line"]})
        if row["wfs"]:
            res.count("wf_spaces")
            why = oracle_spaces(row)
            if why:
                res.oracle_failures.append((why, {"line": row["line"], "spaces": row["spaces"]}))
            cmds.append(pyside.cmd_line(row["spaces"], None, False, False))
            exp.append(safe_impl_line(row["spaces"], None, False, False))
            tags.append(("feature_from_line(strict=False)", row["spaces"]))
        cmds.append(pyside.cmd_line(row["line"], None, True, True))
        exp.append(safe_impl_line(row["line"], None, True, True))
        tags.append(("feature_from_line+str", row["line"]))
        if s.extra and (s.mode == "extra_columns" or i % 4 == 0):
            # the tab form under strict=False (the line is stripped first, then split at tabs): correspondence only
            cmds.append(pyside.cmd_line(row["line"], None, False, True))
            exp.append(safe_impl_line(row["line"], None, False, True))
            tags.append(("feature_from_line(strict=False, tab form with extra columns)", row["line"]))
        if s.extra:
            res.count("extra_columns_%d%s" % (len(s.extra), "_jsonlike" if any(x in gen_spec.JSON_EXTRA for x in s.extra) else ""))
        if row["wf"] and row["mapping"] is not None:
            # the theorem's instance on the model itself (cannot fail while the theorems check)
            cmds.append(pyside.cmd_split(row["line"].split("\t")[8]))
            exp.append("ok %s %s" % (row["mapping"], row["dialect"]))
            tags.append(("theorem instance infer_render (model vs statement)", row["line"]))

    # malformed stream --------------------------------------------------------------------------
    maxlen = 5 if not ctx.thorough else 6
    for s in gen_spec.exhaustive_strings(';=," %a1 ', maxlen):
        cmds.append(pyside.cmd_split(s))
        exp.append(pyside.impl_split(s))
        tags.append(("_split_keyvals (infer)", s))
        res.count("malformed_exhaustive")
    alph = list(';=," %\tab1_ é中') + ["%3B", "%2c", "%C3%A9", "%zz", "; ", " ; ", '""', "ID=", "gene_id "]
    for i in range(20000 if not ctx.thorough else 200000):
        s = "".join(r.choice(alph) for _ in range(r.randrange(0, 16)))
        if i % 3 == 0:
            line = "\t".join(gen_spec.rand_cols(r, wild=True)[: r.choice([8, 8, 8, 5, 3])] + [s] +
                             ["x"] * r.choice([0, 0, 1, 2])) + r.choice(["", "\n", "\r\n"])
            strict = r.random() < 0.7
            if not strict and r.random() < 0.5:
                line = line.replace("\t", " ")
            cmds.append(pyside.cmd_line(line, None, strict, True))
            exp.append(safe_impl_line(line, None, strict, True))
            tags.append(("feature_from_line (malformed)", line))
        else:
            cmds.append(pyside.cmd_split(s))
            exp.append(pyside.impl_split(s))
            tags.append(("_split_keyvals (infer, random)", s))
        res.count("malformed_random")
    # repository data files -----------------------------------------------------------------------
    for l in pc.data_file_lines(400 if not ctx.thorough else 100000):
        cmds.append(pyside.cmd_line(l, None, True, True))
        exp.append(safe_impl_line(l, None, True, True))
        tags.append(("feature_from_line (data file)", l))
        res.count("data_file_lines")
    res.evaluations += len(cmds)
    out = ctx.model(cmds)
    if out is not None:
        for c, m, e, (comp, inp) in zip(cmds, out, exp, tags):
            res.corr_checked += 1
            if m != e:
                res.corr_disagreements.append((comp, inp, m[:600], e[:600]))
    res.assumptions = ["well-formedness (theorem domain) is decided by the model (GffModel.Grammar.LineSpec.WF) and "
                       "the same predicate selects the cases the oracle judges",
                       "lone surrogates and non-ASCII digits in coordinates are outside the domain"]
    return res


def replay(ctx, payload):
    res = common.Result("C07")
    i = payload.get("input", {})
    why = None
    if "spec" in i and "line" in i:
        why = oracle_spec(gen_spec.Spec.from_dict(i["spec"]), {"line": i["line"]})
    elif "spaces" in i and "line" in i:
        why = oracle_spaces(i)
    elif "line" in i:
        from gffutils.feature import feature_from_line
        try:
            printed = str(feature_from_line(i["line"], keep_order=True))
            why = None if printed == i["line"] else "printed line differs: %r" % printed
        except Exception as ex:
            why = "parsing / printing raised %r" % ex
    else:
        print("replay: no line in this file")
        return res
    res.evaluations = 1
    print("replay: line=%r\n        %s (%s)" % (i["line"], why or "the property holds on this line", common.repo_dir()))
    if why:
        res.oracle_failures.append((why, i))
    return res
