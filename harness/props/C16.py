"""C16 - merge() computes the interval union and partitions its inputs  (feature-list part).

correspondence: `FeatureDB.merge(list_of_Feature_objects, criteria)` vs `GffModel.Merge.merge` (driver command
`merge`, lean/GffModel/ProtoMerge.lean): every yielded object (columns, attributes, id, bin, file_order, dialect,
printed line, children), the exception name, and `db._autoincrements` afterwards.  The `source` of a merged
output is ",".join(set(...)) - hash order - and is compared as a set.

oracle (real code only, written from the property text): partition by object identity, span, fresh distinct
ids, greedy segmentation by the criteria against an independently accumulated run, sweep-line union per class
(default criteria, class-grouped start-ordered input), inputs' columns/attributes unchanged, database unchanged
(sqlite total_changes), second run on the same objects gives the same result, and previously used objects
behave like fresh ones (D9).

two-stage merges (`chain_case`): the outputs of one merge() - incl. the multi-member ones - are merged again and every
clause is judged on the second call (oracle only: a multi-member object cannot be written in the `merge` command).

database-backed clauses: `children_bp` (exons on one or both strands, level-1 and level-2 children, children related to the
parent at level 1 AND level 2 (`Parent=t,g`), default criteria and criteria without mc.strand; `judge_children_bp`,
replayable) and `merge_all` (`judge_merge_all`, replayable: databases that also hold textually identical lines without an
ID attribute - distinct features exon_1 / exon_2 - inside multi-member runs; tables afterwards and the returned list,
compared with the model as a SEQUENCE of ids; command `bp` / `mergeall`).
"""
import itertools
import types

import common
import featlist as FL
import pyside

TRUSTED = [
    "Python object identity / vars(): modelled by the optional `children` field of an input object; the inputs of one "
    "call are assumed to be pairwise distinct objects",
    "set() iteration order (source of a merged output) is not modelled: compared as a set of comma-separated parts",
    "Feature.__init__ / feature_from_line (C07/C08 models) build the input objects on both sides from the same GFF line",
]
TRANSLATION_TIE = "criteria"        # vcheck: harness/gentie.py (merge_criteria.py translated to CritExpr data, proved equal to the model)
LEANCHECKER_MODULES = ["GffProofs.Props.C16"]

# The Lean model has both copy steps: the current one (TypeError on an object that carries `children`, defect D9)
# and the repaired one (`current_merged.pop("children", None)`).  The correspondence is run against the model of
# the code AS IT IS; flip this to True once interface.py is repaired.
MODEL_D9_FIXED = True

NPOS = 8
SHIPPED = (["seqid", "strand", "ftype", "exact", "endinc", "startinc", "anyinc"]
           + ["%s:%d" % (k, t) for k in ("endthr", "startthr", "anythr") for t in range(4)])
REFLEXIVE_CUSTOM = ["max3", "samescore", "always"]


# ---------------------------------------------------------------------------------------------------
# generators

def all_intervals(npos=NPOS):
    return [(s, e) for s in range(1, npos + 1) for e in range(s, npos + 1)]


def multisets(k, npos=NPOS):
    """start-ordered multisets of k intervals (sorted by (start, end))"""
    return itertools.combinations_with_replacement(all_intervals(npos), k)


def items_of(ivs, cls=None, r=None, decorate=False):
    """ivs: list of (start, end); cls: list of (seqid, strand, ftype) or None"""
    out = []
    for i, (s, e) in enumerate(ivs):
        seqid, strand, ftype = cls[i] if cls else ("c1", "+", "exon")
        if decorate and r is not None:
            line = FL.gff_line(seqid, s, e, strand, ftype, r.choice(["s", "s", "t", "u"]), r.choice([".", ".", "7"]),
                               r.choice([".", ".", "0", "2"]),
                               r.choice(["", "ID=f%d" % i, "ID=f%d;Parent=p,q" % i, "Name=n%d" % i]),
                               r.choice([(), (), ("x1",)]))
            out.append(FL.Item(line, r.choice([None, None, "k%d" % i]), r.choice([None, None, i + 3])))
        else:
            out.append(FL.Item(FL.gff_line(seqid, s, e, strand, ftype, attrs="ID=f%d" % i)))
    return out


# ---------------------------------------------------------------------------------------------------
# oracle (independent of the model)

def snapshot(objs):
    snap = []
    for f in objs:
        v = dict(vars(f))
        v.pop("children", None)
        a = f.attributes
        snap.append((str(f), {k: list(a[k]) for k in a.keys()},
                     tuple((k, repr(v[k])) for k in sorted(v) if k != "attributes")))
    return snap


def seg_of(outs, objs):
    """segmentation of the inputs by the outputs: tuple of tuples of input positions (by identity); None if
    some output is not accounted for by identity"""
    pos = {}
    for i, f in enumerate(objs):
        pos.setdefault(id(f), []).append(i)
    used = {}
    seg = []
    for o in outs:
        kids = list(getattr(o, "children", ()))
        members = kids if kids else [o]
        idx = []
        for m in members:
            lst = pos.get(id(m))
            if not lst:
                return None
            n = used.get(id(m), 0)
            if n >= len(lst):
                return None
            used[id(m)] = n + 1
            idx.append(lst[n])
        seg.append(tuple(idx))
    return tuple(seg)


def reference_runs(objs, crits):
    """greedy segmentation from the property text: a feature joins the current run exactly when every criterion
    accepts (run so far, feature, members); the run so far is accumulated HERE (first member's class columns, min
    start, max end)"""
    runs = []
    acc, members = None, []
    for i, f in enumerate(objs):
        if acc is not None and all(c(acc, f, [objs[j] for j in members]) for c in crits):
            members.append(i)
            acc.start = min(acc.start, f.start)
            acc.end = max(acc.end, f.end)
            acc.stop = acc.end
        else:
            if acc is not None:
                runs.append(tuple(members))
            acc = types.SimpleNamespace(seqid=f.seqid, strand=f.strand, featuretype=f.featuretype, start=f.start,
                                        end=f.end, stop=f.end, score=f.score, frame=f.frame, source=f.source)
            members = [i]
    if acc is not None:
        runs.append(tuple(members))
    return tuple(runs)


def union_per_class(objs):
    """sweep-line union of the intervals of each class, classes in order of first appearance"""
    classes = {}
    for f in objs:
        classes.setdefault((f.seqid, f.strand, f.featuretype), []).append((f.start, f.end))
    out = []
    for cls, ivs in classes.items():
        ivs.sort()
        cur = None
        for s, e in ivs:
            if cur is not None and s <= cur[1] + 1:
                cur[1] = max(cur[1], e)
            else:
                if cur is not None:
                    out.append((cls, cur[0], cur[1]))
                cur = [s, e]
        if cur is not None:
            out.append((cls, cur[0], cur[1]))
    return out


def summary(outs):
    """what `same result` means between two runs: extents, class columns, children (by identity), source set -
    everything but the fresh ids"""
    return [(o.seqid, o.start, o.end, o.strand, o.featuretype, o.frame, o.score,
             tuple(sorted(o.source.split(","))) if getattr(o, "children", ()) else o.source,
             tuple(id(k) for k in getattr(o, "children", ()))) for o in outs]


class Session:
    """one FeatureDB, the ids it has issued, and the bookkeeping of a stream of merge calls"""

    def __init__(self, res):
        self.db = FL.new_db()
        self.zoo = FL.criteria_zoo()
        self.issued = set()
        self.res = res
        self.cmds, self.exp, self.tags = [], [], []
        self.changes0 = self.db.conn.total_changes

    def call(self, items, objs, names, corr=True):
        ai = dict(self.db._autoincrements)
        if corr:
            self.cmds.append(FL.cmd_merge(self.db, names, ai, items, objs, d9fixed=MODEL_D9_FIXED))
        outs, err = FL.run_merge(self.db, objs, names, self.zoo)
        if corr:
            self.exp.append(FL.enc_merge_reply(self.db, outs, err))
            self.tags.append({"criteria": names, "autoincrements": ai, "features": [it.as_json() for it in items],
                              "children_attr": [("children" in vars(f)) for f in objs]})
        return outs, err

    def judge(self, items, objs, names, outs, err, before, payload, union=False, greedy=True):
        """the clauses of the property on one call of the real code"""
        res = self.res
        fails = []
        if err:
            fails.append("merge raised %s on proper intervals" % err)
            return fails
        for o in outs:
            if any(o is f for f in objs) and len(getattr(o, "children", ())) != 0:
                # an input that comes back on its own must carry NO children - also when it is itself the multi-member
                # output of an earlier merge() (quantifier: "fresh or previously merged feature objects")
                fails.append("an input yielded on its own (%s %s-%s) still carries %d children of an earlier merge()"
                             % (o.id, o.start, o.end, len(o.children)))
                return fails
        seg = seg_of(outs, objs)
        if seg is None or sorted(i for run in seg for i in run) != list(range(len(objs))):
            fails.append("outputs do not partition the inputs (each input yielded alone or child of exactly one "
                         "merged output): %r" % (seg,))
            return fails
        for o, run in zip(outs, seg):
            kids = list(getattr(o, "children", ()))
            if kids:
                if len(kids) < 2:
                    fails.append("merged output with fewer than two children")
                if o.start != min(k.start for k in kids) or o.end != max(k.end for k in kids):
                    fails.append("merged output %d-%d does not span min start .. max end of its children" %
                                 (o.start, o.end))
                if o.id is None or o.id in self.issued:
                    fails.append("merged output id %r is not fresh" % (o.id,))
                self.issued.add(o.id)
                if list(o.attributes.get("ID", [])) != [o.id]:
                    fails.append("merged output ID attribute %r differs from its id %r" % (o.attributes.get("ID"), o.id))
                if set(o.source.split(",")) != set(",".join(k.source for k in kids).split(",")):
                    fails.append("merged output source %r is not the set of its children's sources" % o.source)
            else:
                if not any(o is f for f in objs):
                    fails.append("a single output is not one of the input objects")
        if greedy:
            want = reference_runs(objs, [FL.crit_of(n, self.zoo) for n in names])
            if seg != want:
                fails.append("segmentation %r differs from the greedy reference %r" % (seg, want))
        if union:
            got = [((o.seqid, o.strand, o.featuretype), o.start, o.end) for o in outs]
            want = union_per_class(objs)
            if got != want:
                fails.append("extents %r are not the maximal runs per class %r" % (got, want))
            for a, b in zip(got, got[1:]):
                if a[0] == b[0] and not (a[2] + 1 < b[1]):
                    fails.append("outputs of one class are not separated by at least one base")
        after = snapshot(objs)
        if after != before:
            fails.append("an input's columns or attributes changed")
        return fails

    def flush(self, ctx):
        res = self.res
        if self.db.conn.total_changes != self.changes0:
            res.oracle_failures.append(("merge() wrote to the database", {"total_changes": self.db.conn.total_changes}))
        out = ctx.model(self.cmds) if self.cmds else None
        if out is not None:
            for c, m, e, tag in zip(self.cmds, out, self.exp, self.tags):
                res.corr_checked += 1
                if FL.canon_merge_reply(m) != FL.canon_merge_reply(e):
                    res.corr_disagreements.append(("FeatureDB.merge", tag, m[:1500], e[:1500]))
        self.cmds, self.exp, self.tags = [], [], []


def one_case(ses, items, names, payload, union=False, rerun=True, corr=True, corr_rerun=False, other=None):
    """first call on fresh objects, oracle, second call on the same objects, optionally a third call with other
    criteria compared with fresh objects"""
    res = ses.res
    objs = [it.build() for it in items]
    before = snapshot(objs)
    outs, err = ses.call(items, objs, names, corr=corr)
    res.evaluations += 1
    fails = ses.judge(items, objs, names, outs, err, before, payload, union=union)
    for w in fails:
        res.oracle_failures.append((w, payload))
    if err or fails:
        return
    if rerun:
        first = summary(outs)
        outs2, err2 = ses.call(items, objs, names, corr=corr_rerun)
        res.evaluations += 1
        if err2:
            res.oracle_failures.append(("merging the same objects again raised %s" % err2,
                                        dict(payload, second_run="same criteria")))
        else:
            if summary(outs2) != first:
                res.oracle_failures.append(("merging the same objects again gives a different result",
                                            dict(payload, second_run="same criteria")))
            if snapshot(objs) != before:
                res.oracle_failures.append(("an input's columns or attributes changed in the second run", payload))
            for o in outs2:
                if getattr(o, "children", ()):
                    if o.id in ses.issued:
                        res.oracle_failures.append(("second run re-used id %r" % o.id, payload))
                    ses.issued.add(o.id)
    if other is not None:
        # previously used objects must behave like fresh ones (quantifier: "fresh or previously merged objects")
        fresh = [it.build() for it in items]
        outs_f, err_f = FL.run_merge(ses.db, fresh, other, ses.zoo)
        outs_u, err_u = ses.call(items, objs, other, corr=True)
        res.evaluations += 1
        res.count("reused_objects_other_criteria")
        if err_f is None:
            pf = dict(payload, then_criteria=other,
                      note="the same objects were first merged with `criteria`, then with `then_criteria`")
            if err_u:
                res.oracle_failures.append(("objects left by an earlier merge() raise %s where fresh objects merge "
                                            "(vars() carries `children`)" % err_u, pf))
            else:
                su = [t[:8] + (len(t[8]),) for t in summary(outs_u)]
                sf = [t[:8] + (len(t[8]),) for t in summary(outs_f)]
                if su != sf:
                    res.oracle_failures.append(("objects left by an earlier merge() merge differently from fresh ones",
                                                pf))


def chain_case(ses, items, names, then_names, payload, union=False):
    """two-stage merge: the OUTPUTS of merge(objs, names) - input objects that stayed alone AND the fresh multi-member
    outputs - are the inputs of merge(outputs, then_names).  The property's clauses are judged on the second call
    exactly as on a first one (partition by identity: an output that stays alone comes back unchanged with no
    children; span; fresh ids; greedy segmentation; inputs unchanged; same result when repeated).  A multi-member
    output cannot be written in the `merge` protocol command (an item is a GFF line): oracle only."""
    res = ses.res
    objs = [it.build() for it in items]
    outs1, err1 = ses.call(items, objs, names, corr=False)
    if err1 or not outs1:
        return
    for o in outs1:
        if getattr(o, "children", ()):
            ses.issued.add(o.id)
    if any("," in o.seqid for o in outs1):        # criteria without `seqid`: comma seqids are outside the domain
        return
    p = dict(payload, then_on_outputs=then_names,
             note="the outputs of merge(features, criteria) were merged again with `then_on_outputs`")
    multi = set(id(o) for o in outs1 if getattr(o, "children", ()))      # the multi-member outputs of the first stage
    before = snapshot(outs1)
    outs2, err2 = ses.call(None, outs1, then_names, corr=False)
    res.evaluations += 1
    res.count("chain_second_stage")
    fails = ses.judge(None, outs1, then_names, outs2, err2, before, p, union=union)
    for w in fails:
        res.oracle_failures.append(("second-stage merge of the outputs of a merge: " + w, p))
    if err2 or fails:
        return
    alone = sum(1 for o in outs2 if id(o) in multi)
    if alone:
        res.count("chain_multi_member_output_stays_alone", alone)
        res.nontriv(("chain", tuple(names), tuple(then_names), tuple(it.line for it in items)))
    first = summary(outs2)
    outs3, err3 = ses.call(None, outs1, then_names, corr=False)
    res.evaluations += 1
    if err3:
        res.oracle_failures.append(("second-stage merge: merging the same objects again raised %s" % err3, p))
    elif summary(outs3) != first:
        res.oracle_failures.append(("second-stage merge: merging the same objects again gives a different result", p))
    elif snapshot(outs1) != before:
        res.oracle_failures.append(("second-stage merge: an input's columns or attributes changed in the second run", p))
    else:
        for o in outs3:
            if getattr(o, "children", ()):
                ses.issued.add(o.id)


# ---------------------------------------------------------------------------------------------------
# children_bp (database-backed clause): one case = one imported file + the generator's record of the exons

def union_size(ivs):
    covered = set()
    for iv in ivs:
        covered.update(range(iv[0], iv[1] + 1))
    return len(covered)


def judge_children_bp(ctx, res, case):
    """`children_bp(parent, "exon")` for every parent of the case (the transcript; the gene above it, whose exons are
    level-2 children): merge=False = summed child lengths; merge=True = size of the union - under the default criteria
    when the exons lie on one strand, under criteria WITHOUT mc.strand (seqid, overlap_end_inclusive, feature_type) on
    one or two strands.  Default criteria on two strands merge per strand over a start-ordered mixed stream: not a
    union, compared with the model only.  Returns the observations for the correspondence."""
    import os
    import dbside
    from gffutils import merge_criteria as mc
    lines, exons = case["input"], [tuple(x) for x in case["exons"]]
    path = dbside.write_lines(os.path.join(ctx.scratch, "bp.gff3"), lines)
    db, rep = dbside.py_create(path, dbside.Cfg())
    if db is None:
        return None
    obs = {"db": db, "create": rep, "bp": []}
    one_strand = len(set(x[2] for x in exons)) <= 1
    total, union = sum(b - a + 1 for a, b, _ in exons), union_size(exons)
    nostrand = [mc.seqid, mc.overlap_end_inclusive, mc.feature_type]
    for parent in case["parents"]:
        for label, kw, want in (("merge=False", dict(merge=False), total),
                                ("merge=True", dict(merge=True), union if one_strand else None),
                                ("merge=True, merge_criteria without mc.strand",
                                 dict(merge=True, merge_criteria=nostrand), union)):
            try:
                got = db.children_bp(parent, child_featuretype="exon", **kw)
            except Exception as ex:
                common.fail(res, case, "children_bp_raised", "children_bp(%r, %s) raised %r" % (parent, label, ex),
                            error=pyside.err_name(ex), parent=parent, arguments=label)
                continue
            if "merge_criteria" not in kw:
                obs["bp"].append((parent, kw["merge"], got))
            if want is not None and got != want:
                common.fail(res, case, "children_bp_wrong",
                            "children_bp(%r, 'exon', %s) is not the %s" % (
                                parent, label, "summed child lengths" if not kw["merge"] else
                                "size of the union of the children"),
                            parent=parent, arguments=label, returned=got, expected=want)
    return obs


def runs_of(ivs):
    """maximal runs of overlapping-or-adjacent intervals: list of (start, end, members)"""
    out = []
    for a, b, name in sorted(ivs):
        if out and a <= out[-1][1] + 1:
            out[-1][1] = max(out[-1][1], b)
            out[-1][2].append(name)
        else:
            out.append([a, b, [name]])
    return out


def judge_merge_all(ctx, res, case):
    """`merge_all(exclude_components=...)` on a fresh import of the case's lines: one new stored feature per multi-member
    run of a class (seqid, featuretype, strand), same class and extent as the run; EVERY member (by primary key - two
    features with textually identical lines and no ID attribute are two members, exon_1 / exon_2) is related to it at
    level 1 and still stored, or (exclude_components=True) deleted; nothing else is added or removed.  Returns the
    observations for the correspondence (None when the import or merge_all raised)."""
    import os
    import warnings
    import dbside
    lines, exclude = case["input"], bool(case["exclude_components"])
    path = dbside.write_lines(os.path.join(ctx.scratch, "ma.gff3"), lines)
    db2, rep = dbside.py_create(path, dbside.Cfg())
    if db2 is None:
        return None
    before = {str(x["id"]): x for x in dbside.rows_of(db2)}
    try:
        with warnings.catch_warnings():
            warnings.simplefilter("ignore")
            # an empty featuretypes_groups means the default single group (interface.py L1741-1743)
            merged = db2.merge_all(exclude_components=exclude, **({"featuretypes_groups": ()} if exclude else {}))
    except Exception as ex:
        common.fail(res, case, "merge_all_raised", "merge_all raised %r" % ex, error=pyside.err_name(ex))
        return None
    after = {str(x["id"]): x for x in dbside.rows_of(db2)}
    rels = set(dbside.rels_of(db2))
    # expected runs per class (seqid, featuretype, strand)
    classes = {}
    for k, x in before.items():
        classes.setdefault((x["seqid"], x["featuretype"], x["strand"]), []).append((x["start"], x["end"], k))
    exp_runs = [run for ivs in classes.values() for run in runs_of(ivs) if len(run[2]) > 1]
    new = {k: x for k, x in after.items() if k not in before}
    ok = len(new) == len(exp_runs) == len(merged)
    left_out = []
    for a, b, members in exp_runs:
        # the stored feature of this run: same class (seqid, featuretype, strand) as its members, same extent
        m0 = before[members[0]]
        cand = [k for k, x in new.items() if (x["start"], x["end"]) == (a, b) and
                (x["seqid"], x["featuretype"], x["strand"]) == (m0["seqid"], m0["featuretype"], m0["strand"])]
        if not cand:
            ok = False
            continue
        mid = cand[0]
        for m_ in members:
            if exclude:
                good = m_ not in after
            else:
                good = (mid, m_, 1) in rels and m_ in after
            if not good:
                left_out.append([mid, m_])
            ok = ok and good
    if not exclude:
        ok = ok and all(k in after for k in before)
    if not ok:
        common.fail(res, case, "merge_all_wrong",
                    "merge_all does not store one new feature per multi-member run and relate its members at level 1 "
                    "(or delete them with exclude_components)", new=sorted(new),
                    expected_runs=[(a, b, m_) for a, b, m_ in exp_runs],
                    members_neither_related_nor_deleted=left_out, remaining=sorted(after))
    return {"db": db2, "create": rep, "merged": merged, "before": before}


MA_ORDER = ("seqid", "featuretype", "strand", "start")


def judge_merge_all_criteria(ctx, res, case):
    """merge_all with merge criteria that OMIT mc.strand (or use another overlap rule) on files that mix strands: its runs
    are those merge() builds from the features that were in the database when it was called, in merge_all's order; one
    new stored feature per multi-member run, related to exactly its members.  Judged against merge() on a second,
    untouched import of the same lines (merge() itself is judged against the greedy reference elsewhere)."""
    import os
    import warnings
    import dbside
    from gffutils import merge_criteria as mc
    crit = {"no_strand": (mc.seqid, mc.overlap_end_inclusive, mc.feature_type),
            "any_no_strand": (mc.seqid, mc.overlap_any_inclusive, mc.feature_type),
            "no_type": (mc.seqid, mc.overlap_end_inclusive, mc.strand)}[case["criteria"]]
    lines = case["input"]
    path = dbside.write_lines(os.path.join(ctx.scratch, "mac.gff3"), lines)
    dba, rep = dbside.py_create(path, dbside.Cfg())
    dbb, _ = dbside.py_create(path, dbside.Cfg())
    if dba is None or dbb is None:
        return
    res.evaluations += 1
    try:
        with warnings.catch_warnings():
            warnings.simplefilter("ignore")
            ref = list(dba.merge(list(dba.all_features(order_by=MA_ORDER)), merge_criteria=crit))
            got = dbb.merge_all(merge_order=MA_ORDER, merge_criteria=crit)
    except Exception as ex:
        common.fail(res, case, "merge_all_raised", "merge_all / merge raised %r" % ex, error=pyside.err_name(ex))
        return
    want = sorted((m.seqid, m.start, m.end, m.strand, m.featuretype, tuple(sorted(c.id for c in m.children)))
                  for m in ref if len(getattr(m, "children", []) or []) > 1)
    have = sorted((m.seqid, m.start, m.end, m.strand, m.featuretype, tuple(sorted(c.id for c in m.children))) for m in got)
    before = {str(x["id"]) for x in dbside.rows_of(dba)}
    new = sorted(k for k in (str(x["id"]) for x in dbside.rows_of(dbb)) if k not in before)
    rels_new = sorted((p, c) for p, c, l in dbside.rels_of(dbb) if p in new)
    want_rels = sorted((m.id, c.id) for m in got for c in m.children)
    if have != want or len(new) != len(want) or rels_new != want_rels:
        common.fail(res, case, "merge_all_wrong",
                    "merge_all(merge_criteria without mc.strand / with another rule) does not store one new feature per "
                    "multi-member run of the features that were in the database when it was called", criteria=case["criteria"],
                    runs_of_merge=want, runs_of_merge_all=have, new_rows=new, relations_of_new_rows=rels_new)


def check_large_merge_all(ctx, res):
    """merge_all on a database of more than a thousand features of one featuretype (runs of 1-4 overlapping features all
    along one sequence), with and without exclude_components: judged like every other merge_all case"""
    import gen_db
    r = ctx.rng("c16", "large merge_all")
    lines, pos = [], 1
    for k in range(1100 if not ctx.thorough else 2500):
        ln = r.randrange(5, 30)
        lines.append(gen_db.gff_line("chr1", "exon", pos, pos + ln, "+", [("ID", ["L%d" % k])]))
        pos += r.choice([3, ln, ln + 1, ln + 2, ln + 40])          # overlapping / abutting / one base apart / far
    for exclude in (False, True):
        judge_merge_all(ctx, res, {"scenario": "merge_all", "input": lines, "exclude_components": exclude, "no_shrink": True,
                                   "large": True})
        res.evaluations += 1
        res.count("merge_all_on_%d_features" % len(lines))


def judge(ctx, case):
    res = common.Result("C16")
    if case.get("scenario") == "children_bp":
        judge_children_bp(ctx, res, case)
        res.evaluations = 1
    elif case.get("scenario") == "merge_all":
        judge_merge_all(ctx, res, case)
    elif case.get("scenario") == "merge_all_criteria":
        judge_merge_all_criteria(ctx, res, case)
        res.evaluations = 1
    return res


def run(ctx):
    res = common.Result("C16")
    r = ctx.rng("c16")
    res.rule = ("(a) start-ordered multisets of <= 4 intervals over 8 positions in one class, default criteria "
                "(quick: all of size <= 3 and every 8th of size 4; thorough: all 91 390), x class assignments in the "
                "thorough tier; (b) random class-grouped start-ordered lists of <= 12 intervals, default criteria, "
                "union oracle; (b') two-stage merges: the outputs of one merge() (single inputs and multi-member outputs) "
                "merged again under the same, looser or other criteria, all clauses judged on the second stage; "
                "(c) random start-ordered mixed lists, every shipped criterion with thresholds 0-3 and "
                "reflexive custom criteria, greedy oracle; (d) objects re-used under other criteria; (e) malformed "
                "stream (None / reversed coordinates, unordered, comma seqids, non-reflexive criterion): "
                "correspondence only; (f) database-backed: transcripts (with or without a gene above) whose exons overlap / "
                "abut / lie apart on one or two strands, exons naming the transcript AND the gene as Parent (related at "
                "level 1 and 2), groups of textually identical lines without ID (distinct features exon_1, exon_2, ...) "
                "inside multi-member runs - children_bp and merge_all(exclude_components on/off). "
                "non-trivial = distinct (criteria, interval list) with at least one merged output "
                "or at least two outputs")
    ses = Session(res)

    # (a) exhaustive ------------------------------------------------------------------------------------
    n_a = 0
    for k in range(0, 5):
        for idx, ivs in enumerate(multisets(k)):
            if k == 4 and not ctx.thorough and idx % 8 != (ctx.seed % 8):
                continue
            n_a += 1
            items = items_of(ivs)
            payload = {"stream": "exhaustive", "criteria": FL.DEFAULT_CRITERIA, "intervals": list(map(list, ivs))}
            one_case(ses, items, FL.DEFAULT_CRITERIA, payload, union=True, rerun=True, corr=True,
                     corr_rerun=(n_a % 16 == 0))
            res.count("exhaustive_k%d" % k)
            if len(ivs) >= 2:
                res.nontriv(("d", ivs))
                if n_a % 16 == 0 or (ctx.thorough and n_a % 4 == 0):
                    # the outputs (incl. the multi-member ones) merged again: default criteria (every output stays
                    # alone) or a gap threshold (some join, some stay alone)
                    chain_case(ses, items, FL.DEFAULT_CRITERIA,
                               FL.DEFAULT_CRITERIA if n_a % 32 else ["seqid", "endthr:2", "strand", "ftype"], payload,
                               union=(n_a % 32 != 0))
            if len(ses.cmds) > 20000:
                ses.flush(ctx)
    ses.flush(ctx)
    if ctx.thorough:
        # class assignments on the multisets of <= 3 intervals (class-grouped: sorted by class, then start)
        clss = [("c1", "+", "exon"), ("c1", "-", "exon"), ("c2", "+", "exon"), ("c1", "+", "CDS")]
        for k in range(2, 4):
            for ivs in multisets(k):
                for assign in itertools.product(range(len(clss)), repeat=k):
                    if list(assign) != sorted(assign) or len(set(assign)) == 1:
                        continue
                    order = sorted(range(k), key=lambda i: (assign[i], ivs[i]))
                    ivs2 = [ivs[i] for i in order]
                    items = items_of(ivs2, [clss[assign[i]] for i in order])
                    payload = {"stream": "exhaustive-classes", "criteria": FL.DEFAULT_CRITERIA,
                               "features": [it.as_json() for it in items]}
                    one_case(ses, items, FL.DEFAULT_CRITERIA, payload, union=True, rerun=False, corr=True)
                    res.count("exhaustive_classes")
                    res.nontriv(("dc", tuple(ivs2), assign))
                    if len(ses.cmds) > 20000:
                        ses.flush(ctx)
        ses.flush(ctx)

    # (b) random class-grouped lists, default criteria -------------------------------------------------------
    nb = 1500 if not ctx.thorough else 20000
    for t in range(nb):
        n = r.randrange(1, 13)
        npos = r.choice([8, 12, 20, 40])
        feats = []
        for i in range(n):
            s = r.randrange(1, npos + 1)
            e = min(npos + 6, s + int(r.expovariate(0.5)))
            feats.append(((r.choice(["c1", "c1", "c2"]), r.choice("++-."), r.choice(["exon", "exon", "CDS"])), (s, e)))
        feats.sort(key=lambda x: (x[0][0], x[0][2], x[0][1], x[1]))     # merge_all's order: seqid, type, strand, start
        items = items_of([iv for _, iv in feats], [c for c, _ in feats], r, decorate=True)
        payload = {"stream": "random-classes", "criteria": FL.DEFAULT_CRITERIA,
                   "features": [it.as_json() for it in items]}
        one_case(ses, items, FL.DEFAULT_CRITERIA, payload, union=True, rerun=True, corr=True, corr_rerun=(t % 4 == 0),
                 other=(r.choice([[], ["anythr:3"], ["seqid", "endthr:3"]]) if t % 3 == 0 else None))
        if t % 3 == 1:
            then = r.choice([FL.DEFAULT_CRITERIA, ["seqid", "endthr:%d" % r.randrange(2, 6), "strand", "ftype"],
                             ["seqid", "anythr:3"], ["seqid", "endinc"], ["seqid", "endthr:4", "max3"]])
            chain_case(ses, items, FL.DEFAULT_CRITERIA, then, payload, union=(then == FL.DEFAULT_CRITERIA))
        res.count("random_classes")
        res.nontriv(("rc", tuple(x[1] for x in feats), tuple(x[0] for x in feats)))
        if t < 2:
            res.sample(payload)
    ses.flush(ctx)

    # (c) every shipped criterion / thresholds / custom, mixed start-ordered lists ---------------------------------
    nc = 2500 if not ctx.thorough else 30000
    for t in range(nc):
        n = r.randrange(1, 13) if t % 5 else r.randrange(1, 5)
        feats = []
        for i in range(n):
            s = r.randrange(1, 13)
            e = min(16, s + int(r.expovariate(0.6)))
            feats.append(((r.choice(["c1", "c1", "c1", "c2"]), r.choice("+++-"), r.choice(["exon", "exon", "exon", "CDS"])),
                          (s, e)))
        feats.sort(key=lambda x: x[1][0])
        if t < len(SHIPPED) * 4:
            names = [SHIPPED[t % len(SHIPPED)]]
        else:
            names = r.sample(SHIPPED + REFLEXIVE_CUSTOM, r.choice([1, 1, 2, 2, 3, 4]))
            if r.random() < 0.3:
                names = [n_ for n_ in FL.DEFAULT_CRITERIA if n_ != "endinc"] + [r.choice(SHIPPED[3:])]
        items = items_of([iv for _, iv in feats], [c for c, _ in feats], r, decorate=True)
        payload = {"stream": "criteria", "criteria": names, "features": [it.as_json() for it in items]}
        one_case(ses, items, names, payload, union=False, rerun=True, corr=True, corr_rerun=(t % 4 == 0),
                 other=(r.choice([[], FL.DEFAULT_CRITERIA, ["anyinc"]]) if t % 4 == 1 else None))
        if t % 4 == 2 and "seqid" in names:
            chain_case(ses, items, names, r.choice([names, FL.DEFAULT_CRITERIA, ["seqid", "endthr:3"], ["seqid", "anyinc", "ftype"]]),
                       payload)
        for n_ in names:
            res.count("crit_" + n_.split(":")[0])
        res.nontriv(("c", tuple(names), tuple(x[1] for x in feats), tuple(x[0] for x in feats)))
        if 2 <= t < 4:
            res.sample(payload)
    ses.flush(ctx)

    # (e) malformed / out-of-domain stream: correspondence only ------------------------------------------------------
    ne = 1200 if not ctx.thorough else 12000
    n_drop = n_comma = 0
    for t in range(ne):
        n = r.randrange(0, 7)
        items = []
        for i in range(n):
            s = r.randrange(1, 12)
            e = s + r.choice([0, 1, 2, 3, -1, -1, -2])
            if r.random() < 0.06:
                s = None
            if r.random() < 0.06:
                e = None
            line = FL.gff_line(r.choice(["c1", "c1", "a,b", "c2"]), s, e, r.choice("+-."), r.choice(["exon", "CDS", "a_1"]),
                               r.choice(["s", "t", "s,t"]), ".", r.choice([".", "1"]), r.choice(["", "ID=z"]))
            items.append(FL.Item(line, r.choice([None, "i%d" % i]), r.choice([None, i])))
        names = r.choice([FL.DEFAULT_CRITERIA, [], ["never"], ["never", "always"], ["anyinc"], ["exact"], ["max3"],
                          ["startthr:2", "strand"], ["seqid", "anythr:1"]])
        objs = [it.build() for it in items]
        ses.call(items, objs, names, corr=True)
        if r.random() < 0.5:
            ses.call(items, objs, r.choice([names, []]), corr=True)
        res.evaluations += 1
        res.count("malformed_stream")
    ses.flush(ctx)
    # two observations outside the property's domain (recorded, not failures): see GffProofs/Props/C16.lean §6
    db = ses.db
    z = [FL.Item(FL.gff_line("c1", 1, 3)).build(), FL.Item(FL.gff_line("c1", 9, 8)).build()]
    res.extra["observation_zero_length_last_feature_dropped"] = [(o.start, o.end) for o in db.merge(z)]
    cm = [FL.Item(FL.gff_line("a,b", s, e)).build() for s, e in ((1, 5), (2, 6), (3, 7))]
    res.extra["observation_comma_seqid_third_overlapping_feature_not_merged"] = [
        (o.seqid, o.start, o.end) for o in db.merge(cm)]
    res.extra["model_d9_fixed"] = MODEL_D9_FIXED

    # ---- database-backed clauses: children_bp / merge_all ----------------------------------------------------------------
    import os
    import warnings
    import dbside
    import gen_db
    from common import enc, dec
    r2 = ctx.rng("dbmerge")
    dcmds, dexp, dtags = [], [], []

    ndb = 25 if not ctx.thorough else 300
    for di in range(ndb):
        # a transcript with overlapping / adjacent / separate exons, plus unrelated features.  Modes: exons on ONE strand
        # (as merge_all groups them) or on BOTH strands with interleaved starts (trans-spliced: the union over both
        # strands is what children_bp(merge=True, merge_criteria without mc.strand) promises); now and then a gene above
        # the transcript (the exons are then level-2 children of the gene) and CDS children on both strands (>= 2
        # featuretypes x 2 strands on one seqid: the order in which merge_all visits the classes shows in its result)
        strand = r2.choice("+-")
        two = di <= 1 or (di > 3 and r2.random() < 0.45)
        with_gene = di in (0, 2) or r2.random() < 0.6
        exons, cds = [], []
        # `both`: positions (in `exons`) of the exons that name the transcript AND the gene as Parent (legal GFF3): such an
        # exon is related to the gene at level 1 (directly) and at level 2 (through the transcript) - one child, two
        # relation rows.  `dups`: groups of textually identical lines WITHOUT an ID attribute (distinct features with the
        # auto-numbered keys exon_1, exon_2, ... / CDS_1, ...): (seqid, featuretype, start, end, strand, attrs, copies)
        both, dups = {}, []
        if di == 0:
            exons = [(1, 10, "+"), (5, 15, "-"), (50, 60, "+"), (55, 58, "-")]
        elif di == 1:
            # a multi-member run in each of the four classes (exon, CDS) x (+, -) of chr1
            exons = [(1, 10, "+"), (5, 15, "+"), (20, 30, "-"), (25, 35, "-")]
            cds = [(40, 45, "+"), (44, 50, "+"), (52, 58, "-"), (55, 60, "-"), (70, 72, "+")]
        elif di == 2:
            # doubly related children: Parent=t,g / Parent=g,t / Parent=t under gene g -> mRNA t
            exons = [(1, 100, strand), (201, 260, strand), (250, 300, strand), (901, 1000, strand)]
            both = {0: ["t", "g"], 1: ["t", "g"], 2: ["g", "t"]}
        elif di == 3:
            # identical ID-less lines: two copies inside a longer run, a run made of two copies only, three copies, and
            # identical ID-less CDS lines below the transcript
            exons = [(1, 10, strand), (30, 40, strand)]
            dups = [("chr2", "exon", 5, 20, "+", [("Name", ["dup"])], 2), ("chr2", "exon", 100, 120, "-", [("Name", ["pair"])], 2),
                    ("chr2", "exon", 200, 210, "+", [], 3), ("chr1", "CDS", 3, 9, strand, [("Parent", ["t"])], 2)]
        else:
            for e in range(r2.randrange(0, 7)):
                a = r2.randrange(1, 60)
                exons.append((a, a + r2.randrange(0, 15), r2.choice("+-") if two else strand))
        starts = set()
        exons = [x for x in exons if not (x[0] in starts or starts.add(x[0]))]      # pairwise different starts
        if di > 3:
            if with_gene and r2.random() < 0.5:
                both = {i: r2.choice([["t", "g"], ["g", "t"]]) for i in range(len(exons)) if r2.random() < 0.6}
            for g_ in range(r2.choice([0, 0, 1, 1, 2])):
                a = r2.randrange(1, 60)
                dups.append((r2.choice(["chr2", "chr2", "chr1"]), r2.choice(["exon", "match"]), a, a + r2.randrange(0, 12),
                             r2.choice("+-"), r2.choice([[], [("Name", ["d%d" % g_])]]), r2.choice([2, 2, 3])))
            if r2.random() < 0.25:
                a = r2.randrange(1, 60)
                dups.append(("chr1", "CDS", a, a + r2.randrange(0, 12), r2.choice("+-"), [("Parent", ["t"])], 2))
        lines = []
        if with_gene:
            lines.append(gen_db.gff_line("chr1", "gene", 1, 100, strand, [("ID", ["g"])]))
        lines.append(gen_db.gff_line("chr1", "mRNA", 1, 100, strand, [("ID", ["t"])] + ([("Parent", ["g"])] if with_gene else [])))
        for i, (a, b, sd) in enumerate(exons):
            lines.append(gen_db.gff_line("chr1", "exon", a, b, sd, [("ID", ["e%d" % i]), ("Parent", both.get(i, ["t"]))]))
        if two and di > 1:
            cstarts = set()
            for i in range(r2.randrange(2, 8)):
                a = r2.randrange(1, 60)
                if a not in cstarts:
                    cstarts.add(a)
                    cds.append((a, a + r2.randrange(0, 12), r2.choice("+-")))
        for i, (a, b, sd) in enumerate(cds):
            lines.append(gen_db.gff_line("chr1", "CDS", a, b, sd, [("ID", ["d%d" % i]), ("Parent", ["t"])]))
        for i in range(r2.randrange(0, 3)):
            a = r2.randrange(1, 60)
            lines.append(gen_db.gff_line("chr2", "exon", a, a + 5, strand, [("ID", ["o%d" % i])]))
        for seqid_, ft_, a, b, sd, attrs_, copies in dups:
            if ft_ == "exon" and seqid_ == "chr1":
                ft_ = "match"           # chr1 exons are the transcript's (children_bp counts them): keep the copies apart
            for _ in range(copies):
                # the copies of a group: next to each other, or spread over the file
                lines.insert(r2.randrange(2 if with_gene else 1, len(lines) + 1) if r2.random() < 0.5 else len(lines),
                             gen_db.gff_line(seqid_, ft_, a, b, sd, attrs_))
            if r2.random() < 0.5:
                # a different feature overlapping the copies: the run has three or more members, two of them identical
                lines.append(gen_db.gff_line(seqid_, ft_, a + 1, b + 4, sd, [("Name", ["x"])]))
        case = {"scenario": "children_bp", "input": lines, "exons": [list(x) for x in exons],
                "parents": ["t"] + (["g"] if with_gene else []), "no_shrink": True}
        path = os.path.join(ctx.scratch, "bp.gff3")
        obs = judge_children_bp(ctx, res, case)
        if obs is None:
            continue
        db, rep = obs["db"], obs["create"]
        inp = {"lines": lines}
        res.evaluations += 1
        res.nontriv(("bp", tuple(lines)))
        res.count("children_bp_exons_on_two_strands" if len(set(x[2] for x in exons)) > 1 else "children_bp_exons_on_one_strand")
        if with_gene:
            res.count("children_bp_of_level2_children")
        if both:
            res.count("children_bp_children_related_at_level_1_and_2")
        if dups:
            res.count("merge_all_identical_lines_without_ID")
        dcmds.append(dbside.cmd_create(lines, dbside.Cfg())); dexp.append(rep); dtags.append(("create_db", repr(lines)))
        for parent, mg, got in obs["bp"]:
            dcmds.append("bp %s %s %d" % (enc(parent), enc("exon"), 1 if mg else 0)); dexp.append("ok %d" % got)
            dtags.append(("children_bp", repr((lines, parent, mg))))
        res.count("children_bp")
        # merge_all on a fresh copy of the same database
        for exclude in (False, True):
            mcase = {"scenario": "merge_all", "input": lines, "exclude_components": exclude, "no_shrink": True}
            mobs = judge_merge_all(ctx, res, mcase)
            if mobs is None:
                continue
            res.evaluations += 1
            db2, merged, before = mobs["db"], mobs["merged"], mobs["before"]
            dcmds.append(dbside.cmd_create(lines, dbside.Cfg())); dexp.append(rep); dtags.append(("create_db", repr(lines)))
            dcmds.append("mergeall %d" % (1 if exclude else 0))
            # the returned list follows the order in which merge_all visits the classes (seqid, featuretype, strand) and
            # the runs inside a class (start); rows that tie on all four columns (SQL leaves their order open) belong
            # to one run, so the sequence of returned ids is determined whenever the merged ids are - compared as a
            # sequence; as a set only if two rows of one class share their start AND differ in extent
            keys4 = {}
            for x in before.values():
                keys4.setdefault((x["seqid"], x["featuretype"], x["strand"], x["start"]), set()).add(x["end"])
            determined = all(len(v) == 1 for v in keys4.values())
            res.count("merge_all_result_compared_as_sequence" if determined else "merge_all_result_compared_as_set")
            if len(set((x["featuretype"], x["strand"]) for x in before.values() if x["seqid"] == "chr1"
                       and x["featuretype"] in ("exon", "CDS"))) >= 4:
                res.count("merge_all_two_featuretypes_x_two_strands")
            ids = [str(f.id) for f in merged]
            dexp.append(("SEQ " if determined else "SET ") + pyside.enc_list(ids if determined else sorted(ids)))
            dtags.append(("merge_all result", repr((lines, exclude))))
            dcmds.append("dump"); dexp.append(("DUMP", dbside.dump(db2))); dtags.append(("tables after merge_all", repr((lines, exclude))))
        res.count("merge_all")
        # merge_all with criteria that omit mc.strand / mc.feature_type, on this file and on a file of one class that mixes
        # '+', '-' and '.' strands with overlapping, abutting and distant features (oracle only)
        rm = ctx.rng("c16", "merge_all criteria", str(len(dcmds)))
        mixed = []
        pos = 1
        for k in range(rm.randrange(4, 9)):
            ln = rm.randrange(2, 12)
            mixed.append(gen_db.gff_line("chr1", rm.choice(["exon", "exon", "exon", "CDS"]), pos, pos + ln, rm.choice("+-."),
                                         [("ID", ["x%d" % k])]))
            pos += rm.choice([1, 2, ln, ln + 1, ln + 2, ln + 20])
        # one class, strands '+' < '-' < '.' in merge_all's order: an overlapping '+' / '-' pair merges into a '.' feature
        # whose place in that order is AFTER further '-' rows and just before a '.' feature it overlaps
        o = rm.randrange(1, 500)
        directed = [gen_db.gff_line("chr1", "exon", o, o + 4, "+", [("ID", ["a"])]),
                    gen_db.gff_line("chr1", "exon", o + 2, o + 7, "-", [("ID", ["b"])]),
                    gen_db.gff_line("chr1", "exon", o + 3, o + 8, ".", [("ID", ["c"])]),
                    gen_db.gff_line("chr1", "exon", o + 30, o + 40, "-", [("ID", ["d"])]),
                    gen_db.gff_line("chr1", "exon", o + 50, o + 60, "-", [("ID", ["e"])])]
        rm.shuffle(directed)
        for crit_name in ("no_strand", "any_no_strand", "no_type"):
            for lset, tag_ in ((lines, "generated"), (mixed, "mixed_strands"), (directed, "merged_row_sorts_later")):
                judge_merge_all_criteria(ctx, res, {"scenario": "merge_all_criteria", "input": lset, "criteria": crit_name,
                                                    "no_shrink": True})
                res.count("merge_all_criteria_%s_%s" % (crit_name, tag_))
        # several featuretypes_groups (oracle only; the model covers the default single group)
        lines2 = list(lines)
        for i, (a, b, sd) in enumerate(exons[:4]):
            lines2.append(gen_db.gff_line("chr1", "CDS", a, b, sd, [("ID", ["c%d" % i]), ("Parent", ["t"])]))
        path2 = dbside.write_lines(os.path.join(ctx.scratch, "bp2.gff3"), lines2)
        for exclude in (False, True):
            db3, _ = dbside.py_create(path2, dbside.Cfg())
            if db3 is None:
                continue
            before = {str(x["id"]): x for x in dbside.rows_of(db3)}
            groups = r2.choice([("exon", "CDS"), ("CDS", "exon"), ("exon", "CDS", "mRNA")])
            try:
                with warnings.catch_warnings():
                    warnings.simplefilter("ignore")
                    db3.merge_all(featuretypes_groups=groups, exclude_components=exclude)
            except Exception as ex:
                res.oracle_failures.append(("merge_all(featuretypes_groups=%r) raised %r" % (groups, ex), {"lines": lines2}))
                continue
            res.evaluations += 1
            after = {str(x["id"]): x for x in dbside.rows_of(db3)}
            rels = set(dbside.rels_of(db3))
            classes = {}
            for k, x in before.items():
                if x["featuretype"] in groups:
                    classes.setdefault((x["seqid"], x["featuretype"], x["strand"]), []).append((x["start"], x["end"], k))
            exp_runs = [run for ivs in classes.values() for run in runs_of(ivs) if len(run[2]) > 1]
            new = {k: x for k, x in after.items() if k not in before}
            ok = len(new) == len(exp_runs)
            for a, b, members in exp_runs:
                m0 = before[members[0]]
                cand = [k for k, x in new.items() if (x["start"], x["end"]) == (a, b) and
                        (x["seqid"], x["featuretype"], x["strand"]) == (m0["seqid"], m0["featuretype"], m0["strand"])]
                if not cand:
                    ok = False
                    continue
                for m_ in members:
                    ok = ok and ((m_ not in after) if exclude else ((cand[0], m_, 1) in rels and m_ in after))
            if not ok:
                res.oracle_failures.append(("merge_all over several featuretype groups does not store one feature per "
                                            "multi-member run and relate (or delete) its members",
                                            {"lines": lines2, "groups": groups, "exclude_components": exclude,
                                             "new": sorted(new), "remaining": sorted(after),
                                             "expected_runs": [(a, b, m_) for a, b, m_ in exp_runs]}))
    check_large_merge_all(ctx, res)
    dout = ctx.model(dcmds) if dcmds else None
    if dout is not None:
        for c, m, e, (comp, inpx) in zip(dcmds, dout, dexp, dtags):
            res.corr_checked += 1
            if isinstance(e, tuple):
                a, b = dbside.parse_dump(m), dbside.parse_dump(e[1])
                def canon(d):
                    return (sorted((f["id"], tuple(f["cols"][:1] + f["cols"][2:]), f["attrs"], f["bin"]) for f in d["features"]),
                            sorted(d["relations"]), d["auto"], d["pauto"])
                # the merged feature's `source` is a join over a Python set (order arbitrary): column 1 is not compared
                if "error" in a or "error" in b or canon(a) != canon(b):
                    res.corr_disagreements.append((comp, inpx[:800], m[:700], e[1][:700]))
            elif e.startswith("SEQ "):
                mm = "SEQ " + pyside.enc_list([dec(x) for x in m[3:].split(",") if x != "_"]) if m.startswith("ok ") else m
                if mm != e:
                    res.corr_disagreements.append((comp, inpx[:800], m[:300], e[:300]))
            elif e.startswith("SET "):
                mm = "SET " + pyside.enc_list(sorted(dec(x) for x in m[3:].split(",") if x != "_")) if m.startswith("ok ") else m
                if mm != e:
                    res.corr_disagreements.append((comp, inpx[:800], m[:300], e[:300]))
            elif m != e:
                res.corr_disagreements.append((comp, inpx[:800], m[:300], e[:300]))
    res.assumptions = [
        "inputs are proper intervals (integer start <= end): a last run whose extent has length 0 (end = start-1) is "
        "not yielded at all because `if current_merged:` is len() != 0 - recorded as an observation, Lean witness in "
        "GffProofs/Props/C16.lean",
        "seqids contain no comma (GFF3 requires %2C): with a comma the accumulated seqid `a,b,a,b` stops the run - "
        "recorded as an observation, Lean witness ibid.",
        "the inputs of one call are pairwise distinct objects; for the union clause they are grouped by class "
        "(seqid, featuretype, strand) and start-ordered inside a class, as merge_all passes them",
        "custom criteria are reflexive; the non-reflexive `never` is used for the correspondence only",
        "`same result` of a second run is judged modulo the fresh ids (extents, class columns, source set, children)",
        "children_bp(merge=True) is the size of the union when the criteria let every overlapping or adjacent pair of the "
        "children merge: default criteria with the children on one strand, criteria without mc.strand on one or two "
        "strands; default criteria on two strands are compared with the model only; children have pairwise different "
        "starts (SQL leaves ties unordered)",
        "merge_all: the members of a run are the stored features (primary keys), so two features with textually identical "
        "lines are two members; each must be related to the merged feature at level 1, or deleted",
    ]
    return res


def replay(ctx, payload):
    inp = payload.get("input", {})
    if isinstance(inp, dict) and inp.get("scenario") in ("children_bp", "merge_all"):
        return common.replay_failure("C16", payload, lambda case: judge(ctx, case))
    res = common.Result("C16")
    ses = Session(res)
    if "intervals" in inp:
        items = items_of([tuple(x) for x in inp["intervals"]])
    else:
        items = [FL.Item.from_json(d) for d in inp.get("features", [])]
    names = inp.get("criteria", FL.DEFAULT_CRITERIA)
    if "then_on_outputs" in inp:
        chain_case(ses, items, names, inp["then_on_outputs"],
                   {k: v for k, v in inp.items() if k not in ("then_on_outputs", "note")})
        print("replay: %s ; criteria=%s, outputs merged again with %s ; features=%s"
              % (payload.get("what"), names, inp["then_on_outputs"], [it.line for it in items]))
        print("replay: %d oracle failure(s): %s" % (len(res.oracle_failures), [w for w, _ in res.oracle_failures]))
        return res
    one_case(ses, items, names, inp, union=(inp.get("stream") in ("exhaustive", "exhaustive-classes", "random-classes")),
             rerun=True, corr=True, other=inp.get("then_criteria"))
    ses.flush(ctx)
    print("replay: %s ; criteria=%s then=%s ; features=%s" % (payload.get("what"), names, inp.get("then_criteria"),
                                                            [it.line for it in items]))
    print("replay: %d oracle failure(s): %s" % (len(res.oracle_failures), [w for w, _ in res.oracle_failures]))
    return res
