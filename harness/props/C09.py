"""C09 - dialect inference recovers the dialect the input was written in.

correspondence: helpers.infer_dialect / _choose_dialect / DataIterator(...).dialect against the Lean model
(GffModel.Parser.splitInfer, Helpers.chooseDialect, Iter.fileDialect).
oracle (real code only): per-line recovery = the dialect the line was written in; weighted majority with
first-seen ties computed independently from the *specifications*; supplied dialect verbatim; FeatureDB.dialect
after import and after reopening; GFF3 vs GTF import semantics chosen by the format.
"""
import copy
import os

import common
import dbside
import gen_spec
import parser_common as pc
import pyside
from common import dec, enc

TRUSTED = ["sorted(..., reverse=True) is stable (CPython) - part of the model of the vote"]
LEANCHECKER_MODULES = ["GffProofs.Props.C09"]

DKEYS = pyside.DKEYS[:-1]


def spec_dialect(s):
    """the dialect a WF spec is written in, computed in Python from the spec alone (oracle side)"""
    if not s.attrs:
        return None
    fmt = "gtf" if (s.style == "space" and s.quoted) else "gff3"
    order = []
    for k, v in s.attrs:
        order += [k] * (len(v) if (s.repeated and len(v) > 1) else 1)
    return pyside.mk_dialect(ts=s.trailing, q=s.quoted, fs=s.sep, kv="=" if s.style == "eq" else " ", fmt=fmt,
                             rk=s.repeated, order=order)


def nparts(s):
    return sum((len(v) if (s.repeated and len(v) > 1) else 1) for _, v in s.attrs)


def consistent_file(r, n, base=None):
    """n WF specs in one dialect; every line has >= 2 parts; repeated keys on every line or on none"""
    base = base or gen_spec.rand_spec(r, valid=True)
    style, quoted, sep, tr, rep = base.style, base.quoted, base.sep, base.trailing, base.repeated
    fmt = "gtf" if (style == "space" and quoted) else "gff3"
    allkeys = (["gene_id", "transcript_id"] if fmt == "gtf" else ["ID", "Parent"]) + r.sample(
        ["Name", "Note", "k1", "a_b", "x.y", "Alias", "tag", "exon_number", "Größe", "Länge", "名前"], 5)
    specs = []
    for i in range(n):
        s = gen_spec.Spec()
        s.mode = "file"
        s.style, s.quoted, s.sep, s.trailing, s.repeated = style, quoted, sep, tr, rep
        keys = [k for k in allkeys if r.random() < 0.6]
        for k in allkeys[:2]:
            if k not in keys:
                keys.insert(0, k)
        keys.sort(key=allkeys.index)
        attrs = []
        for j, k in enumerate(keys):
            nv = 2 if (rep and j == 1) else r.choice([1, 1, 1, 2]) if not rep else 1
            if k in ("ID", "gene_id", "transcript_id"):
                nv = 1 if not (rep and j == 1) else 2
            vals = ["%s%d_%d" % (k[:2], i, q) for q in range(nv)]
            attrs.append((k, vals))
        s.attrs = attrs
        ft = r.choice(["gene", "mRNA", "exon", "CDS"]) if fmt != "gtf" else r.choice(["exon", "CDS"])
        a = r.randrange(1, 10000)
        s.cols = ["chr1", "src", ft, str(a), str(a + r.randrange(0, 500)), ".", r.choice("+-"), "."]
        s.extra = []
        specs.append(s)
    return specs


def weighted_choice_oracle(obs):
    """obs: list of (value, weight) in file order -> majority by summed weight, ties to first seen"""
    tot, first = {}, {}
    for i, (v, w) in enumerate(obs):
        tot[v] = tot.get(v, 0) + w
        first.setdefault(v, i)
    best = max(tot.values())
    return min((v for v in tot if tot[v] == best), key=lambda v: first[v])


def write_file(ctx, name, lines, gz=False):
    path = os.path.join(ctx.scratch, name)
    if gz:
        import gzip
        with gzip.open(path, "wt", encoding="utf-8", newline="") as fh:
            fh.write("".join(l + "\n" for l in lines))
    else:
        with open(path, "w", encoding="utf-8", newline="") as fh:
            fh.write("".join(l + "\n" for l in lines))
    return path


ASK = object()
ALT = {"leading semicolon": [False, True], "trailing semicolon": [False, True],
       "quoted GFF2 values": [False, True], "field separator": [";", "; ", " ; "],
       "keyval separator": ["=", " "], "multival separator": [",", "|"], "fmt": ["gff3", "gtf"],
       "repeated keys": [False, True]}
SUPPLIED = pyside.mk_dialect(ts=True, q=False, fs="; ", kv="=", fmt="gff3", rk=False, order=["zz"])


def line_case(s):
    """(a): the line specification; "input" is its attribute list (shrinkable), the rest of the spec goes along"""
    d = s.as_dict()
    return {"scenario": "infer_line", "input": [[k, list(v)] for k, v in d.pop("attrs")], "spec": d}


def check_infer_line(ctx, case, res, row=ASK):
    """(a) per-line recovery: the specification is rendered (by the model's renderer, which also says whether it is
    well-formed; pc.py_wf_render when the model is unavailable) and infer_dialect on the attribute column has to state
    the dialect the line was written in.  returns the attribute column, or None when the spec is outside the domain"""
    from gffutils import helpers
    s = gen_spec.Spec.from_dict(dict(case["spec"], attrs=case["input"]))
    if row is ASK:
        rows = pc.run_specs(ctx, [s])
        row = rows[0] if rows else None
    wf = row["wf"] if row else True
    if not wf or nparts(s) < 2:
        return None
    line = row["line"] if row else pc.py_wf_render(s)
    attr = line.split("\t")[8]
    res.evaluations += 1
    want = spec_dialect(s)
    try:
        got = helpers.infer_dialect(attr)
    except Exception as ex:
        got = "raised %r" % ex
    if got != want:
        common.fail(res, dict(case, attributes=attr), "infer_dialect_wrong",
                    "infer_dialect does not state the dialect the line was written in",
                    attributes=attr, expected=want, observed=got)
    return attr


def vote_features(case):
    """(b): the Feature objects of a vote case, the (value, weight) observations and the first-seen key order"""
    from gffutils.feature import Feature
    key = case["key"]
    base = pyside.mk_dialect(order=[])
    feats, obs, keyorder = [], [], []
    for rec in case["input"]:
        d = copy.deepcopy(base)
        d[key] = rec["value"]
        d["order"] = list(rec["order"])
        feats.append(Feature(seqid="c", start=1, end=2, attributes={k: ["1"] for k in rec["keys"]}, dialect=d))
        obs.append((rec["value"], len(rec["keys"])))
        for k in rec["keys"]:
            if k not in keyorder:
                keyorder.append(k)
    return feats, obs, keyorder


def check_vote(case, res):
    """(b) _choose_dialect against the weighted majority with first-seen ties.  returns (features, observations, chosen)"""
    from gffutils import helpers
    key = case["key"]
    feats, obs, keyorder = vote_features(case)
    try:
        got = helpers._choose_dialect(feats)
    except Exception as ex:
        got = {"error": repr(ex)}
    want_v = weighted_choice_oracle(obs)
    if got.get(key) != want_v or got.get("order") != keyorder:
        common.fail(res, case, "choose_dialect_wrong",
                    "_choose_dialect is not the weighted majority with first-seen ties / "
                    "first-seen key order",
                    **{"observations(value,weight)": obs, "observed": got.get(key), "expected": want_v,
                       "observed_order": got.get("order"), "expected_order": keyorder})
    return feats, obs, got


def file_case(scenario, lines, specs, name, **kw):
    return dict({"scenario": scenario, "input": list(lines), "records": [s.as_dict() for s in specs],
                 "parallel": ["records"], "file_name": name}, **kw)


def specs_of(case):
    return [gen_spec.Spec.from_dict(d) for d in case["records"]]


def check_file_dialect(path, case, specs, res):
    """(c) DataIterator(path, checklines).dialect is the dialect the file was written in, with the key order of the
    window"""
    from gffutils import iterators
    cl = case["checklines"]
    want = spec_dialect(specs[0])
    window = specs[: cl + 1]
    order = []
    for s in window:
        for k, v in s.attrs:
            if k not in order:
                order.append(k)
    want_d = dict(want, order=order)
    try:
        it = iterators.DataIterator(path, checklines=cl)
        got = it.dialect
    except Exception as ex:
        got = "raised %r" % ex
    if got != want_d:
        common.fail(res, case, "file_dialect_wrong",
                    "DataIterator.dialect does not state the dialect the file was written in",
                    expected=want_d, observed=got)
    return got


def check_supplied(path, case, res):
    from gffutils import iterators
    sup = SUPPLIED
    it = iterators.DataIterator(path, dialect=copy.deepcopy(sup))
    fs = list(it)
    if it.dialect != sup or any(f.dialect != sup for f in fs):
        common.fail(res, case, "supplied_dialect_not_verbatim",
                    "a supplied dialect is not used verbatim", supplied=sup, observed=it.dialect)


def check_database(ctx, path, case, specs, res):
    """(c) database: dialect persisted, reopen, GFF3/GTF routing"""
    import gffutils
    from gffutils import iterators
    fmt = spec_dialect(specs[0])["fmt"]
    dbp = os.path.join(ctx.scratch, case["file_name"] + ".db")
    try:
        db = gffutils.create_db(path, dbp, force=True, merge_strategy="create_unique")
        d1 = db.dialect
        d2 = gffutils.FeatureDB(dbp).dialect
        it = iterators.DataIterator(path)
        if d1 != it.dialect or d2 != it.dialect:
            common.fail(res, case, "db_dialect_differs",
                        "FeatureDB.dialect differs from the inferred dialect (or changes on "
                        "reopen)", db=d1, reopened=d2, iterator=it.dialect)
        # the stored dialect is plain ASCII text, so it reads back the same whatever decoder the documented text_factory
        # argument installs for TEXT values (attribute keys may be non-ASCII)
        for tf_name, tf in (("latin-1", lambda b: b.decode("latin-1")), ("ascii/replace", lambda b: b.decode("ascii", "replace"))):
            d3 = gffutils.FeatureDB(dbp, text_factory=tf).dialect
            if d3 != it.dialect:
                common.fail(res, case, "db_dialect_differs",
                            "FeatureDB(text_factory=%s decoder).dialect differs from the inferred dialect of the input" % tf_name,
                            reopened=d3, iterator=it.dialect)
        derived = [f for f in db.all_features() if f.source == "gffutils_derived"]
        rels = set(dbside.rels_of(db))
        if fmt == "gtf":
            # GTF semantics: every line is a level-1 child of its transcript_id and a level-2 child of its
            # gene_id (derived genes/transcripts additionally exist only when the file has exon lines)
            ok = True
            for s_, f in zip(specs, [x for x in db.all_features() if x.source != "gffutils_derived"]):
                a = dict(s_.attrs)
                t, g = a["transcript_id"][0], a["gene_id"][0]
                if (t, str(f.id), 1) not in rels or (g, str(f.id), 2) not in rels:
                    ok = False
            if not ok:
                common.fail(res, case, "gtf_semantics_missing",
                            "GTF-format input was not imported with GTF semantics (transcript_id / "
                            "gene_id relations missing)", relations=sorted(rels))
        else:
            parent_links = set()
            for s_, f in zip(specs, list(db.all_features())):
                for p_ in dict(s_.attrs).get("Parent", []):
                    parent_links.add((p_, str(f.id), 1))
            if derived or {x for x in rels if x[2] == 1} != parent_links:
                common.fail(res, case, "gff3_semantics_wrong",
                            "GFF3-format input was imported with GTF semantics (derived features, "
                            "or relations not from Parent)", relations=sorted(rels), derived=[str(f.id) for f in derived])
        res.count("db_fmt_" + fmt)
    except Exception as ex:
        common.fail(res, case, "create_db_raised",
                    "create_db raised %r on a consistent file" % ex, error=dbside.err_name(ex), observed=repr(ex))
    res.evaluations += 1


def check_mixture(path, case, res):
    """mixtures inside the window of a real file: the trailing-semicolon choice is the weighted majority of the
    (trailing, weight) votes of the lines in the window"""
    from gffutils import iterators
    cl = case["checklines"]
    it = iterators.DataIterator(path, checklines=cl)
    # the window is the first checklines+1 FEATURE lines; comment, blank and directive lines (vote None) do not count
    want_t = weighted_choice_oracle([tuple(v) for v in case["votes"] if v is not None][: cl + 1])
    if it.dialect["trailing semicolon"] != want_t:
        common.fail(res, case, "mixed_window_trailing",
                    "mixed window: trailing-semicolon choice is not the weighted majority",
                    observed=it.dialect["trailing semicolon"], expected=want_t)
    return it


def _created_dialect(case, db, path, res, label):
    """FeatureDB reports the dialect of the input it was created from.  returns a copy of it"""
    from gffutils import iterators
    d0 = copy.deepcopy(db.dialect)
    want = iterators.DataIterator(path).dialect
    if d0 != want:
        common.fail(res, case, "db_dialect_differs", "FeatureDB.dialect differs from the inferred dialect of its input "
                    "(%s)" % label, db=d0, iterator=want)
    return d0


def _reopen_same_dialect(case, db, dbfn, d0, res, label):
    """after an update with data written in ANOTHER dialect the database still reports the dialect of the input it was
    created from: the live object and a freshly opened FeatureDB.  returns the reopened FeatureDB"""
    import gffutils
    re_db = gffutils.FeatureDB(dbfn)
    if db.dialect != d0 or re_db.dialect != d0:
        common.fail(res, case, "db_dialect_changed_by_update",
                    "%s: after update() with data in another dialect FeatureDB.dialect no longer states the dialect of "
                    "the input the database was created from" % label,
                    created=d0, live_after_update=db.dialect, reopened=re_db.dialect)
    return re_db


def _gtf_links_missing(lines, rels):
    """GFF3- or GTF-syntax lines that carry gene_id / transcript_id: those without a level-1 relation from their
    transcript_id to an exon_<n> feature"""
    def tid(l):
        a = l.split("\t")[8]
        return a.split("transcript_id=")[1].split(";")[0] if "transcript_id=" in a else \
            a.split('transcript_id "')[1].split('"')[0]
    return [l for l in lines if not any(c.startswith("exon_") and p == tid(l) and lv == 1 for p, c, lv in rels)]


def check_update_gtf_db(ctx, case, res):
    """a GTF-format database updated with GFF3-syntax lines applies GTF semantics; it still reports its own dialect
    afterwards (live and reopened), and a SECOND update - case["second"], on the reopened database - still applies GTF
    semantics.  returns (db | None, create reply, True when the update(s) went through); db is the reopened database
    when the case has a second update"""
    import warnings
    gtf_db, new_gff_syntax = case["base"], case["input"]
    p1 = write_file(ctx, "u1.gtf", gtf_db)
    p2 = write_file(ctx, "u2.gff3", new_gff_syntax)
    dbfn = os.path.join(ctx.scratch, "u1.db") if "second" in case else ":memory:"
    db, rep = dbside.py_create(p1, dbside.Cfg(), dbfn=dbfn)
    res.evaluations += 1
    if db is None:
        return None, rep, False
    d0 = _created_dialect(case, db, p1, res, "GTF database")
    try:
        with warnings.catch_warnings():
            warnings.simplefilter("ignore")
            db.update(p2, make_backup=False, merge_strategy="create_unique")
    except Exception as ex:
        common.fail(res, case, "update_raised", "update of a GTF database with GFF3-syntax lines raised %r" % ex,
                    error=dbside.err_name(ex), observed=repr(ex))
        return db, rep, False
    rels = set(dbside.rels_of(db))
    bad = _gtf_links_missing(new_gff_syntax, rels)
    if any(p == "P" for p, c, lv in rels) or bad:
        common.fail(res, case, "gtf_db_update_not_gtf_semantics",
                    "update() of a GTF-format database did not apply GTF semantics to the new lines "
                    "(relations must come from transcript_id/gene_id, not from Parent)", relations=sorted(rels),
                    lines_without_transcript_link=bad)
    if "second" not in case:
        return db, rep, True
    db = _reopen_same_dialect(case, db, dbfn, d0, res, "GTF database")
    p3 = write_file(ctx, "u2b.gxf", case["second"])
    try:
        with warnings.catch_warnings():
            warnings.simplefilter("ignore")
            db.update(p3, make_backup=False, merge_strategy="create_unique")
    except Exception as ex:
        common.fail(res, case, "update_raised", "second update of a GTF database raised %r" % ex,
                    error=dbside.err_name(ex), observed=repr(ex))
        return db, rep, False
    rels = set(dbside.rels_of(db))
    bad = _gtf_links_missing(case["second"], rels)
    if any(p == "P" for p, c, lv in rels) or bad:
        common.fail(res, case, "gtf_db_update_not_gtf_semantics",
                    "the SECOND update() of a GTF-format database (reopened after an update with GFF3-syntax lines) did "
                    "not apply GTF semantics (relations must come from transcript_id/gene_id, not from Parent)",
                    relations=sorted(rels), lines_without_transcript_link=bad)
    _reopen_same_dialect(case, db, dbfn, d0, res, "GTF database (second update)")
    return db, rep, True


def check_update_gff_db(ctx, case, res):
    """the reverse: a GFF3 database updated with GTF-syntax lines keeps GFF3 semantics, keeps reporting its own dialect
    (live and reopened), and a second update of the reopened database - case["second"] - keeps GFF3 semantics"""
    import warnings
    gff_db, new_gtf_syntax = case["base"], case["input"]
    p3 = write_file(ctx, "u3.gff3", gff_db)
    p4 = write_file(ctx, "u4.gtf", new_gtf_syntax)
    dbfn = os.path.join(ctx.scratch, "u3.db") if "second" in case else ":memory:"
    db, rep = dbside.py_create(p3, dbside.Cfg(), dbfn=dbfn)
    if db is None:
        return None, rep
    d0 = _created_dialect(case, db, p3, res, "GFF3 database")
    with warnings.catch_warnings():
        warnings.simplefilter("ignore")
        db.update(p4, make_backup=False, merge_strategy="create_unique")
    if dbside.rels_of(db) or any(f.source == "gffutils_derived" for f in db.all_features()):
        common.fail(res, case, "gff3_db_update_gtf_semantics",
                    "update() of a GFF3-format database applied GTF semantics to GTF-looking lines",
                    relations=sorted(dbside.rels_of(db)))
    if "second" not in case:
        return db, rep
    db = _reopen_same_dialect(case, db, dbfn, d0, res, "GFF3 database")
    with warnings.catch_warnings():
        warnings.simplefilter("ignore")
        db.update(write_file(ctx, "u4b.gtf", case["second"]), make_backup=False, merge_strategy="create_unique")
    if dbside.rels_of(db) or any(f.source == "gffutils_derived" for f in db.all_features()):
        common.fail(res, case, "gff3_db_update_gtf_semantics",
                    "the SECOND update() of a GFF3-format database (reopened after an update with GTF-syntax lines) "
                    "applied GTF semantics to GTF-looking lines", relations=sorted(dbside.rels_of(db)))
    _reopen_same_dialect(case, db, dbfn, d0, res, "GFF3 database (second update)")
    return db, rep


def judge(ctx, case):
    import gffutils
    from gffutils import helpers
    res = common.Result("C09")
    sc = case["scenario"]
    if sc == "infer_line":
        check_infer_line(ctx, case, res)
    elif sc == "vote":
        check_vote(case, res)
    elif sc == "vote_empty":
        if helpers._choose_dialect([]) != gffutils.constants.dialect:
            common.fail(res, case, "choose_dialect_empty", "_choose_dialect([]) is not constants.dialect")
    elif sc in ("file_dialect", "supplied_dialect", "database"):
        if len(case["input"]) != len(case["records"]):
            return res
        specs = specs_of(case)
        path = write_file(ctx, "j_" + case["file_name"], ["##gff-version 3"] + list(case["input"]))
        if sc == "file_dialect":
            check_file_dialect(path, case, specs, res)
        elif sc == "supplied_dialect":
            check_supplied(path, case, res)
        else:
            check_database(ctx, path, dict(case, file_name="j_" + case["file_name"]), specs, res)
    elif sc == "mixture":
        if len(case["input"]) == len(case["votes"]):
            check_mixture(write_file(ctx, "j_" + case["file_name"], case["input"]), case, res)
    elif sc == "inner_semicolon":
        got, want = helpers.infer_dialect(case["input"]), helpers.infer_dialect(case["twin"])
        res.evaluations += 1
        if got != want:
            common.fail(res, case, "infer_dialect_wrong", "infer_dialect does not state the dialect the line was written in "
                        "(a quoted value contains a semicolon)", attributes=case["input"], expected=want, observed=got)
    elif sc == "update_gtf_db":
        check_update_gtf_db(ctx, case, res)
    elif sc == "update_gff3_db":
        check_update_gff_db(ctx, case, res)
    return res


def run(ctx):
    import gffutils
    from gffutils import helpers, iterators
    from gffutils.feature import Feature
    res = common.Result("C09")
    r = ctx.rng("c09")
    res.rule = ("(a) WF line specs with >= 2 rendered parts: infer_dialect vs the dialect written; (b) _choose_dialect "
                "on windows mixing two values of one dialect key with weights 0-5 (all ties), vs an independent "
                "weighted-majority/first-seen computation; (c) files written in one dialect (every line >= 2 parts), "
                "checklines 0..n+2: DataIterator.dialect, FeatureDB.dialect after import and reopen, supplied dialect "
                "verbatim, GFF3/GTF routing; (d) a database of one format updated with lines in the other syntax, reopened "
                "(the reported dialect stays that of the creation input) and updated again. non-trivial = distinct (dialect, window) with >= 2 lines")
    res.constants_checked = pc.parser_constants(ctx, res)
    cmds, exp, tags = [], [], []

    # (a) per-line recovery ---------------------------------------------------------------------
    n = 4000 if not ctx.thorough else 50000
    specs = [gen_spec.rand_spec(r, valid=True) for _ in range(n)]
    rows = pc.run_specs(ctx, specs)
    for i, s in enumerate(specs):
        row = rows[i] if rows else None
        attr = check_infer_line(ctx, line_case(s), res, row=row)
        if attr is None:
            continue
        res.nontriv(("line", attr))
        if row:
            cmds.append(pyside.cmd_split(attr)); exp.append(pyside.impl_split(attr)); tags.append(("infer_dialect", attr))

    # (a') quoted values that CONTAIN a semicolon, in the '; ' / ' ; ' separated styles: the separator of the line is still
    #      the one that separates its fields (a ';' inside a value is not followed / surrounded by a blank).  Judged against
    #      the twin line whose values have no semicolon: same keys, same notation - the same dialect must be reported
    ri = ctx.rng("c09", "semicolons inside quoted values")
    for i in range(300 if not ctx.thorough else 3000):
        sep = ri.choice(["; ", " ; "])
        keys = ri.sample(["gene_id", "transcript_id", "note", "exon_number", "tag", "db_xref"], ri.randrange(2, 5))
        inner = [ri.choice(["fam7;1", "a;b", ";x", "p;q;r", "GO:1;GO:2", "x;", "plain", "k=v;w"]) for _ in keys]
        if not any(";" in v for v in inner):
            inner[0] = "fam7;1"
        trailing = ri.random() < 0.6
        mk = lambda vals: sep.join('%s "%s"' % (k, v) for k, v in zip(keys, vals)) + (";" if trailing else "")
        attr, twin = mk(inner), mk([v.replace(";", "_") for v in inner])
        res.evaluations += 1
        res.count("inner_semicolon_in_quoted_value_sep_%r" % sep)
        try:
            got, want = helpers.infer_dialect(attr), helpers.infer_dialect(twin)
        except Exception as ex:
            got, want = "raised %r" % ex, None
        if got != want:
            common.fail(res, {"scenario": "inner_semicolon", "input": attr, "twin": twin, "no_shrink": True},
                        "infer_dialect_wrong",
                        "infer_dialect does not state the dialect the line was written in (a quoted value contains a "
                        "semicolon)", attributes=attr, expected=want, observed=got)
        cmds.append(pyside.cmd_split(attr)); exp.append(pyside.impl_split(attr)); tags.append(("infer_dialect", attr))

    # (b) weighted vote -------------------------------------------------------------------------------
    alt = ALT
    nv = 1500 if not ctx.thorough else 20000
    for i in range(nv):
        key = r.choice(DKEYS)
        vals = r.sample(alt[key], 2) if len(alt[key]) > 2 else list(alt[key])
        if r.random() < 0.5:
            vals.reverse()
        nfeat = r.randrange(1, 7)
        recs = []
        # every fifth window is an EXACT tie: the first-seen value's lines have weights that add up to the single weight of
        # the other value's line (2+3+2 against 7, 1+2 against 3, ...): the first-seen value wins, whatever the arithmetic
        tie = None
        if i % 5 == 0:
            parts = r.choice([[2, 3, 2], [1, 2], [3, 3, 1], [1, 1, 1], [5, 1, 1], [1, 2, 3], [4, 3, 2], [2, 2, 3], [1, 1]])
            tie = [(vals[0], w_) for w_ in parts] + [(vals[1], sum(parts))]
            if r.random() < 0.5:
                tie = tie[:1] + [tie[-1]] + tie[1:-1]             # the heavy line second: still seen after the first value
            nfeat = len(tie)
        for j in range(nfeat):
            v = r.choice(vals)
            w = r.randrange(0, 6) if i % 3 else r.randrange(0, 10)
            if tie is not None:
                v, w = tie[j]
            keys = r.sample(["a", "b", "c", "d", "e", "f", "g", "h", "i"], w)
            order = list(keys)
            if r.random() < 0.5:
                # the per-line key order may list a repeated key several times, or be the default order of an
                # attribute-less line: the weight is the number of attributes, not the length of this list
                order = r.choice([list(keys) + list(keys[:1]) * r.randrange(1, 4), ["ID", "Name", "gene_id", "transcript_id"],
                                  []])
            recs.append({"value": v, "keys": keys, "order": order})
        res.evaluations += 1
        res.count("vote_" + key.replace(" ", "_"))
        feats, obs, got = check_vote({"scenario": "vote", "key": key, "input": recs}, res)
        res.nontriv(("vote", key, tuple(obs)))
        cmds.append("choose " + " ".join(pyside.enc_dialect(f.dialect) + " " + pyside.enc_list(f.attributes.keys())
                                         for f in feats))
        exp.append(pyside.enc_dialect(got) if "error" not in got else "err")
        tags.append(("_choose_dialect", repr(obs)))
        if len(res.samples) < 2:
            res.sample({"vote_key": key, "observations": obs, "chosen": got.get(key)})
    if helpers._choose_dialect([]) != gffutils.constants.dialect:
        common.fail(res, {"scenario": "vote_empty"}, "choose_dialect_empty", "_choose_dialect([]) is not constants.dialect")

    # (c) files ---------------------------------------------------------------------------------------
    nfiles = 60 if not ctx.thorough else 600
    for i in range(nfiles):
        nlines = r.choice([1, 2, 3, 5, 8, 12, 14])
        specs = consistent_file(r, nlines)
        rows = pc.run_specs(ctx, specs)
        if rows and not all(x and x["wf"] for x in rows):
            res.count("file_not_wf")
            continue
        lines = [(rows[j]["line"] if rows else pc.py_wf_render(s)) for j, s in enumerate(specs)]
        want = spec_dialect(specs[0])
        fmt = want["fmt"]
        name = "f%d.%s" % (i, "gtf" if fmt == "gtf" else "gff3")
        path = write_file(ctx, name, ["##gff-version 3"] + lines)
        for cl in sorted(set([0, 1, nlines - 1, nlines, nlines + 2, 10])):
            if cl < 0:
                continue
            res.evaluations += 1
            got = check_file_dialect(path, file_case("file_dialect", lines, specs, name, checklines=cl), specs, res)
            res.nontriv(("file", i, cl))
            cmds.append("file %d none none %s" % (cl, pyside.enc_list(["##gff-version 3"] + lines)))
            exp.append(("ok " + pyside.enc_dialect(got)) if isinstance(got, dict) else "err")
            tags.append(("DataIterator.dialect", repr((lines, cl))))
        # supplied dialect is used verbatim
        check_supplied(path, file_case("supplied_dialect", lines, specs, name), res)
        # database: dialect persisted, reopen, routing
        if i % 3 == 0:
            check_database(ctx, path, file_case("database", lines, specs, name), specs, res)
            # force_gff=True overrides the routing (not part of the property; correspondence only): a GTF-format file is
            # then imported with GFF3 semantics - the model's Create.route must say the same
            cfgf = dbside.Cfg(strategy="create_unique", force_gff=True)
            dbf, repf = dbside.py_create(path, cfgf)
            cmds.append(dbside.cmd_create(["##gff-version 3"] + lines, cfgf)); exp.append(repf)
            tags.append(("create_db(force_gff=True)", repr(lines)))
            if dbf is not None:
                cmds.append("dump"); exp.append(("DUMP", dbside.dump(dbf))); tags.append(("tables (force_gff=True)", repr(lines)))

    # mixtures inside the window of a real file: trailing semicolon on some lines ----------------------------------
    for i in range(250 if not ctx.thorough else 2500):
        nlines = r.randrange(2, 7)
        base = consistent_file(r, 1)[0]
        specs = consistent_file(r, nlines, base=base)
        obs = []
        for s in specs:
            s.trailing = r.random() < 0.5
            obs.append((s.trailing, nparts(s) if not s.repeated else len(s.attrs)))
        rows = pc.run_specs(ctx, specs)
        if rows and not all(x and x["wf"] for x in rows):
            continue
        lines = [(rows[j]["line"] if rows else pc.py_wf_render(s)) for j, s in enumerate(specs)]
        votes = [(t, len(s.attrs)) for (t, _), s in zip(obs, specs)]
        if r.random() < 0.6:
            # an attribute-less line (empty ninth column) votes with weight 0
            pos = r.randrange(0, len(lines) + 1)
            lines.insert(pos, "chr1\tsrc\tregion\t1\t9\t.\t+\t.\t")
            votes.insert(pos, (False, 0))
        if r.random() < 0.5:
            # comment / blank / directive lines between the features: they are not features and take no place in the window
            for _ in range(r.randrange(1, len(lines) + 2)):
                pos = r.randrange(0, len(lines) + 1)
                lines.insert(pos, r.choice(["###", "# a comment", "", "##sequence-region chr1 1 1000"]))
                votes.insert(pos, None)
        name = "m%d.gff" % i
        path = write_file(ctx, name, lines)
        cl = r.choice([0, 1, 1, 2, nlines, 10, max(0, nlines - 2)])
        res.evaluations += 1
        it = check_mixture(path, {"scenario": "mixture", "input": list(lines), "votes": [None if v is None else list(v) for v in votes],
                                  "parallel": ["votes"], "checklines": cl, "file_name": name}, res)
        cmds.append("file %d none none %s" % (cl, pyside.enc_list(lines)))
        exp.append("ok " + pyside.enc_dialect(it.dialect)); tags.append(("DataIterator.dialect (mixture)", repr(lines)))

    # the format of the DATABASE decides the semantics of update(), whatever dialect the new data is written in --------
    import gen_db
    r2 = ctx.rng("c09", "second update")
    for i in range(10 if not ctx.thorough else 100):
        gtf_db = [gen_db.gtf_line("chr1", "exon", 10, 50, "+", [("gene_id", ["G"]), ("transcript_id", ["T"])]),
                  gen_db.gtf_line("chr1", "exon", 80, 120, "+", [("gene_id", ["G"]), ("transcript_id", ["T"])])]
        n = r.randrange(1, 4)
        new_gff_syntax = [gen_db.gff_line("chr1", "exon", 200 + 100 * j, 250 + 100 * j, "+",
                                          [("gene_id", ["G"]), ("transcript_id", ["T%d" % r.randrange(2)]), ("Parent", ["P"])])
                          for j in range(n)]
        # ... and it goes on reporting its own dialect; a second update, of the reopened database, with lines in either
        # syntax, is still a GTF import
        n2 = r2.randrange(1, 4)
        if r2.random() < 0.5:
            second = [gen_db.gtf_line("chr3", "exon", 100 + 400 * j, 300 + 400 * j, "-",
                                      [("gene_id", ["G9"]), ("transcript_id", ["T9%d" % r2.randrange(2)])]) for j in range(n2)]
        else:
            second = [gen_db.gff_line("chr3", "exon", 100 + 400 * j, 300 + 400 * j, "-",
                                      [("gene_id", ["G9"]), ("transcript_id", ["T9%d" % r2.randrange(2)]), ("Parent", ["P"])])
                      for j in range(n2)]
        cfg = dbside.Cfg()
        db, rep, updated = check_update_gtf_db(ctx, {"scenario": "update_gtf_db", "base": gtf_db,
                                                     "input": new_gff_syntax, "second": second}, res)
        if not updated:
            continue
        res.count("gtf_db_updated_twice_reopened")
        cmds.append(dbside.cmd_create(gtf_db, cfg)); exp.append(rep); tags.append(("create_db", repr(gtf_db)))
        ucfg = dbside.Cfg(strategy="create_unique")
        cmds.append(dbside.cmd_update(new_gff_syntax, ucfg)); exp.append("ok"); tags.append(("update routing", repr(new_gff_syntax)))
        cmds.append("reopen"); exp.append("ok"); tags.append(("reopen", repr((gtf_db, new_gff_syntax))))
        cmds.append(dbside.cmd_update(second, ucfg)); exp.append("ok"); tags.append(("update routing (second)", repr(second)))
        cmds.append("reopen"); exp.append("ok"); tags.append(("reopen", repr((gtf_db, new_gff_syntax, second))))
        cmds.append("dump"); exp.append(dbside.dump(db)); tags.append(("tables after update, reopen, update", repr((gtf_db, new_gff_syntax, second))))
        # and the reverse: a GFF3 database updated with GTF-syntax lines keeps GFF3 semantics
        gff_db = [gen_db.gff_line("chr1", "gene", 1, 500, "+", [("ID", ["g"])])]
        new_gtf_syntax = [gen_db.gtf_line("chr1", "exon", 10 + 100 * j, 50 + 100 * j, "+", [("gene_id", ["G"]), ("transcript_id", ["T"])])
                          for j in range(n)]
        second = [gen_db.gtf_line("chr3", "exon", 100 + 400 * j, 300 + 400 * j, "-",
                                  [("gene_id", ["G9"]), ("transcript_id", ["T9%d" % r2.randrange(2)])]) for j in range(n2)]
        db, rep = check_update_gff_db(ctx, {"scenario": "update_gff3_db", "base": gff_db, "input": new_gtf_syntax,
                                            "second": second}, res)
        if db is None:
            continue
        res.count("gff3_db_updated_twice_reopened")
        cmds.append(dbside.cmd_create(gff_db, cfg)); exp.append(rep); tags.append(("create_db", repr(gff_db)))
        cmds.append(dbside.cmd_update(new_gtf_syntax, ucfg)); exp.append("ok"); tags.append(("update routing", repr(new_gtf_syntax)))
        cmds.append("reopen"); exp.append("ok"); tags.append(("reopen", repr((gff_db, new_gtf_syntax))))
        cmds.append(dbside.cmd_update(second, ucfg)); exp.append("ok"); tags.append(("update routing (second)", repr(second)))
        cmds.append("reopen"); exp.append("ok"); tags.append(("reopen", repr((gff_db, new_gtf_syntax, second))))
        cmds.append("dump"); exp.append(dbside.dump(db)); tags.append(("tables after update, reopen, update", repr((gff_db, new_gtf_syntax, second))))

    out = ctx.model(cmds)
    if out is not None:
        for c, m, e, (comp, inp) in zip(cmds, out, exp, tags):
            res.corr_checked += 1
            if comp.startswith("tables after update"):
                a, b = dbside.parse_dump(m), dbside.parse_dump(e)
                same = ("error" not in a and "error" not in b and
                        sorted(map(str, a["features"])) == sorted(map(str, b["features"])) and a["relations"] == b["relations"])
                if same and "reopen" in comp:
                    same = a["dialect"] == b["dialect"]        # the dialect the reopened database reports
                if not same:
                    res.corr_disagreements.append((comp, inp[:600], m[:500], e[:500]))
                continue
            if isinstance(e, tuple):
                a, b = dbside.parse_dump(m), dbside.parse_dump(e[1])
                same = ("error" not in a and "error" not in b and
                        sorted(map(str, a["features"])) == sorted(map(str, b["features"])) and
                        sorted(a["relations"]) == sorted(b["relations"]) and a["dialect"] == b["dialect"])
                if not same:
                    res.corr_disagreements.append((comp, inp[:600], m[:500], e[1][:500]))
                continue
            if comp.startswith("DataIterator.dialect"):
                m = " ".join(m.split(" ")[:2])
            if m != e:
                res.corr_disagreements.append((comp, inp[:600], m[:600], e[:600]))
    res.assumptions = ["files are written with every line showing the dialect (>= 2 attribute parts), as the property's "
                       "quantifier states; the window is the first checklines+1 feature lines"]
    common.shrink_first_failure(res, lambda case: judge(ctx, case))
    return res


def replay(ctx, payload):
    return common.replay_failure("C09", payload, lambda case: judge(ctx, case))
