"""Shared machinery of the /verif checks (DESIGN.md §2.3, §2.4, §6).

Every check does, in this order:
  1. proof obligations  - `lake build`, `#print axioms` audit of the property's theorems, forbidden-token grep
  2. correspondence     - the Lean model (native driver) and the real gffutils on the same inputs
  3. oracle             - the property statement, judged on the real code, independent of the model
  4. verdict + evidence
"""
import hashlib
import json
import os
import random
import re
import shutil
import subprocess
import sys
import tempfile
import time

VERIF = os.path.dirname(os.path.dirname(os.path.abspath(__file__)))
LEAN = os.path.join(VERIF, "lean")
DRIVER = os.path.join(LEAN, ".lake", "build", "bin", "gffdriver")
EVIDENCE = os.environ.get("VERIF_EVIDENCE_DIR") or os.path.join(VERIF, "evidence")   # redirected by tools/run_seeded.py
REPLAYS = os.environ.get("VERIF_REPLAY_DIR") or os.path.join(VERIF, "replays")
ALLOWED_AXIOMS = {"propext", "Classical.choice", "Quot.sound"}
FORBIDDEN = re.compile(r"\bsorry\b|\badmit\b|^\s*axiom\s|native_decide|bv_decide|implemented_by|\bunsafe\s|maxHeartbeats\s+0")


class Infra(Exception):
    """infrastructure failure: exit 2, never a VIOLATION"""


# ----------------------------------------------------------------------------------------------
# codec of the line protocol

def enc(s):
    if s is None:
        return "~"
    if s == "":
        return "-"
    return ".".join("%x" % ord(c) for c in s)


def dec(w):
    if w == "~":
        return None
    if w == "-":
        return ""
    return "".join(chr(int(h, 16)) for h in w.split("."))


# ----------------------------------------------------------------------------------------------
# Lean side

def lake_build():
    """(ok, log).  A failing build is a broken proof obligation (or model), not an infra failure,
    unless lake itself is missing."""
    t0 = time.time()
    # several checks may run at once (the seeded matrix, agents): one `lake build` at a time on this tree
    import fcntl
    lock = open(os.path.join(LEAN, ".build.lock"), "w")
    try:
        fcntl.flock(lock, fcntl.LOCK_EX)
        p = subprocess.run(["lake", "build"], cwd=LEAN, stdout=subprocess.PIPE, stderr=subprocess.STDOUT,
                           text=True, timeout=3000)
    except FileNotFoundError as e:
        raise Infra("lake not found: %s" % e)
    finally:
        try:
            fcntl.flock(lock, fcntl.LOCK_UN)
        finally:
            lock.close()
    return p.returncode == 0, p.stdout, time.time() - t0


_AX_RE = re.compile(r"'(\S+)' depends on axioms: \[([^\]]*)\]")
_NOAX_RE = re.compile(r"'(\S+)' does not depend on any axioms")


def audit(prop_id):
    """Run GffProofs/Audit/<id>.lean (a list of `#print axioms`), return
    (theorems: {name: [axioms]}, problems: [str], cmd)."""
    f = os.path.join("GffProofs", "Audit", prop_id + ".lean")
    cmd = "cd lean && lake env lean " + f
    p = subprocess.run(["lake", "env", "lean", f], cwd=LEAN, stdout=subprocess.PIPE, stderr=subprocess.STDOUT,
                       text=True, timeout=3000)
    out = p.stdout.replace("\n  ", " ").replace("\n ", " ")
    thms = {}
    for m in _AX_RE.finditer(out):
        thms[m.group(1)] = [a.strip() for a in m.group(2).split(",") if a.strip()]
    for m in _NOAX_RE.finditer(out):
        thms[m.group(1)] = []
    problems = []
    if p.returncode != 0:
        problems.append("audit file does not check: " + p.stdout[-2000:])
    src = open(os.path.join(LEAN, f)).read()
    wanted = re.findall(r"^#print axioms\s+(\S+)", src, re.M)
    for w in wanted:
        if not any(t == w or t.endswith("." + w) for t in thms):
            problems.append("theorem %s: no axiom report (missing or does not check)" % w)
    for name, axs in thms.items():
        bad = [a for a in axs if a not in ALLOWED_AXIOMS]
        if bad:
            problems.append("theorem %s depends on non-standard axioms %s" % (name, bad))
    return thms, problems, cmd


def _strip_comments(src):
    # remove /- ... -/ (nested) and -- line comments
    out = []
    i, depth, n = 0, 0, len(src)
    while i < n:
        if src.startswith("/-", i):
            depth += 1
            i += 2
        elif depth and src.startswith("-/", i):
            depth -= 1
            i += 2
        elif depth:
            if src[i] == "\n":
                out.append("\n")
            i += 1
        elif src.startswith("--", i):
            while i < n and src[i] != "\n":
                i += 1
        else:
            out.append(src[i])
            i += 1
    return "".join(out)


def forbidden_tokens():
    hits = []
    for root, dirs, files in os.walk(LEAN):
        if ".lake" in root:
            continue
        for fn in files:
            if not fn.endswith(".lean"):
                continue
            path = os.path.join(root, fn)
            code = _strip_comments(open(path, encoding="utf-8").read())
            for ln, line in enumerate(code.split("\n"), 1):
                if FORBIDDEN.search(line):
                    hits.append("%s:%d: %s" % (os.path.relpath(path, VERIF), ln, line.strip()[:120]))
    return hits


def run_model(lines, timeout=1800):
    """Pipe protocol lines to the native driver; one reply line per command line."""
    if not os.path.exists(DRIVER):
        raise Infra("driver not built: " + DRIVER)
    if not lines:
        return []
    data = "\n".join(lines) + "\n"
    p = subprocess.run([DRIVER], input=data, stdout=subprocess.PIPE, stderr=subprocess.PIPE, text=True,
                       timeout=timeout)
    if p.returncode != 0:
        raise Infra("driver exited %d: %s" % (p.returncode, p.stderr[-500:]))
    out = p.stdout.split("\n")
    if out and out[-1] == "":
        out.pop()
    if len(out) != len(lines):
        raise Infra("driver answered %d lines for %d commands" % (len(out), len(lines)))
    return out


# ----------------------------------------------------------------------------------------------
# repo identification

def repo_dir():
    import gffutils
    return os.path.dirname(os.path.dirname(os.path.abspath(gffutils.__file__)))


def repo_state():
    d = repo_dir()

    def git(*a):
        try:
            return subprocess.run(["git", "-C", d] + list(a), stdout=subprocess.PIPE, stderr=subprocess.DEVNULL,
                                  text=True, timeout=60).stdout
        except Exception:
            return ""
    head = git("rev-parse", "HEAD").strip()
    diff = git("diff", "HEAD", "--", "gffutils")
    return {"gffutils_file": os.path.join(d, "gffutils"), "head": head,
            "worktree_diff_sha1": hashlib.sha1(diff.encode()).hexdigest() if diff else None}


# ----------------------------------------------------------------------------------------------
# known findings

def load_findings(prop_id):
    path = os.path.join(VERIF, "known_findings.json")
    if not os.path.exists(path):
        return []
    data = json.load(open(path))
    return [k for k in data.get("known", []) if k.get("property") == prop_id]


# ----------------------------------------------------------------------------------------------
# result collection

class Result:
    """What a property module reports back."""

    def __init__(self, prop_id):
        self.prop_id = prop_id
        self.evaluations = 0
        self.nontrivial = set()
        self.samples = []
        self.distribution = {}
        self.corr_checked = 0
        self.corr_disagreements = []   # (component, input, model, impl)
        self.oracle_failures = []      # (what, input dict)   -- not matching a known finding
        self.known_hits = {}           # finding key -> example
        self.rule = ""
        self.extra = {}
        self.assumptions = []
        self.constants_checked = None

    def count(self, key, n=1):
        self.distribution[key] = self.distribution.get(key, 0) + n

    def sample(self, s, cap=8):
        if len(self.samples) < cap:
            self.samples.append(s)

    def nontriv(self, key):
        if len(self.nontrivial) < 2_000_000:
            self.nontrivial.add(key)


# ----------------------------------------------------------------------------------------------
# oracle failures: self-contained payloads, shrinking, replay
#
# An oracle failure is `(what, payload)`.  The payload is the *case* (everything needed to run that one oracle check
# again on the real code: "scenario", "input" = the lines or the operation history, "config", the queried ids and
# arguments; "parallel" names lists that run parallel to "input", e.g. the generator's record of every line) plus
# "kind" (the name of the oracle that failed), optionally "error" (the exception name, for the 'it raised' oracles)
# and "details" (what was observed / expected).  A property module offers `judge(case) -> Result`, which rebuilds the
# case and runs the same oracle functions as `run` on a fresh Result; shrinking and replay both go through it.

def fail(res, case, kind, what, error=None, **details):
    """record an oracle failure of the named kind on `case`"""
    p = {k: v for k, v in case.items() if k not in ("kind", "error", "details")}      # a replayed case carries old ones
    p.update(kind=kind, details=details)
    if error is not None:
        p["error"] = error
    res.oracle_failures.append((what, p))


def same_failure(p, q):
    return p.get("kind") == q.get("kind") and p.get("error") == q.get("error")


def shrink_lines(lines, still_fails, budget=200):
    """Delta debugging over a list (of lines, or of the steps of a history): remove chunks (halves, quarters, ...),
    then single items, as long as `still_fails(candidate) -> bool` - which re-runs the oracle on the real code - says
    the candidate still fails.  At most `budget` calls of still_fails; the empty list is never tried.  Returns the
    smallest failing list found (the input itself when nothing could be removed)."""
    calls = [0]

    def test(cand):
        if calls[0] >= budget:
            return False
        calls[0] += 1
        try:
            return bool(still_fails(cand))
        except Infra:
            raise
        except Exception:
            return False            # a candidate the oracle cannot even be run on is not a smaller failing case

    cur = list(lines)
    n = 2
    while len(cur) >= 2 and calls[0] < budget:
        size = -(-len(cur) // n)
        for i in range(0, len(cur), size):
            cand = cur[:i] + cur[i + size:]
            if cand and test(cand):
                cur = cand
                n = max(n - 1, 2)
                break
        else:
            if size == 1:
                break
            n = min(len(cur), n * 2)
    return cur


def _jsonable(x):
    return json.loads(json.dumps(x, default=str))


def shrink_first_failure(res, judge, budget=200):
    """Shrink the FIRST oracle failure of a run (the one vcheck writes as the replay): its payload then carries "input"
    (shrunk), "input_unshrunk" and "shrunk": true.  A candidate counts only if the oracle of the same kind fails on it.
    Every other failure, and a first failure without a list under "input", is marked "shrunk": false."""
    for _, p in res.oracle_failures[1:]:
        p.setdefault("shrunk", False)
    if not res.oracle_failures:
        return
    what, p = res.oracle_failures[0]
    if "shrunk" in p:
        return
    p = _jsonable(p)                       # what the replay file will hold is what the shrinker works on
    res.oracle_failures[0] = (what, p)
    p["shrunk"] = False
    if not isinstance(p.get("input"), list) or p.get("no_shrink"):
        return
    if len(p["input"]) < 2:                # nothing to remove
        p.update(shrunk=True, shrink={"from": len(p["input"]), "to": len(p["input"]), "oracle_calls": 0},
                 input_unshrunk=list(p["input"]))
        return
    par = [k for k in p.get("parallel", []) if isinstance(p.get(k), list) and len(p[k]) == len(p["input"])]
    items = list(zip(p["input"], *[p[k] for k in par]))
    best = [None]
    calls = [0]

    def sub_case(sub):
        q = {k: v for k, v in p.items() if k not in ("details", "shrunk")}
        q["input"] = [x[0] for x in sub]
        for j, k in enumerate(par):
            q[k] = [x[j + 1] for x in sub]
        return q

    def still_fails(sub):
        calls[0] += 1
        for w, fp in judge(sub_case(sub)).oracle_failures:
            if same_failure(fp, p):
                best[0] = (w, fp)
                return True
        return False

    small = shrink_lines(items, still_fails, budget)
    p["shrunk"] = True
    p["shrink"] = {"from": len(items), "to": len(small), "oracle_calls": calls[0]}
    if best[0] is not None and len(small) < len(items):
        w, fp = best[0]
        q = _jsonable(fp)
        q.update(shrunk=True, shrink=p["shrink"], input_unshrunk=p["input"], what_unshrunk=what,
                 details_unshrunk=p.get("details"))
        for k in par:
            q[k + "_unshrunk"] = p[k]
        res.oracle_failures[0] = (w, q)
    else:
        p["input_unshrunk"] = list(p["input"])


def _show(v, width=400):
    s = json.dumps(v, ensure_ascii=True, default=str) if not isinstance(v, str) else repr(v)
    return s if len(s) <= width else s[:width] + " ...(%d chars)" % len(s)


def _show_details(label, details):
    for k, v in (details or {}).items():
        print("replay:     %s %s = %s" % (label, k, _show(v, 700)))


def replay_failure(prop_id, payload, judge):
    """`./check <ID> --replay <file>` for an oracle failure: run `judge` on the recorded case, print a short account,
    and report the failure again iff the oracle of the recorded kind still fails (known findings stay known)."""
    res = Result(prop_id)
    p = payload.get("input")
    if not isinstance(p, dict) or "kind" not in p:
        print("replay: this file holds no oracle failure in the replayable form (a case with a \"kind\"): %s / %s"
              % (payload.get("kind"), payload.get("what")))
        print("replay: recorded input: %s" % _show(p, 1500))
        return res
    print("replay: property %s, oracle %r, scenario %r" % (prop_id, p["kind"], p.get("scenario")))
    print("replay: recorded: %s" % payload.get("what"))
    skip = {"kind", "scenario", "input", "details", "parallel", "shrunk", "shrink", "error", "no_shrink"}
    for k in sorted(p):
        if k not in skip and not k.endswith("_unshrunk") and k not in p.get("parallel", []):
            print("replay:   %s = %s" % (k, _show(p[k])))
    inp = p.get("input")
    if isinstance(inp, list):
        was = p.get("input_unshrunk")
        before = (" (%d before shrinking)" % len(was)) if p.get("shrunk") and was else ""
        print("replay:   input: %d item(s)%s" % (len(inp), before))
        tagged = [k for k in p.get("parallel", [])
                  if k != "records" and isinstance(p.get(k), list) and len(p[k]) == len(inp)]
        for i, x in enumerate(inp):
            print("replay:     %s%s" % (_show(x), "".join("   [%s=%s]" % (k, _show(p[k][i], 60)) for k in tagged)))
    elif inp is not None:
        print("replay:   input = %s" % _show(inp))
    _show_details("recorded", p.get("details"))
    got = judge(p)
    res.evaluations = max(1, got.evaluations)
    same = [(w, fp) for w, fp in got.oracle_failures if same_failure(fp, p)]
    other = [(w, fp) for w, fp in got.oracle_failures if not same_failure(fp, p)]
    for key, ex in got.known_hits.items():
        res.known_hits.setdefault(key, ex)
        print("replay:   matches the known finding %s (not a violation)" % key)
    for w, fp in same[:3]:
        print("replay:   now: %s" % w)
        _show_details("now", fp.get("details"))
    for w, fp in other[:3]:
        print("replay:   note: another oracle (%s) fails on this case: %s" % (fp.get("kind"), w))
    for w, fp in same:
        res.oracle_failures.append((w, _jsonable(fp)))
    verdict = "fails" if same else "holds"
    if not same and got.known_hits:
        verdict = "holds apart from the known finding %s" % ", ".join(sorted(got.known_hits))
    print("replay: verdict: oracle %r %s on this tree (%s)" % (p["kind"], verdict, repo_dir()))
    return res


def write_replay(prop_id, kind, payload):
    os.makedirs(REPLAYS, exist_ok=True)
    h = hashlib.sha1(json.dumps(payload, sort_keys=True, default=str).encode()).hexdigest()[:10]
    path = os.path.join(REPLAYS, "%s-%s-%s.json" % (prop_id, kind, h))
    with open(path, "w") as f:
        json.dump(payload, f, indent=1, default=str, ensure_ascii=True)
    return path


def scratch_dir():
    base = os.environ.get("VERIF_SCRATCH_BASE") or "/var/tmp"
    if not os.path.isdir(base):
        base = tempfile.gettempdir()
    d = tempfile.mkdtemp(prefix="gffverif-", dir=base)
    return d


def rng(seed, *salt):
    h = hashlib.sha256(("%d|" % seed + "|".join(map(str, salt))).encode()).digest()
    return random.Random(int.from_bytes(h[:8], "big"))
