"""Shared machinery of the /verif checks (DESIGN.md §2.3, §2.4, §6).

Every check does, in this order:
  1. proof obligations  - `lake build`, `#print axioms` audit of the property's theorems, forbidden-token grep
  2. correspondence     - the Lean model (native driver) and the real gffutils on the same inputs
  3. oracle             - the property statement, judged on the real code, independent of the model
  4. verdict + evidence
"""
import hashlib
import json
import os
import random
import re
import shutil
import subprocess
import sys
import tempfile
import time

VERIF = os.path.dirname(os.path.dirname(os.path.abspath(__file__)))
LEAN = os.path.join(VERIF, "lean")
DRIVER = os.path.join(LEAN, ".lake", "build", "bin", "gffdriver")
EVIDENCE = os.environ.get("VERIF_EVIDENCE_DIR") or os.path.join(VERIF, "evidence")   # redirected by tools/run_seeded.py
REPLAYS = os.environ.get("VERIF_REPLAY_DIR") or os.path.join(VERIF, "replays")
ALLOWED_AXIOMS = {"propext", "Classical.choice", "Quot.sound"}
FORBIDDEN = re.compile(r"\bsorry\b|\badmit\b|^\s*axiom\s|native_decide|bv_decide|implemented_by|\bunsafe\s|maxHeartbeats\s+0")


class Infra(Exception):
    """infrastructure failure: exit 2, never a VIOLATION"""


# ----------------------------------------------------------------------------------------------
# codec of the line protocol

def enc(s):
    if s is None:
        return "~"
    if s == "":
        return "-"
    return ".".join("%x" % ord(c) for c in s)


def dec(w):
    if w == "~":
        return None
    if w == "-":
        return ""
    return "".join(chr(int(h, 16)) for h in w.split("."))


# ----------------------------------------------------------------------------------------------
# Lean side

def lake_build():
    """(ok, log).  A failing build is a broken proof obligation (or model), not an infra failure,
    unless lake itself is missing."""
    t0 = time.time()
    try:
        p = subprocess.run(["lake", "build"], cwd=LEAN, stdout=subprocess.PIPE, stderr=subprocess.STDOUT,
                           text=True, timeout=3000)
    except FileNotFoundError as e:
        raise Infra("lake not found: %s" % e)
    return p.returncode == 0, p.stdout, time.time() - t0


_AX_RE = re.compile(r"'([^']+)' depends on axioms: \[([^\]]*)\]")
_NOAX_RE = re.compile(r"'([^']+)' does not depend on any axioms")


def audit(prop_id):
    """Run GffProofs/Audit/<id>.lean (a list of `#print axioms`), return
    (theorems: {name: [axioms]}, problems: [str], cmd)."""
    f = os.path.join("GffProofs", "Audit", prop_id + ".lean")
    cmd = "cd lean && lake env lean " + f
    p = subprocess.run(["lake", "env", "lean", f], cwd=LEAN, stdout=subprocess.PIPE, stderr=subprocess.STDOUT,
                       text=True, timeout=3000)
    out = p.stdout.replace("\n  ", " ").replace("\n ", " ")
    thms = {}
    for m in _AX_RE.finditer(out):
        thms[m.group(1)] = [a.strip() for a in m.group(2).split(",") if a.strip()]
    for m in _NOAX_RE.finditer(out):
        thms[m.group(1)] = []
    problems = []
    if p.returncode != 0:
        problems.append("audit file does not check: " + p.stdout[-2000:])
    src = open(os.path.join(LEAN, f)).read()
    wanted = re.findall(r"^#print axioms\s+(\S+)", src, re.M)
    for w in wanted:
        if not any(t == w or t.endswith("." + w) for t in thms):
            problems.append("theorem %s: no axiom report (missing or does not check)" % w)
    for name, axs in thms.items():
        bad = [a for a in axs if a not in ALLOWED_AXIOMS]
        if bad:
            problems.append("theorem %s depends on non-standard axioms %s" % (name, bad))
    return thms, problems, cmd


def _strip_comments(src):
    # remove /- ... -/ (nested) and -- line comments
    out = []
    i, depth, n = 0, 0, len(src)
    while i < n:
        if src.startswith("/-", i):
            depth += 1
            i += 2
        elif depth and src.startswith("-/", i):
            depth -= 1
            i += 2
        elif depth:
            if src[i] == "\n":
                out.append("\n")
            i += 1
        elif src.startswith("--", i):
            while i < n and src[i] != "\n":
                i += 1
        else:
            out.append(src[i])
            i += 1
    return "".join(out)


def forbidden_tokens():
    hits = []
    for root, dirs, files in os.walk(LEAN):
        if ".lake" in root:
            continue
        for fn in files:
            if not fn.endswith(".lean"):
                continue
            path = os.path.join(root, fn)
            code = _strip_comments(open(path, encoding="utf-8").read())
            for ln, line in enumerate(code.split("\n"), 1):
                if FORBIDDEN.search(line):
                    hits.append("%s:%d: %s" % (os.path.relpath(path, VERIF), ln, line.strip()[:120]))
    return hits


def run_model(lines, timeout=1800):
    """Pipe protocol lines to the native driver; one reply line per command line."""
    if not os.path.exists(DRIVER):
        raise Infra("driver not built: " + DRIVER)
    data = "\n".join(lines) + "\n"
    p = subprocess.run([DRIVER], input=data, stdout=subprocess.PIPE, stderr=subprocess.PIPE, text=True,
                       timeout=timeout)
    if p.returncode != 0:
        raise Infra("driver exited %d: %s" % (p.returncode, p.stderr[-500:]))
    out = p.stdout.split("\n")
    if out and out[-1] == "":
        out.pop()
    if len(out) != len(lines):
        raise Infra("driver answered %d lines for %d commands" % (len(out), len(lines)))
    return out


# ----------------------------------------------------------------------------------------------
# repo identification

def repo_dir():
    import gffutils
    return os.path.dirname(os.path.dirname(os.path.abspath(gffutils.__file__)))


def repo_state():
    d = repo_dir()

    def git(*a):
        try:
            return subprocess.run(["git", "-C", d] + list(a), stdout=subprocess.PIPE, stderr=subprocess.DEVNULL,
                                  text=True, timeout=60).stdout
        except Exception:
            return ""
    head = git("rev-parse", "HEAD").strip()
    diff = git("diff", "HEAD", "--", "gffutils")
    return {"gffutils_file": os.path.join(d, "gffutils"), "head": head,
            "worktree_diff_sha1": hashlib.sha1(diff.encode()).hexdigest() if diff else None}


# ----------------------------------------------------------------------------------------------
# known findings

def load_findings(prop_id):
    path = os.path.join(VERIF, "known_findings.json")
    if not os.path.exists(path):
        return []
    data = json.load(open(path))
    return [k for k in data.get("known", []) if k.get("property") == prop_id]


# ----------------------------------------------------------------------------------------------
# result collection

class Result:
    """What a property module reports back."""

    def __init__(self, prop_id):
        self.prop_id = prop_id
        self.evaluations = 0
        self.nontrivial = set()
        self.samples = []
        self.distribution = {}
        self.corr_checked = 0
        self.corr_disagreements = []   # (component, input, model, impl)
        self.oracle_failures = []      # (what, input dict)   -- not matching a known finding
        self.known_hits = {}           # finding key -> example
        self.rule = ""
        self.extra = {}
        self.assumptions = []
        self.constants_checked = None

    def count(self, key, n=1):
        self.distribution[key] = self.distribution.get(key, 0) + n

    def sample(self, s, cap=8):
        if len(self.samples) < cap:
            self.samples.append(s)

    def nontriv(self, key):
        if len(self.nontrivial) < 2_000_000:
            self.nontrivial.add(key)


def write_replay(prop_id, kind, payload):
    os.makedirs(REPLAYS, exist_ok=True)
    h = hashlib.sha1(json.dumps(payload, sort_keys=True, default=str).encode()).hexdigest()[:10]
    path = os.path.join(REPLAYS, "%s-%s-%s.json" % (prop_id, kind, h))
    with open(path, "w") as f:
        json.dump(payload, f, indent=1, default=str, ensure_ascii=True)
    return path


def scratch_dir():
    base = os.environ.get("VERIF_SCRATCH_BASE") or "/var/tmp"
    if not os.path.isdir(base):
        base = tempfile.gettempdir()
    d = tempfile.mkdtemp(prefix="gffverif-", dir=base)
    return d


def rng(seed, *salt):
    h = hashlib.sha256(("%d|" % seed + "|".join(map(str, salt))).encode()).digest()
    return random.Random(int.from_bytes(h[:8], "big"))
