"""Implementation side of the database protocol (GffModel/ProtoDb.lean): run the real gffutils and render the
same canonical text the Lean driver prints."""
import copy
import os

import pyside
import transforms
from common import enc, dec
from pyside import enc_list, enc_attrs, enc_dialect, enc_bool, enc_optint, err_name


# ---- id_spec callable zoo (mirrors ProtoDb.callZoo) --------------------------------------------
def c_none(f):
    return None


def c_empty(f):
    return ""


def c_name(f):
    try:
        return f.attributes["Name"][0]
    except (KeyError, IndexError):
        return None


def c_auto(f):
    return "autoincrement:" + f.featuretype + "x"


def c_autochr(f):
    return "autoincrement:" + f.seqid


def c_autocolon(f):
    return "autoincrement:%s:%s" % (f.seqid, f.featuretype)


def c_const(f):
    return "fixed"


def c_pos(f):
    return "%s_%s" % (f.seqid, "." if f.start is None else f.start)


CALLZOO = {"autocolon": c_autocolon, "none": c_none, "empty": c_empty, "name": c_name, "auto": c_auto, "autochr": c_autochr, "const": c_const,
           "pos": c_pos}


class IdSpec:
    """wire: 'default' | ('L', [keyspec...], form) | ('D', {ft: [keyspec...]}) ; keyspec = ('a', name) | ('c', zoo)
    form in {'str','callable','list'}: how the Python object is passed (a bare string / callable or a list)"""

    def __init__(self, kind="default", keys=None, form="list", table=None):
        self.kind, self.keys, self.form, self.table = kind, keys or [], form, table or {}

    @staticmethod
    def _ks_wire(ks):
        return "_" if not ks else ",".join(("a" + enc(k)) if t == "a" else ("c" + k) for t, k in ks)

    @staticmethod
    def _ks_py(ks):
        return [(k if t == "a" else CALLZOO[k]) for t, k in ks]

    def wire(self):
        if self.kind == "default":
            return "default"
        if self.kind == "L":
            return "L:" + self._ks_wire(self.keys)
        if not self.table:
            return "D:_"
        return "D:" + ";".join(enc(ft) + "=" + self._ks_wire(ks) for ft, ks in self.table.items())

    def py(self):
        if self.kind == "default":
            return None
        if self.kind == "L":
            objs = self._ks_py(self.keys)
            if self.form in ("str", "callable") and len(objs) == 1:
                return objs[0]
            return objs
        out = {}
        for ft, ks in self.table.items():
            objs = self._ks_py(ks)
            out[ft] = objs[0] if (len(objs) == 1 and isinstance(objs[0], str)) else objs
        return out

    def describe(self):
        return self.wire()

    def to_json(self):
        """JSON form for replay payloads (inverse: from_json)"""
        return {"kind": self.kind, "keys": [list(k) for k in self.keys], "form": self.form,
                "table": {ft: [list(k) for k in ks] for ft, ks in self.table.items()}}

    @staticmethod
    def from_json(d):
        return IdSpec(d.get("kind", "default"), [tuple(k) for k in d.get("keys", [])], d.get("form", "list"),
                      {ft: [tuple(k) for k in ks] for ft, ks in d.get("table", {}).items()})


class Cfg:
    def __init__(self, idspec=None, strategy="error", force=(), disG=False, disT=False, force_gff=False,
                 tkey="transcript_id", gkey="gene_id", sub="exon", transform="none", keep_order=False):
        self.idspec = idspec or IdSpec()
        self.strategy, self.force, self.disG, self.disT, self.force_gff = strategy, list(force), disG, disT, force_gff
        self.tkey, self.gkey, self.sub, self.transform, self.keep_order = tkey, gkey, sub, transform, keep_order

    def words(self):
        return " ".join([self.idspec.wire(), self.strategy, enc_list(self.force), enc_bool(self.disG),
                         enc_bool(self.disT), enc_bool(self.force_gff), enc(self.tkey), enc(self.gkey), enc(self.sub),
                         self.transform, enc_bool(self.keep_order)])

    def create_kwargs(self):
        kw = dict(merge_strategy=self.strategy, disable_infer_genes=self.disG, disable_infer_transcripts=self.disT,
                  force_gff=self.force_gff, gtf_transcript_key=self.tkey, gtf_gene_key=self.gkey,
                  gtf_subfeature=self.sub, keep_order=self.keep_order, verbose=False)
        if self.force:
            kw["force_merge_fields"] = list(self.force)
        sp = self.idspec.py()
        if sp is not None:
            kw["id_spec"] = sp
        if transforms.ZOO[self.transform] is not None:
            kw["transform"] = transforms.ZOO[self.transform]
        return kw

    _updates = [0]

    def update_kwargs(self):
        Cfg._updates[0] += 1
        kw = dict(merge_strategy=self.strategy, disable_infer_genes=self.disG, disable_infer_transcripts=self.disT,
                  transcript_key=self.tkey, gene_key=self.gkey, subfeature=self.sub,
                  verbose=VERBOSE_CYCLE[Cfg._updates[0] % len(VERBOSE_CYCLE)])
        if self.force:
            kw["force_merge_fields"] = list(self.force)
        sp = self.idspec.py()
        if sp is not None:
            kw["id_spec"] = sp
        if transforms.ZOO[self.transform] is not None:
            kw["transform"] = transforms.ZOO[self.transform]
        return kw

    def to_json(self):
        """JSON form for replay payloads: the constructor's arguments (inverse: from_json)"""
        return {"idspec": self.idspec.to_json(), "strategy": self.strategy, "force": list(self.force), "disG": self.disG,
                "disT": self.disT, "force_gff": self.force_gff, "tkey": self.tkey, "gkey": self.gkey, "sub": self.sub,
                "transform": self.transform, "keep_order": self.keep_order}

    @staticmethod
    def from_json(d):
        d = dict(d)
        return Cfg(idspec=IdSpec.from_json(d.pop("idspec", {})), **d)

    def describe(self):
        return {"id_spec": self.idspec.describe(), "merge_strategy": self.strategy, "force_merge_fields": self.force,
                "disable_infer_genes": self.disG, "disable_infer_transcripts": self.disT, "force_gff": self.force_gff,
                "transform": self.transform, "keep_order": self.keep_order}


def write_lines(path, lines):
    with open(path, "w", encoding="utf-8", newline="") as fh:
        fh.write("".join(l + "\n" for l in lines))
    return path


def cmd_create(lines, cfg, checklines=10, supplied=None):
    return "create %d %s %s %s" % (checklines, enc_dialect(supplied), enc_list(lines), cfg.words())


def cmd_update(lines, cfg, checklines=10):
    return "update %d %s %s" % (checklines, enc_list(lines), cfg.words())


# `verbose` only switches progress / debug output on; it must not change what is stored.  Imports run by the harness take
# it from this cycle (chosen by the content of the input, so that the same input is always imported the same way)
VERBOSE_CYCLE = [False, False, True, False, "debug", False, False]


def verbose_for(path):
    import zlib
    try:
        with open(path, "rb") as fh:
            return VERBOSE_CYCLE[zlib.crc32(fh.read()) % len(VERBOSE_CYCLE)]
    except (OSError, TypeError):
        return False


def py_create(path, cfg, dbfn=":memory:", checklines=10, supplied=None, force=True):
    """returns (db | None, reply text like the model's)"""
    import gffutils
    import warnings
    kw = cfg.create_kwargs()
    kw["verbose"] = verbose_for(path)
    if supplied is not None:
        kw["dialect"] = copy.deepcopy(supplied)
    try:
        with warnings.catch_warnings():
            warnings.simplefilter("ignore")
            db = gffutils.create_db(path, dbfn, checklines=checklines, force=force, **kw)
        return db, "ok " + enc_dialect(db.dialect)
    except Exception as ex:
        return None, "err " + err_name(ex)


def rows_of(db):
    c = db.conn.cursor()
    c.execute("SELECT id, seqid, source, featuretype, start, end, score, strand, frame, attributes, extra, bin, rowid "
              "FROM features ORDER BY rowid")
    import simplejson as json
    out = []
    for r in c.fetchall():
        out.append({"id": r[0], "seqid": r[1], "source": r[2], "featuretype": r[3], "start": r[4], "end": r[5],
                    "score": r[6], "strand": r[7], "frame": r[8], "attributes": json.loads(r[9]),
                    "extra": json.loads(r[10]), "bin": r[11], "rowid": r[12]})
    return out


def enc_row(r):
    return "!".join([enc(str(r["id"])), enc(r["seqid"]), enc(r["source"]), enc(r["featuretype"]), enc_optint(r["start"]),
                     enc_optint(r["end"]), enc(r["score"]), enc(r["strand"]), enc(r["frame"]),
                     enc_attrs(r["attributes"]), enc_list(r["extra"]), enc_optint(r["bin"])])


def rels_of(db):
    c = db.conn.cursor()
    c.execute("SELECT parent, child, level FROM relations")
    return [(str(p), str(ch), l) for p, ch, l in c.fetchall()]


def enc_rels(rels):
    if not rels:
        return "_"
    return "/".join(sorted("%s>%s>%d" % (enc(p), enc(c), l) for p, c, l in rels))


def enc_auto(d):
    items = [(k, n) for k, n in dict(d).items()]
    if not items:
        return "_"
    return ",".join(sorted("%s:%d" % (enc(k), n) for k, n in items))


def pauto_of(db):
    c = db.conn.cursor()
    c.execute("SELECT base, n FROM autoincrements")
    return dict(c.fetchall())


def dump(db):
    rows = rows_of(db)
    return "ok %s %s %s %s %s %s" % ("/".join(enc_row(r) for r in rows) if rows else "_", enc_rels(rels_of(db)),
                                    enc_list(db.directives), enc_dialect(db.dialect), enc_auto(db._autoincrements),
                                    enc_auto(pauto_of(db)))


def cmd_load(db, keep=False):
    """unit layer: load the model's tables from the real database"""
    rows = rows_of(db)
    return "load %s %s %s %s %s %s" % ("/".join(enc_row(r) for r in rows) if rows else "_", enc_rels(rels_of(db)),
                                      enc_list(db.directives), enc_dialect(db.dialect), enc_auto(pauto_of(db)),
                                      enc_bool(keep))


def parse_dump(text):
    """'ok rows rels dirs dialect auto pauto' -> dict with decoded pieces (works for both sides)"""
    if not text.startswith("ok "):
        return {"error": text}
    _, rows, rels, dirs, dialect, auto, pauto = text.split(" ")
    feats = []
    if rows != "_":
        for w in rows.split("/"):
            f = w.split("!")
            feats.append({"id": dec(f[0]), "cols": [dec(x) for x in f[1:4]] + f[4:6] + [dec(x) for x in f[6:9]],
                          "attrs": f[9], "extra": f[10], "bin": f[11]})
    return {"features": feats, "relations": set() if rels == "_" else set(rels.split("/")), "directives": dirs,
            "dialect": dialect, "auto": auto, "pauto": pauto}


def dec_attrs(w):
    if w == "_":
        return {}
    out = {}
    for item in w.split(";"):
        k, v = item.split("=")
        out[dec(k)] = [] if v == "_" else [dec(x) for x in v.split(",")]
    return out


def cmd_query(ft=(), strand=None, limit=None, within=False, order_by=(), reverse=False):
    lim = "~" if limit is None else "%s,%d,%d" % (enc(limit[0]), limit[1], limit[2])
    return "%s %s %s %s %s %s" % (enc_list(ft), "~" if strand is None else enc(strand), lim, enc_bool(within),
                                  ",".join(order_by) if order_by else "_", enc_bool(reverse))
