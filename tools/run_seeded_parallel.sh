#!/bin/sh
# Development tool: run tools/run_seeded.py over all seeded changes in N parallel chunks and merge the results into
# seeded/RESULTS.json (each chunk works in its own scratch worktree; evidence/replays are redirected by run_seeded.py).
#   usage: tools/run_seeded_parallel.sh [N=6] [seeds=0,1,2]
here=$(cd "$(dirname "$0")/.." && pwd)
N=${1:-6}
SEEDS=${2:-0,1,2}
out=$(mktemp -d /var/tmp/seeded-matrix-XXXXXX)
ls "$here/seeded" | grep -E '^C[0-9]+-[0-9]+$' | sort > "$out/ids"
split -n r/$N "$out/ids" "$out/chunk_"
for c in "$out"/chunk_*; do
  python3 "$here/tools/run_seeded.py" $(cat "$c") --seeds "$SEEDS" --out "$c.json" > "$c.log" 2>&1 &
done
wait
python3 - "$out" "$here/seeded/RESULTS.json" <<'PY'
import glob, json, sys
res = {}
for f in sorted(glob.glob(sys.argv[1] + "/chunk_*.json")):
    res.update(json.load(open(f)))
json.dump(dict(sorted(res.items())), open(sys.argv[2], "w"), indent=1)
print("merged", len(res), "results;", sum(1 for r in res.values() if r.get("detected")), "detected")
PY
cat "$out"/chunk_*.log | grep -v WARNING | grep "detected=False"
rm -rf "$out"
