#!/usr/bin/env python3
"""Confirm a seeded change delivered by a sub-agent (/tmp/wt/<ID>.out/<n>/) independently and, if confirmed, keep it as
/verif/seeded/<ID>-<n>/ (patch.diff, demo.py, meta.json with what was run).
usage: intake_seeded.py [--base /tmp/wt2 --offset 3] <ID> [<ID> ...]   (offset is added to <n>: second-round changes are 4..6)"""
import json
import os
import shutil
import subprocess
import sys
import tempfile

PY = "/venv/bin/python"
PYTEST = [PY, "-m", "pytest", "-q", "-p", "no:cacheprovider", "--timeout=900", "--continue-on-collection-errors"]
BASE = "2 failed, 74 passed"


def sh(cmd, cwd=None, env=None):
    p = subprocess.run(cmd, cwd=cwd, env=env, stdout=subprocess.PIPE, stderr=subprocess.STDOUT, text=True, timeout=3600)
    return p.returncode, p.stdout


ARGS = sys.argv[1:]
BASEDIR, OFFSET = "/tmp/wt", 0
if "--base" in ARGS:
    BASEDIR = ARGS[ARGS.index("--base") + 1]
    del ARGS[ARGS.index("--base"):ARGS.index("--base") + 2]
if "--offset" in ARGS:
    OFFSET = int(ARGS[ARGS.index("--offset") + 1])
    del ARGS[ARGS.index("--offset"):ARGS.index("--offset") + 2]

for pid in ARGS:
    out = "%s/%s.out" % (BASEDIR, pid)
    if not os.path.isdir(out):
        print(pid, "no output dir")
        continue
    for n in sorted(os.listdir(out)):
        d = os.path.join(out, n)
        if not os.path.exists(os.path.join(d, "patch.diff")):
            continue
        scratch = tempfile.mkdtemp(prefix="intake-", dir="/var/tmp")
        tree = os.path.join(scratch, "tree")
        try:
            sh(["git", "-C", "/repo", "worktree", "add", "--detach", tree, "HEAD"])
            env = dict(os.environ, PYTHONPATH=tree)
            rc0, o0 = sh([PY, os.path.join(d, "demo.py")], cwd=scratch, env=env)
            rc, o = sh(["git", "-C", tree, "apply", os.path.join(d, "patch.diff")])
            if rc:
                print(pid, n, "REJECT patch does not apply", o[-200:])
                continue
            rct, t = sh(PYTEST, cwd=tree, env=env)
            tail = t.strip().split("\n")[-1]
            rc1, o1 = sh([PY, os.path.join(d, "demo.py")], cwd=scratch, env=env)
            ok = rc0 == 0 and rc1 == 1 and BASE in tail and "1 error" in tail
            print(pid, n, "CONFIRMED" if ok else "REJECT", "demo unpatched=%d patched=%d tests=[%s]" % (rc0, rc1, tail))
            if ok:
                dst = os.path.join(os.path.dirname(os.path.dirname(os.path.abspath(__file__))), "seeded", "%s-%d" % (pid, int(n) + OFFSET))
                os.makedirs(dst, exist_ok=True)
                for f in ("patch.diff", "demo.py"):
                    shutil.copy(os.path.join(d, f), os.path.join(dst, f))
                meta = json.load(open(os.path.join(d, "meta.json")))
                meta["property"] = pid
                meta["confirmed_by_me"] = {
                    "worktree": "fresh git worktree of /repo HEAD outside /repo and /verif (removed afterwards)",
                    "tests_cmd": " ".join(PYTEST), "tests_after_patch": tail, "demo_exit_unpatched": rc0,
                    "demo_exit_patched": rc1, "repo_head": sh(["git", "-C", "/repo", "rev-parse", "--short", "HEAD"])[1].strip()}
                json.dump(meta, open(os.path.join(dst, "meta.json"), "w"), indent=1)
        finally:
            sh(["git", "-C", "/repo", "worktree", "remove", "--force", tree])
            shutil.rmtree(scratch, ignore_errors=True)
