#!/usr/bin/env python3
"""Run the registered checks against the seeded defects in /verif/seeded/<id>/ (development tool, not a registered check).

For each seeded change: a scratch git worktree of /repo is created outside /repo and /verif, the patch applied, the pinned
test suite run (must keep the baseline outcome), the demonstration run (must exit 1 with the patch, 0 without), and the
property's check run with PYTHONPATH pointing at the scratch tree (must exit 1 with a VIOLATION line). Evidence and replays of
these runs go to a scratch directory, never into /verif/evidence. The worktree is removed afterwards.
  usage: tools/run_seeded.py [<seeded-id> ...] [--tier quick|thorough] [--seeds 0,1,2] [--in-repo]
"detected" means: detected under every listed seed (VERIF_SEED).
--in-repo applies the patch to /repo itself (git apply / git checkout -- .) instead of a worktree.
"""
import json
import os
import shutil
import subprocess
import sys
import tempfile

VERIF = os.path.dirname(os.path.dirname(os.path.abspath(__file__)))
SEEDED = os.path.join(VERIF, "seeded")
PY = "/venv/bin/python"
PYTEST = [PY, "-m", "pytest", "-q", "-p", "no:cacheprovider", "--timeout=900", "--continue-on-collection-errors"]


def sh(cmd, cwd=None, env=None, timeout=3600):
    p = subprocess.run(cmd, cwd=cwd, env=env, stdout=subprocess.PIPE, stderr=subprocess.STDOUT, text=True, timeout=timeout)
    return p.returncode, p.stdout


def main():
    args = [a for a in sys.argv[1:] if not a.startswith("--")]
    tier = "quick"
    if "--tier" in sys.argv:
        tier = sys.argv[sys.argv.index("--tier") + 1]
        args = [a for a in args if a != tier]
    in_repo = "--in-repo" in sys.argv
    seeds = [0]
    if "--seeds" in sys.argv:
        sv = sys.argv[sys.argv.index("--seeds") + 1]
        seeds = [int(x) for x in sv.split(",")]
        args = [a for a in args if a != sv]
    if "--out" in sys.argv:
        args = [a for a in args if a != sys.argv[sys.argv.index("--out") + 1]]
    ids = args or sorted(d for d in os.listdir(SEEDED) if os.path.isdir(os.path.join(SEEDED, d)))
    results = {}
    for sid in ids:
        d = os.path.join(SEEDED, sid)
        meta = json.load(open(os.path.join(d, "meta.json")))
        prop = meta["property"]
        # a change may have been written for one property while the behaviour it breaks is stated by another one
        # ("check_property", set by hand after triage, with the reason in "check_property_reason")
        prop = meta.get("check_property", prop)
        scratch = tempfile.mkdtemp(prefix="seeded-", dir="/var/tmp")
        tree = "/repo" if in_repo else os.path.join(scratch, "tree")
        try:
            if not in_repo:
                rc, out = sh(["git", "-C", "/repo", "worktree", "add", "--detach", tree, "HEAD"])
                if rc:
                    raise RuntimeError(out)
            rc, out = sh(["git", "-C", tree, "apply", os.path.join(d, "patch.diff")])
            if rc:
                results[sid] = {"property": prop, "error": "patch does not apply: " + out[-300:]}
                continue
            env = dict(os.environ, PYTHONPATH=tree, VERIF_EVIDENCE_DIR=os.path.join(scratch, "ev"),
                       VERIF_REPLAY_DIR=os.path.join(scratch, "rp"))
            rc, tests = sh(PYTEST, cwd=tree, env=env)
            tests_tail = tests.strip().split("\n")[-1]
            rc_demo, demo_out = sh([PY, os.path.join(d, "demo.py")], cwd=scratch, env=env)
            per_seed = {}
            for sd in seeds:
                rc_chk, chk_out = sh([os.path.join(VERIF, "check"), prop, "--tier", tier], cwd=VERIF,
                                     env=dict(env, VERIF_SEED=str(sd)))
                vio = [l for l in chk_out.split("\n") if l.startswith("VIOLATION")]
                per_seed[str(sd)] = bool(rc_chk == 1 and vio)
                if not per_seed[str(sd)]:
                    break               # report the first seed that misses it
            replay = None
            if vio:
                path = vio[0].split("replay=")[1].split()[0]
                try:
                    replay = json.load(open(path)).get("what") or json.load(open(path)).get("kind")
                except Exception:
                    replay = None
            try:
                ev = json.load(open(os.path.join(scratch, "ev", prop + ".json")))
                touched = [c["function"] for c in ev["coverage"]["modelled_functions"]["changed"]]
            except Exception:
                touched = None
            results[sid] = {"property": prop, "modelled_functions_changed": touched, "tests": tests_tail, "demo_exit_patched": rc_demo, "check_exit": rc_chk,
                            "violation_line": vio[0] if vio else None, "what": replay,
                            "detected_per_seed": per_seed, "detected": all(per_seed.values())}
        finally:
            if in_repo:
                sh(["git", "-C", "/repo", "checkout", "--", "."])
            else:
                sh(["git", "-C", "/repo", "worktree", "remove", "--force", tree])
            shutil.rmtree(scratch, ignore_errors=True)
        r = results[sid]
        print("%-14s %-4s detected=%s demo=%s tests=[%s] %s" % (sid, prop, r.get("detected"), r.get("demo_exit_patched"),
                                                                 r.get("tests"), (r.get("what") or r.get("error") or "")[:110]))
    outp = os.path.join(SEEDED, "RESULTS.json")
    if "--out" in sys.argv:
        outp = sys.argv[sys.argv.index("--out") + 1]
    with open(outp, "w") as f:
        json.dump(results, f, indent=1)


if __name__ == "__main__":
    main()
