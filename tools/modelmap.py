#!/venv/bin/python
"""Which Python functions of /repo each Lean definition models, and a fingerprint of their source.

The map is hand-written (the model is hand-written); the fingerprint is computed from /repo's working tree
on every run: sha1 of `ast.unparse` of the function with docstrings removed, so comments, blank lines and
docstring edits do not count as a change and every change of a statement does.

  tools/modelmap.py --write    record the fingerprints of the current tree as the baseline (modelmap.json);
                               done by hand after the correspondence was re-validated against that tree
  tools/modelmap.py            print what differs from the baseline

vcheck reads the baseline and records in each evidence file which modelled functions of the property differ
from the tree the model was last validated against.  A difference is never a violation: it says which part of
the model the correspondence of this run had to re-validate.
"""
import ast
import hashlib
import json
import os
import sys

VERIF = os.path.dirname(os.path.dirname(os.path.abspath(__file__)))
BASELINE = os.path.join(VERIF, "modelmap.json")

# python qualified name -> Lean definitions that model it
MODELS = {
    "gffutils/parser.py": {
        "_reconstruct": ["GffModel.Parser.reconstruct", "GffModel.Quote.quoteStr"],
        "_split_keyvals": ["GffModel.Parser.splitKeyvals", "GffModel.Parser.splitProvided", "GffModel.Parser.splitInfer",
                           "GffModel.Quote.unquote"],
        "Quoter.__missing__": ["GffModel.Quote.quoteChar"],
    },
    "gffutils/feature.py": {
        "Feature.__init__": ["GffModel.Feature", "GffModel.Feature.featureFromLine"],
        "Feature.calc_bin": ["GffModel.Feature.calcBin"],
        "Feature.__str__": ["GffModel.Feature.print"],
        "Feature.__len__": ["GffModel.Feature.len"],
        "Feature.__eq__": ["GffModel.AttrsModel.pyEq"],
        "Feature.__hash__": ["GffModel.AttrsModel.pyHash"],
        "Feature.__getitem__": ["GffModel.AttrsModel.getItem"],
        "Feature.__setitem__": ["GffModel.AttrsModel.setItem"],
        "Feature.astuple": ["GffModel.Row.ofFeature"],
        "Feature.sequence": ["GffModel.Export.sequence"],
        "feature_from_line": ["GffModel.Feature.featureFromLine"],
    },
    "gffutils/helpers.py": {
        "infer_dialect": ["GffModel.Helpers.inferDialect"],
        "_choose_dialect": ["GffModel.Helpers.chooseDialect", "GffModel.Helpers.tally", "GffModel.Helpers.winner"],
        "make_query": ["GffModel.Sql.makeQuery", "GffModel.Sql.makeQueryAst", "GffModel.Interface.Query", "GffModel.Interface.runQuery",
                       "GffModel.Interface.limitBins"],
        "_bin_from_dict": ["GffModel.Feature.calcBin"],
        "_jsonify": ["GffModel.Json.encodeAttrs", "GffModel.Json.encodeList"],
        "_unjsonify": ["GffModel.Json.decodeAttrs", "GffModel.Json.decodeList", "GffModel.Json.decodeObj"],
        "merge_attributes": ["GffModel.Inter.mergeAttributes", "GffModel.AttrsModel.mergeAttributes"],
    },
    "gffutils/iterators.py": {
        "_BaseIterator.__init__": ["GffModel.Iter.runFile", "GffModel.Iter.runFeatures"],
        "_BaseIterator.__iter__": ["GffModel.Iter.applyTransform"],
        "_BaseIterator._directive_handler": ["GffModel.Iter.directives"],
        "_FileIterator.peek": ["GffModel.Iter.filePeek"],
        "_FileIterator._custom_iter": ["GffModel.Iter.classify", "GffModel.Iter.body", "GffModel.Iter.featureLines"],
        "_FeatureIterator.peek": ["GffModel.Iter.featPeek"],
        "_FeatureIterator._custom_iter": ["GffModel.Iter.runFeatures"],
        "DataIterator": ["GffModel.IterMore.Input.run"],
    },
    "gffutils/bins.py": {
        "bins": ["GffModel.Bins.bins"],
    },
    "gffutils/attributes.py": {
        "Attributes.__init__": ["GffModel.AttrsModel.ofDict"],
        "Attributes.__setitem__": ["GffModel.AttrsModel.set"],
        "Attributes.__getitem__": ["GffModel.AttrsModel.get", "GffModel.AttrsModel.view"],
        "Attributes.__delitem__": ["GffModel.AttrsModel.del"],
        "Attributes.update": ["GffModel.AttrsModel.update"],
    },
    "gffutils/merge_criteria.py": {
        "seqid": ["GffModel.Merge.seqid"], "strand": ["GffModel.Merge.strand"],
        "feature_type": ["GffModel.Merge.featureType"],
        "exact_coordinates_only": ["GffModel.Merge.exactCoordinatesOnly"],
        "overlap_end_inclusive": ["GffModel.Merge.overlapEndInclusive"],
        "overlap_start_inclusive": ["GffModel.Merge.overlapStartInclusive"],
        "overlap_any_inclusive": ["GffModel.Merge.overlapAnyInclusive"],
        "overlap_end_threshold": ["GffModel.Merge.overlapEndThreshold"],
        "overlap_start_threshold": ["GffModel.Merge.overlapStartThreshold"],
        "overlap_any_threshold": ["GffModel.Merge.overlapAnyThreshold"],
    },
    "gffutils/convert.py": {
        "to_bed12": ["GffModel.Export.toBed12"],
    },
    "gffutils/create.py": {
        "_DBCreator.__init__": ["GffModel.Create.Cfg", "GffModel.World.createDb (force / existing file)"],
        "_DBCreator._increment_featuretype_autoid": ["GffModel.Create.incr"],
        "_DBCreator._id_handler": ["GffModel.Create.idHandler", "GffModel.Create.tryKeys"],
        "_DBCreator._do_merge": ["GffModel.Create.doMerge"],
        "_DBCreator._add_duplicate": ["GffModel.Create.doMerge (duplicates rows)"],
        "_DBCreator._candidate_merges": ["GffModel.Create.candidates"],
        "_DBCreator._init_tables": ["GffModel.World.createDb"],
        "_DBCreator._finalize": ["GffModel.Create.finalize"],
        "_DBCreator.create": ["GffModel.Create.createDb"],
        "_DBCreator.update": ["GffModel.Interface.update"],
        "_DBCreator._insert": ["GffModel.Db.insert"],
        "_DBCreator._replace": ["GffModel.Db.replaceRow"],
        "_GFFDBCreator._populate_from_lines": ["GffModel.Create.populateGff", "GffModel.Create.gffStep",
                                               "GffModel.Create.fileFeature"],
        "_GFFDBCreator._update_relations": ["GffModel.Create.updateRelationsGff"],
        "_GTFDBCreator._populate_from_lines": ["GffModel.Create.populateGtf", "GffModel.Create.gtfStep",
                                               "GffModel.Create.fileFeature"],
        "_GTFDBCreator._update_relations": ["GffModel.Create.updateRelationsGtf"],
        "create_db": ["GffModel.Create.route", "GffModel.Create.createDb"],
    },
    "gffutils/interface.py": {
        "_finalize_merge": ["GffModel.Merge.finalize"],
        "FeatureDB.__init__": ["GffModel.Interface.openDb"],
        "FeatureDB._feature_returner": ["GffModel.Row.toFeature"],
        "FeatureDB.__getitem__": ["GffModel.Interface.getItem"],
        "FeatureDB.count_features_of_type": ["GffModel.Sql.countQuery", "GffModel.Interface.countFeatures"],
        "FeatureDB.features_of_type": ["GffModel.Interface.runQuery"],
        "FeatureDB.iter_by_parent_childs": ["GffModel.Interface.runRelation"],
        "FeatureDB.all_features": ["GffModel.Interface.runQuery"],
        "FeatureDB.featuretypes": ["GffModel.Interface.featuretypes"],
        "FeatureDB._relation": ["GffModel.Sql.relationText", "GffModel.Sql.relationAst", "GffModel.Interface.related",
                                "GffModel.Interface.runRelation"],
        "FeatureDB.children": ["GffModel.Interface.runRelation"],
        "FeatureDB.parents": ["GffModel.Interface.runRelation"],
        "FeatureDB.region": ["GffModel.Sql.regionText", "GffModel.Sql.regionAst", "GffModel.Interface.region",
                             "GffModel.Interface.regionMatches"],
        "FeatureDB.interfeatures": ["GffModel.Inter.interfeatures"],
        "FeatureDB.delete": ["GffModel.Interface.delete"],
        "FeatureDB.update": ["GffModel.Interface.update"],
        "FeatureDB.add_relation": ["GffModel.Interface.addRelation"],
        "FeatureDB.create_introns": ["GffModel.DbExport.createIntrons"],
        "FeatureDB.create_splice_sites": ["GffModel.DbExport.createSpliceSites"],
        "FeatureDB.merge": ["GffModel.Merge.merge"],
        "FeatureDB.merge_all": ["GffModel.DbExport.mergeAll"],
        "FeatureDB.children_bp": ["GffModel.DbExport.childrenBp"],
        "FeatureDB.bed12": ["GffModel.Export.bed12"],
        "FeatureDB.seqids": ["GffModel.Interface.seqids"],
    },
}


def _strip_docstrings(node):
    for n in ast.walk(node):
        if isinstance(n, (ast.FunctionDef, ast.AsyncFunctionDef, ast.ClassDef, ast.Module)):
            b = n.body
            if b and isinstance(b[0], ast.Expr) and isinstance(getattr(b[0], "value", None), ast.Constant) \
                    and isinstance(b[0].value.value, str):
                n.body = b[1:] or [ast.Pass()]
    return node


def _find(tree, qual):
    """all definitions named `qual` (`f` or `Class.f`); properties with a setter give two"""
    parts = qual.split(".")
    out = []
    for n in tree.body:
        if len(parts) == 1 and isinstance(n, (ast.FunctionDef, ast.ClassDef)) and n.name == parts[0]:
            out.append(n)
        elif len(parts) == 2 and isinstance(n, ast.ClassDef) and n.name == parts[0]:
            out += [m for m in n.body if isinstance(m, ast.FunctionDef) and m.name == parts[1]]
    return out


def fingerprints(repo):
    """{file: {qualname: sha1 | None}} for the current tree"""
    res = {}
    for rel, funcs in MODELS.items():
        try:
            tree = ast.parse(open(os.path.join(repo, rel), encoding="utf-8").read())
        except (OSError, SyntaxError):
            res[rel] = {q: None for q in funcs}
            continue
        d = {}
        for q in funcs:
            nodes = _find(tree, q)
            if not nodes:
                d[q] = None
                continue
            h = hashlib.sha1()
            for n in nodes:
                h.update(ast.unparse(_strip_docstrings(n)).encode())
            d[q] = h.hexdigest()
        res[rel] = d
    return res


def compare(repo, files=None):
    """list of {file, function, lean, sha1, baseline, changed} for the modelled functions in `files` (all when None)"""
    try:
        base = json.load(open(BASELINE))["fingerprints"]
    except (OSError, ValueError, KeyError):
        base = {}
    now = fingerprints(repo)
    rows = []
    for rel, funcs in MODELS.items():
        if files is not None and rel not in files:
            continue
        for q, lean in funcs.items():
            b = base.get(rel, {}).get(q)
            n = now[rel][q]
            rows.append({"file": rel, "function": q, "lean": lean, "sha1": n, "baseline": b, "changed": n != b})
    return rows


def main():
    repo = os.environ.get("VERIF_REPO", "/repo")
    if "--write" in sys.argv:
        import subprocess
        head = subprocess.run(["git", "-C", repo, "rev-parse", "HEAD"], capture_output=True, text=True).stdout.strip()
        json.dump({"validated_against": head, "fingerprints": fingerprints(repo)}, open(BASELINE, "w"), indent=1,
                  sort_keys=True)
        print("baseline written for", head)
        return 0
    rows = [r for r in compare(repo) if r["changed"]]
    for r in rows:
        print("%s:%s differs from the validated tree (model: %s)" % (r["file"], r["function"], ", ".join(r["lean"])))
    missing = [r for r in compare(repo) if r["sha1"] is None]
    for r in missing:
        print("%s:%s not found" % (r["file"], r["function"]))
    print("%d modelled functions, %d differ" % (len(compare(repo)), len(rows)))
    return 0


if __name__ == "__main__":
    sys.exit(main())
